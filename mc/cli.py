"""Drive batchie's command-line entry points in-process (sys.argv patched)."""
import contextlib
import importlib
import io
import logging
import sys

from . import env

env.setup()

_FAST = {"installed": False}

# modules that define the classes the CLIs look up by name
_CLASS_MODULES = [
    "batchie.models.sparse_combo",
    "batchie.models.sparse_combo_interaction",
    "batchie.scoring.gaussian_dbal",
    "batchie.scoring.rand",
    "batchie.scoring.size",
    "batchie.distance.mse",
    "batchie.policies.k_per_sample",
    "batchie.retrospective",
]


def install_fast_get_class():
    """introspection.get_class walks (and imports) every module of the package,
    including the torch/pyro based ones and all *_test modules: ~9 s per process.
    The class lookup itself is not the subject of any property, so the harness
    resolves the shipped classes directly and falls back to the real function."""
    if _FAST["installed"]:
        return
    from batchie import introspection

    real = introspection.get_class

    def fast_get_class(package_name, class_name, base_class):
        for mname in _CLASS_MODULES:
            try:
                mod = importlib.import_module(mname)
            except Exception:  # noqa: BLE001
                continue
            cls = getattr(mod, class_name, None)
            if isinstance(cls, type) and issubclass(cls, base_class):
                return cls
        return real(package_name, class_name, base_class)

    introspection.get_class = fast_get_class
    _FAST["installed"] = True


def run_cli(name, argv, fast=True):
    """Run batchie.cli.<name>.main() with the given argument list.  Returns None;
    exceptions (including SystemExit from argparse) propagate."""
    if fast:
        install_fast_get_class()
    mod = importlib.import_module(f"batchie.cli.{name}")
    old = sys.argv
    sys.argv = [name] + [str(a) for a in argv]
    out, err = io.StringIO(), io.StringIO()
    try:
        with contextlib.redirect_stdout(out), contextlib.redirect_stderr(err):
            mod.main()
    finally:
        sys.argv = old
        lg = logging.getLogger("batchie")
        for h in list(lg.handlers):
            lg.removeHandler(h)
