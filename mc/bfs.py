"""Engine E3: explicit-state breadth-first search over operation histories.

States are real objects of the code under test (or whatever `successors` can rebuild a
real object from); transitions call real methods.  `canon(state)` must keep every field
the property can observe, so that merged states have the same futures.
"""
from collections import deque


def bfs(initials, successors, canon, max_depth=None, max_states=None, check_state=None):
    """initials: iterable of states.
    successors(state, depth) -> iterable of (label, next_state); it must not mutate
        `state` (rebuild / copy when the real operation works in place) and performs
        its own per-transition checks.
    check_state(state, history) is called once per distinct state.
    Returns dict(states, transitions, max_depth, cap_hit, histories) where histories maps
    canon(state) -> label list that first reached it (shortest, BFS)."""
    seen = {}
    frontier = deque()
    for s in initials:
        k = canon(s)
        if k not in seen:
            seen[k] = []
            frontier.append((s, [], 0))
            if check_state:
                check_state(s, [])
    transitions = 0
    maxd = 0
    cap = False
    while frontier:
        state, hist, depth = frontier.popleft()
        if max_depth is not None and depth >= max_depth:
            continue
        for label, nxt in successors(state, depth):
            transitions += 1
            k = canon(nxt)
            if k in seen:
                continue
            if max_states is not None and len(seen) >= max_states:
                cap = True
                continue
            h = hist + [label]
            seen[k] = h
            maxd = max(maxd, depth + 1)
            if check_state:
                check_state(nxt, h)
            frontier.append((nxt, h, depth + 1))
    return {"states": len(seen), "transitions": transitions, "max_depth": maxd, "cap_hit": cap, "histories": seen}
