"""Process environment: point the interpreter at the repository under test.

BATCHIE_REPO (default /repo) is the tree that is explored.  Its src/ directory is put
first on sys.path so that the code on disk *now* is what gets imported (the editable
install of /repo is a plain .pth entry and loses to an explicit sys.path entry).
"""
import logging
import os
import sys
import warnings

REPO = os.path.abspath(os.environ.get("BATCHIE_REPO", "/repo"))
SRC = os.path.join(REPO, "src")
VERIF = os.path.dirname(os.path.dirname(os.path.abspath(__file__)))
SCRATCH_ROOT = "/dev/shm" if os.path.isdir("/dev/shm") else "/var/tmp"

_done = False


def setup():
    global _done
    if _done:
        return
    _done = True
    sys.dont_write_bytecode = True
    if SRC in sys.path:
        sys.path.remove(SRC)
    sys.path.insert(0, SRC)
    for name in [m for m in sys.modules if m == "batchie" or m.startswith("batchie.")]:
        del sys.modules[name]
    logging.disable(logging.CRITICAL)
    warnings.filterwarnings("ignore")
    os.environ.setdefault("BATCHIE_VERIF", "1")
    import numpy as np

    np.seterr(all="ignore")


def in_repo(path: str) -> bool:
    try:
        return os.path.abspath(path).startswith(REPO + os.sep)
    except Exception:
        return False


def scratch_dir(tag: str) -> str:
    import tempfile

    return tempfile.mkdtemp(prefix=f"batchie-verif-{tag}-{os.getpid()}-", dir=SCRATCH_ROOT)
