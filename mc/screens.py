"""Builders and canonical forms for batchie Screens (harness side)."""
from collections import Counter

import numpy as np

from . import env

env.setup()

from batchie.data import Screen  # noqa: E402


def make_screen(rows, control="", arity=None, with_obs=True, with_mask=True, **kw):
    """rows: list of dicts/tuples (sample, plate, [(name, dose), ...], obs, observed)."""
    rows = [tuple(r) for r in rows]
    n = len(rows)
    if arity is None:
        arity = len(rows[0][2]) if rows else 2
    tn = np.array([[t[0] for t in r[2]] for r in rows], dtype=str).reshape(n, arity)
    td = np.array([[t[1] for t in r[2]] for r in rows], dtype=float).reshape(n, arity)
    sn = np.array([r[0] for r in rows], dtype=str)
    pn = np.array([r[1] for r in rows], dtype=str)
    args = dict(
        treatment_names=tn,
        treatment_doses=td,
        sample_names=sn,
        plate_names=pn,
        control_treatment_name=control,
    )
    if with_obs:
        args["observations"] = np.array([r[3] for r in rows], dtype=float)
        if with_mask:
            args["observation_mask"] = np.array([bool(r[4]) for r in rows], dtype=bool)
    args.update(kw)
    return Screen(**args)


def rows_of(screen, plate=True, mask=True, obs=True):
    """List of hashable row descriptors, in row order."""
    out = []
    for i in range(screen.size):
        r = [
            str(screen.sample_names[i]),
            tuple(str(x) for x in screen.treatment_names[i]),
            tuple(float(x).hex() for x in screen.treatment_doses[i]),
        ]
        if obs:
            r.append(np.asarray(screen.observations[i], dtype=float).tobytes().hex())
        if plate:
            r.append(str(screen.plate_names[i]))
        if mask:
            r.append(bool(screen.observation_mask[i]))
        out.append(tuple(r))
    return out


def row_multiset(screen, **kw):
    return Counter(rows_of(screen, **kw))


def snapshot(screen):
    """Every observable field of a Screen, as plain python (for equality and hashing)."""
    def arr(a):
        a = np.asarray(a)
        if a.dtype.kind in "US" or a.dtype == object:
            return ("s", a.shape, tuple(str(x) for x in a.ravel().tolist()))
        if a.dtype.kind == "f":
            return ("f", a.shape, np.ascontiguousarray(a, dtype=float).tobytes().hex())
        if a.dtype.kind == "b":
            return ("b", a.shape, tuple(bool(x) for x in a.ravel().tolist()))
        return ("i", a.shape, tuple(int(x) for x in a.ravel().tolist()))

    return {
        "treatment_names": arr(screen.treatment_names),
        "treatment_doses": arr(screen.treatment_doses),
        "sample_names": arr(screen.sample_names),
        "plate_names": arr(screen.plate_names),
        "observations": arr(screen.observations),
        "observation_mask": arr(screen.observation_mask),
        "control": str(screen.control_treatment_name),
        "treatment_ids": arr(screen.treatment_ids),
        "sample_ids": arr(screen.sample_ids),
        "plate_ids": arr(screen.plate_ids),
        "tm_names": arr(screen.treatment_mapping[0]),
        "tm_doses": arr(screen.treatment_mapping[1]),
        "tm_ids": arr(screen.treatment_mapping[2]),
        "sm_names": arr(screen.sample_mapping[0]),
        "sm_ids": arr(screen.sample_mapping[1]),
    }


def describe(screen):
    """Compact JSON-able listing of a screen's rows (for evidence samples / replays)."""
    return [
        [
            str(screen.sample_names[i]),
            str(screen.plate_names[i]),
            [[str(a), float(b)] for a, b in zip(screen.treatment_names[i], screen.treatment_doses[i])],
            float(screen.observations[i]),
            bool(screen.observation_mask[i]),
        ]
        for i in range(screen.size)
    ]


def plate_table(screen):
    """{plate name: (frozenset(samples), size, observed)} ."""
    out = {}
    for name in np.unique(screen.plate_names):
        sel = screen.plate_names == name
        m = screen.observation_mask[sel]
        out[str(name)] = (
            frozenset(str(s) for s in screen.sample_names[sel]),
            int(sel.sum()),
            bool(m.all()),
            bool((~m).all()),
        )
    return out
