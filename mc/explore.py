"""Engine E2: stateless choice-tree exploration and the scripted random source.

Every source of nondeterminism of the code under test is turned into a call of
``Chooser.choose(n)``.  ``explore`` enumerates *all* answer sequences (optionally up to
a deviation bound = number of non-default answers) by depth-first search over
prefixes: run the body with a prefix, record the (choice, arity) trace, and push one
new prefix for every alternative of every choice point after the prefix.  Every leaf
is visited exactly once (a leaf is generated from the prefix ending at its last
non-default choice).
"""
import hashlib
import math

import numpy as np


class NondeterminismError(Exception):
    """Replaying a prefix met a choice point of different arity: the harness does not
    own all nondeterminism.  Always a harness error, never a violation."""


class Chooser:
    def __init__(self, prefix=()):
        # prefix: list of ints or of (choice, arity) pairs
        self.prefix = [p if isinstance(p, (tuple, list)) else (p, None) for p in prefix]
        self.trace = []

    def choose(self, n, label=None):
        n = int(n)
        if n <= 0:
            raise ValueError("choose() needs at least one alternative")
        i = len(self.trace)
        if i < len(self.prefix):
            c, arity = self.prefix[i]
            if (arity is not None and arity != n) or c >= n:
                raise NondeterminismError(
                    f"choice point {i}: recorded arity {arity} choice {c}, now arity {n} ({label})"
                )
        else:
            c = 0
        self.trace.append((int(c), n))
        return int(c)

    @property
    def choices(self):
        return [c for c, _ in self.trace]

    @property
    def deviations(self):
        return sum(1 for c, _ in self.trace if c)

    def digest(self):
        return hashlib.blake2b(repr(self.trace).encode(), digest_size=8).hexdigest()


def explore(body, bound=None, max_leaves=None):
    """Yield (chooser, result) for every leaf of body's choice tree.

    body(chooser) -> result.  ``bound``: maximum number of non-default choices
    (None = full tree).  ``max_leaves``: stop after that many leaves and set
    explore.cap_hit on the generator's ``info`` dict (returned through StopIteration
    is awkward, so callers pass a dict via max_leaves=(n, info))."""
    info = None
    if isinstance(max_leaves, tuple):
        max_leaves, info = max_leaves
    stack = [[]]
    leaves = 0
    while stack:
        prefix = stack.pop()
        ch = Chooser(prefix)
        res = body(ch)
        if len(ch.trace) < len(prefix):
            raise NondeterminismError(
                f"replayed prefix of length {len(prefix)} but run made only {len(ch.trace)} choices"
            )
        leaves += 1
        yield ch, res
        if max_leaves is not None and leaves >= max_leaves:
            if stack or any(n > 1 for _, n in ch.trace[len(prefix):]):
                if info is not None:
                    info["cap_hit"] = True
            return
        used = sum(1 for c, _ in ch.trace[: len(prefix)] if c)
        # push so that the alternatives closest to the root / smallest are popped last:
        # DFS order does not matter for coverage, only for which leaf is reported first.
        new = []
        dev = used
        for i in range(len(prefix), len(ch.trace)):
            c, n = ch.trace[i]
            assert c == 0
            if bound is None or dev + 1 <= bound:
                for alt in range(1, n):
                    new.append(ch.trace[:i] + [(alt, n)])
        stack.extend(reversed(new))


def count_leaves(body, bound=None):
    return sum(1 for _ in explore(body, bound=bound))


# ---------------------------------------------------------------------------------
# Scripted random source
# ---------------------------------------------------------------------------------

_Z_MENU = (0.0, 1.0, -1.0)
_U_MENU = (0.5, 0.0, 0.999)


class ScriptedGenerator:
    """Look-alike of numpy.random.Generator whose every structural answer
    (choice / permutation / integers / random) is decided by a Chooser.

    * choice(a, size, replace=False): ordered sample without replacement ->
      n*(n-1)*...*(n-k+1) leaves;  replace=True -> n**k leaves.
    * permutation(x) -> n! leaves;  random() -> 3-value menu.
    * Continuous draws (normal, gamma, uniform, ...) are *not* choice points here
      (C08 uses its own recording source); they return a deterministic function of
      the draw index so runs are reproducible.
    Anything else falls through to a real Generator seeded from the choice history.
    """

    def __init__(self, chooser, log=None):
        self._ch = chooser
        self._n_cont = 0
        self.calls = [] if log is None else log

    # -- helpers ------------------------------------------------------------
    def _ordered_sample(self, n, k):
        remaining = list(range(n))
        out = []
        for _ in range(k):
            if not remaining:
                raise ValueError("Cannot take a larger sample than population when replace is False")
            j = self._ch.choose(len(remaining), "sample") if len(remaining) > 1 else 0
            out.append(remaining.pop(j))
        return out

    def _shape(self, size):
        if size is None:
            return None
        if isinstance(size, (int, np.integer)):
            return (int(size),)
        return tuple(int(s) for s in size)

    def _cont(self):
        self._n_cont += 1
        # deterministic, low-discrepancy, never exactly 0
        x = (self._n_cont * 0.6180339887498949) % 1.0
        return x

    # -- structural draws ---------------------------------------------------
    def choice(self, a, size=None, replace=True, p=None, axis=0, shuffle=True):
        self.calls.append("choice")
        if isinstance(a, (int, np.integer)):
            pop = np.arange(int(a))
        else:
            pop = np.array(a, copy=False)
            if pop.ndim == 0:
                pop = np.arange(int(pop))
        n = pop.shape[0]
        shape = self._shape(size)
        k = 1 if shape is None else int(np.prod(shape))
        if n == 0 and k > 0:
            raise ValueError("a cannot be empty unless no samples are taken")
        if replace:
            idx = [self._ch.choose(n, "choice") if n > 1 else 0 for _ in range(k)]
        else:
            if k > n:
                raise ValueError(
                    "Cannot take a larger sample than population when replace is False"
                )
            idx = self._ordered_sample(n, k)
        if shape is None:
            return pop[idx[0]]
        return pop[np.array(idx, dtype=np.int64)].reshape(shape + pop.shape[1:])

    def permutation(self, x, axis=0):
        self.calls.append("permutation")
        if isinstance(x, (int, np.integer)):
            arr = np.arange(int(x))
        else:
            arr = np.array(x)
        n = arr.shape[0]
        order = self._ordered_sample(n, n)
        return arr[np.array(order, dtype=np.int64)] if n else arr.copy()

    def permuted(self, x, axis=None, out=None):
        return self.permutation(x)

    def shuffle(self, x, axis=0):
        self.calls.append("shuffle")
        n = len(x)
        order = self._ordered_sample(n, n)
        tmp = [x[i] for i in order]
        for i, v in enumerate(tmp):
            x[i] = v

    def integers(self, low, high=None, size=None, dtype=np.int64, endpoint=False):
        self.calls.append("integers")
        if high is None:
            low, high = 0, low
        low, high = int(low), int(high) + (1 if endpoint else 0)
        n = high - low
        shape = self._shape(size)
        k = 1 if shape is None else int(np.prod(shape))
        vals = [low + (self._ch.choose(n, "integers") if n > 1 else 0) for _ in range(k)]
        if shape is None:
            return dtype(vals[0]) if dtype is not int else vals[0]
        return np.array(vals, dtype=dtype).reshape(shape)

    def random(self, size=None, dtype=np.float64, out=None):
        self.calls.append("random")
        shape = self._shape(size)
        k = 1 if shape is None else int(np.prod(shape))
        vals = [_U_MENU[self._ch.choose(len(_U_MENU), "random")] for _ in range(k)]
        if shape is None:
            return float(vals[0])
        return np.array(vals, dtype=float).reshape(shape)

    # -- continuous draws (deterministic, not explored) ---------------------------
    def _fill(self, size, f, *params):
        if size is None:
            bshape = np.broadcast(*[np.asarray(p) for p in params]).shape if params else ()
        else:
            bshape = self._shape(size)
        n = int(np.prod(bshape)) if bshape else 1
        vals = np.array([f(self._cont()) for _ in range(n)], dtype=float).reshape(bshape)
        return vals

    def standard_normal(self, size=None, dtype=np.float64, out=None):
        self.calls.append("normal")
        v = self._fill(size, lambda u: 2.0 * u - 1.0)
        return float(v) if v.shape == () else v

    def normal(self, loc=0.0, scale=1.0, size=None):
        self.calls.append("normal")
        z = self._fill(size, lambda u: 2.0 * u - 1.0, loc, scale)
        v = np.asarray(loc) + np.asarray(scale) * z
        return float(v) if np.ndim(v) == 0 else v

    def uniform(self, low=0.0, high=1.0, size=None):
        self.calls.append("uniform")
        u = self._fill(size, lambda u: u, low, high)
        v = np.asarray(low) + (np.asarray(high) - np.asarray(low)) * u
        return float(v) if np.ndim(v) == 0 else v

    def gamma(self, shape, scale=1.0, size=None):
        self.calls.append("gamma")
        g = self._fill(size, lambda u: 0.5 + u, shape, scale)
        v = np.asarray(shape) * np.asarray(scale) * g
        return float(v) if np.ndim(v) == 0 else v

    def standard_gamma(self, shape, size=None, dtype=np.float64, out=None):
        return self.gamma(shape, 1.0, size)

    def __getattr__(self, name):
        if name.startswith("_"):
            raise AttributeError(name)
        seed = int.from_bytes(
            hashlib.blake2b(repr(self._ch.trace).encode(), digest_size=8).digest(), "big"
        )
        real = np.random.default_rng(seed)
        self.calls.append(name)
        return getattr(real, name)


def n_ordered_samples(n, k):
    return math.perm(n, k)
