"""Model-checking harness for tansey-lab/batchie (see /verif/DESIGN.md)."""
