"""Task DAG of the Nextflow pipeline, extracted from the .nf sources at check time.

A deliberately small interpreter for the DSL2 subset the repository uses: `include`,
`workflow NAME { [take:/main:/emit:] ... }`, assignments, operator chains ending in
`.tap { v }` / `.set { v }`, process / sub-workflow invocations `NAME( expr )`,
`X.out.name` references and `if (params.<p> [== true]) { } else { }`.  The result, for
given params, is a list of (published file, task, files it must wait for) in
topological order.  If anything cannot be parsed the pinned DAG of the pinned tree is
used instead and the evidence says so; a parse problem is never a violation."""
import fnmatch
import os
import re

from .. import env

ROOT = env.REPO


# ------------------------------------------------------------------ pinned fallback
def pinned(params, C, K):
    mode = params["mode"]
    nodes = []

    def add(f, task, deps):
        nodes.append((f, task, sorted(deps)))

    thetas = [f"thetas_{c}.h5" for c in range(C)]
    dists = [f"distance_matrix_chunk_{k}.h5" for k in range(K)]
    scores = [f"score_chunk_{k}.h5" for k in range(K)]
    if mode in ("retrospective", "prospective"):
        up = []
        if mode == "retrospective" and params.get("initialize"):
            add("training.screen.h5", "PREPARE_RETROSPECTIVE_SIMULATION", [])
            add("test.screen.h5", "PREPARE_RETROSPECTIVE_SIMULATION", [])
            up = ["training.screen.h5", "test.screen.h5"]
        for t in thetas:
            add(t, "TRAIN_MODEL", up)
        add("model_evaluation.h5", "EVALUATE_MODEL", thetas)
        add("model_evaluation_analysis", "ANALYZE_MODEL_EVALUATION", thetas + ["model_evaluation.h5"])
        for d in dists:
            add(d, "CALCULATE_DISTANCE_MATRIX_CHUNK", thetas)
        for s in scores:
            add(s, "CALCULATE_SCORE_CHUNK", thetas + dists)
        add("selected_plate", "SELECT_NEXT_PLATE", scores)
        if mode == "retrospective":
            add("advanced_screen.h5", "REVEAL_PLATE", ["selected_plate"])
            add("screen_metadata.json", "EXTRACT_SCREEN_METADATA", ["advanced_screen.h5"])
        else:
            add("screen_metadata.json", "EXTRACT_SCREEN_METADATA", [])
    elif mode == "next_plate":
        for s in scores:
            add(s, "CALCULATE_SCORE_CHUNK", [])
        add("selected_plate", "SELECT_NEXT_PLATE", scores)
        if params.get("reveal"):
            add("advanced_screen.h5", "REVEAL_PLATE", ["selected_plate"])
            add("screen_metadata.json", "EXTRACT_SCREEN_METADATA", ["advanced_screen.h5"])
        else:
            add("screen_metadata.json", "EXTRACT_SCREEN_METADATA", [])
    else:
        raise ValueError(mode)
    return toposort(nodes)


def toposort(nodes):
    done, out = set(), []
    pending = list(nodes)
    while pending:
        progressed = False
        for n in list(pending):
            if set(n[2]) <= done:
                out.append(n)
                done.add(n[0])
                pending.remove(n)
                progressed = True
        if not progressed:
            raise ValueError("cycle or dangling dependency in the task DAG")
    return out


# ------------------------------------------------------------------ extractor
class ParseError(Exception):
    pass


def strip_comments(src):
    src = re.sub(r"/\*.*?\*/", "", src, flags=re.S)
    return "\n".join(re.sub(r"(?<![:\"'])//.*$", "", line) for line in src.splitlines())


def match_brace(src, i, open_="{", close="}"):
    assert src[i] == open_
    depth = 0
    j = i
    in_str = None
    while j < len(src):
        ch = src[j]
        if in_str:
            if ch == "\\":
                j += 1
            elif ch == in_str:
                in_str = None
        elif ch in "\"'":
            in_str = ch
        elif ch == open_:
            depth += 1
        elif ch == close:
            depth -= 1
            if depth == 0:
                return j
        j += 1
    raise ParseError("unbalanced " + open_)


def read_nf(path):
    with open(path) as f:
        return strip_comments(f.read())


def includes(src, path):
    out = {}
    for m in re.finditer(r"include\s*\{\s*(\w+)\s*\}\s*from\s*['\"]([^'\"]+)['\"]", src):
        p = os.path.normpath(os.path.join(os.path.dirname(path), m.group(2)))
        if not p.endswith(".nf"):
            p += ".nf"
        out[m.group(1)] = p
    return out


def find_block(src, keyword, name=None):
    pat = rf"\b{keyword}\s+{name}\s*\{{" if name else rf"\b{keyword}\s*\{{"
    m = re.search(pat, src)
    if not m:
        return None
    i = m.end() - 1
    j = match_brace(src, i)
    return src[i + 1:j]


def split_statements(body):
    """Top-level statements of a block.  A statement continues over lines while brackets
    are open or the next line starts with '.'; `if (...) {...} [else {...}]` is one."""
    stmts = []
    i, n = 0, len(body)
    while i < n:
        while i < n and body[i] in " \t\r\n;":
            i += 1
        if i >= n:
            break
        if re.match(r"if\s*\(", body[i:]):
            j = body.index("(", i)
            k = match_brace(body, j, "(", ")")
            b1 = body.index("{", k)
            e1 = match_brace(body, b1)
            end = e1 + 1
            m = re.match(r"\s*else\s*\{", body[end:])
            else_body = None
            if m:
                b2 = end + m.end() - 1
                e2 = match_brace(body, b2)
                else_body = body[b2 + 1:e2]
                end = e2 + 1
            stmts.append(("if", body[j + 1:k], body[b1 + 1:e1], else_body))
            i = end
            continue
        # plain statement
        depth = 0
        j = i
        in_str = None
        while j < n:
            ch = body[j]
            if in_str:
                if ch == "\\":
                    j += 1
                elif ch == in_str:
                    in_str = None
            elif ch in "\"'":
                in_str = ch
            elif ch in "({[":
                depth += 1
            elif ch in ")}]":
                depth -= 1
            elif ch == "\n" and depth == 0:
                rest = body[j + 1:]
                m = re.match(r"\s*(\S)", rest)
                if not (m and m.group(1) == "."):
                    break
            j += 1
        stmts.append(("stmt", body[i:j].strip()))
        i = j + 1
    return stmts


def eval_cond(cond, params):
    cond = cond.strip()
    m = re.fullmatch(r"params\.(\w+)\s*==\s*(true|false)", cond)
    if m:
        return bool(params.get(m.group(1))) == (m.group(2) == "true")
    m = re.fullmatch(r"params\.(\w+)", cond)
    if m:
        return bool(params.get(m.group(1)))
    m = re.fullmatch(r"!\s*params\.(\w+)", cond)
    if m:
        return not bool(params.get(m.group(1)))
    raise ParseError(f"cannot evaluate condition {cond!r}")


class Interp:
    def __init__(self, params):
        self.params = params
        self.tasks = []  # (process name, upstream process names)
        self.kinds = {}

    def kind(self, path, name):
        key = (path, name)
        if key not in self.kinds:
            src = read_nf(path)
            if re.search(rf"\bprocess\s+{name}\s*\{{", src):
                self.kinds[key] = "process"
            elif re.search(rf"\bworkflow\s+{name}\s*\{{", src):
                self.kinds[key] = "workflow"
            else:
                raise ParseError(f"{name} not found in {path}")
        return self.kinds[key]

    def deps_of(self, expr, scope):
        deps = set()
        for m in re.finditer(r"\b([A-Za-z_]\w*)(\.out(?:\.([A-Za-z_]\w*))?)?", expr):
            name, out, field = m.group(1), m.group(2), m.group(3)
            if out:
                if name in scope["outs"]:
                    o = scope["outs"][name]
                    if isinstance(o, dict):
                        if field is None or field not in o:
                            raise ParseError(f"unknown emit {name}.out.{field}")
                        deps |= o[field]
                    else:
                        deps |= o
                else:
                    raise ParseError(f"reference to output of {name} before it is invoked")
            elif name in scope["vars"]:
                # not a method call like `.map`
                start = m.start(1)
                if start > 0 and expr[start - 1] == ".":
                    continue
                deps |= scope["vars"][name]
        return deps

    def run_workflow(self, path, name, arg_deps):
        src = read_nf(path)
        inc = includes(src, path)
        body = find_block(src, "workflow", name) if name else find_block(src, "workflow")
        if body is None:
            raise ParseError(f"workflow {name} not found in {path}")
        scope = {"vars": {}, "outs": {}, "inc": inc, "path": path}
        take = None
        sections = re.split(r"^\s*(take|main|emit)\s*:\s*$", body, flags=re.M)
        emits = {}
        if len(sections) > 1:
            parts = {}
            for k in range(1, len(sections), 2):
                parts[sections[k]] = sections[k + 1]
            if "take" in parts:
                names = [x.strip() for x in parts["take"].split("\n") if x.strip()]
                if len(names) != 1:
                    raise ParseError("only single-channel sub-workflows are supported")
                take = names[0]
                scope["vars"][take] = set(arg_deps)
            self.exec_block(parts.get("main", ""), scope)
            for line in parts.get("emit", "").split("\n"):
                line = line.strip()
                if not line:
                    continue
                m = re.fullmatch(r"(\w+)\s*=\s*(.+)", line)
                if not m:
                    raise ParseError(f"cannot parse emit line {line!r}")
                emits[m.group(1)] = self.deps_of(m.group(2), scope)
        else:
            self.exec_block(body, scope)
        return emits

    def exec_block(self, body, scope):
        for st in split_statements(body):
            if st[0] == "if":
                branch = st[2] if eval_cond(st[1], self.params) else st[3]
                if branch is not None:
                    self.exec_block(branch, scope)
                continue
            s = st[1]
            if not s or s.startswith("include") or s.startswith("nextflow."):
                continue
            # invocation  NAME ( expr )
            m = re.match(r"^(\w+)\s*\(", s)
            if m and m.group(1) in scope["inc"]:
                name = m.group(1)
                i = s.index("(")
                j = match_brace(s, i, "(", ")")
                arg = s[i + 1:j]
                deps = self.deps_of(arg, scope)
                path = scope["inc"][name]
                if self.kind(path, name) == "process":
                    self.tasks.append((name, path, frozenset(deps)))
                    scope["outs"][name] = {name}
                else:
                    scope["outs"][name] = self.run_workflow(path, name, deps)
                continue
            # assignment
            m = re.match(r"^(?:def\s+)?(\w+)\s*=(?!=)\s*(.+)$", s, flags=re.S)
            expr = s
            if m and not re.match(r"^\w+\s*\(", s):
                scope["vars"][m.group(1)] = self.deps_of(m.group(2), scope)
                expr = m.group(2)
            for t in re.finditer(r"\.(?:tap|set)\s*\{\s*(\w+)\s*\}", expr):
                scope["vars"][t.group(1)] = self.deps_of(expr[: t.start()], scope)


def module_outputs(path, name):
    """[(template file name, per)]: per in {None, 'chain', 'chunk'}."""
    src = read_nf(path)
    body = find_block(src, "process", name)
    if body is None:
        raise ParseError(f"process {name} not found")
    m = re.search(r"\boutput\s*:(.*?)(?:\n\s*when\s*:|\n\s*script\s*:)", body, flags=re.S)
    if not m:
        raise ParseError(f"no output block in {name}")
    outs = re.findall(r"(?:path|file)\s*\(\s*\"\$\{prefix\}/([^\"]+)\"\s*\)", m.group(1))
    sm = re.search(r"\bscript\s*:(.*)$", body, flags=re.S)
    script_names = re.findall(r"\$\{prefix\}/([\w.\-${}*]+)", sm.group(1) if sm else "")
    inp = re.search(r"\binput\s*:(.*?)\n\s*output\s*:", body, flags=re.S)
    inp = inp.group(1) if inp else ""
    per = "chain" if "chain_index" in inp else ("chunk" if "chunk_index" in inp else None)
    res = []
    for o in outs:
        if "*" in o:
            cand = [s for s in script_names if fnmatch.fnmatch(re.sub(r"\$\{\w+\}", "0", s), o)]
            if not cand:
                raise ParseError(f"cannot resolve output pattern {o} of {name}")
            res.append((cand[0], per))
        else:
            res.append((o, per))
    return res


def extract(params, C, K):
    main = os.path.join(ROOT, "main.nf")
    src = read_nf(main)
    inc = includes(src, main)
    body = find_block(src, "workflow")
    if body is None:
        raise ParseError("no entry workflow in main.nf")
    interp = Interp(params)
    chosen = None
    for st in split_statements(body):
        if st[0] != "if":
            continue
        m = re.fullmatch(r"params\.mode\s*==\s*'(\w+)'", st[1].strip())
        if m and m.group(1) == params["mode"]:
            cm = re.match(r"\s*(\w+)\s*\(", st[2])
            chosen = cm.group(1)
    if chosen is None or chosen not in inc:
        raise ParseError(f"no workflow for mode {params['mode']}")
    interp.run_workflow(inc[chosen], chosen, set())
    # expand tasks to file nodes
    files_of = {}
    nodes = []
    for name, path, deps in interp.tasks:
        outs = module_outputs(path, name)
        mine = []
        for tmpl, per in outs:
            n = C if per == "chain" else (K if per == "chunk" else 1)
            for idx in range(n):
                fname = re.sub(r"\$\{(chain_index|chunk_index)\}", str(idx), tmpl)
                if "${" in fname:
                    raise ParseError(f"unresolved variable in output name {fname}")
                mine.append(fname)
        if name in files_of:
            raise ParseError(f"process {name} invoked twice")
        files_of[name] = mine
    for name, path, deps in interp.tasks:
        up = sorted(f for d in deps for f in files_of[d])
        for f in files_of[name]:
            nodes.append((f, name, up))
    return toposort(nodes)


def closure(nodes):
    """{file: all files it transitively waits for}"""
    deps = {f: set(d) for f, t, d in nodes}
    out = {}
    for f, t, d in nodes:  # topological order
        acc = set(d)
        for x in d:
            acc |= out[x]
        out[f] = acc
    return out


_CACHE = {}


def dag_source(col=None):
    def source(params, C, K):
        key = (params["mode"], bool(params.get("initialize")), bool(params.get("reveal")), C, K)
        if key not in _CACHE:
            try:
                _CACHE[key] = ("extracted", extract(params, C, K))
            except Exception as exc:  # noqa: BLE001
                _CACHE[key] = ("pinned-fallback: " + str(exc)[:120], pinned(params, C, K))
            if col is not None:
                col.count("dag_" + _CACHE[key][0].split(":")[0])
        return _CACHE[key][1]

    return source


def conformance(col):
    """(1) extracted DAG == pinned DAG on the tree as shipped (informational counter);
    (2) the stub's file names per task == what the real CLIs write, and the
    n_unobserved_plates trajectory of one real retrospective step."""
    import json
    import shutil

    import numpy as np

    from ..cli import run_cli

    same = 0
    combos = [({"mode": "retrospective", "initialize": True, "reveal": False}, 2, 2), ({"mode": "retrospective", "initialize": False, "reveal": False}, 1, 1),
              ({"mode": "prospective", "initialize": False, "reveal": False}, 2, 2), ({"mode": "next_plate", "initialize": False, "reveal": True}, 1, 2)]
    for params, C, K in combos:
        try:
            ex = extract(params, C, K)
            col.count("dag_extractions_ok")
            if closure(ex) == closure(pinned(params, C, K)):
                same += 1
            col.outcome("dag", params["mode"], tuple(sorted((f, tuple(d)) for f, t, d in ex)))
        except Exception as exc:  # noqa: BLE001
            col.count("dag_extraction_failed")
            col.outcome("dag-fail", str(exc)[:80])
        col.evaluations += 1
    col.count("dag_equal_to_pinned", same)
    # ---- real CLIs for one retrospective step
    data = os.path.join(ROOT, "nextflow", "tests", "data", "unmasked_screen.h5")
    if not os.path.exists(data):
        col.count("conformance_skipped_no_test_data")
        return
    tmp = env.scratch_dir("c19conf")
    try:
        from batchie.data import Screen

        p = lambda n: os.path.join(tmp, n)  # noqa: E731
        traj = []

        def meta(screen_path, out):
            run_cli("extract_screen_metadata", ["--screen", screen_path, "--output", out])
            return json.load(open(out))["n_unobserved_plates"]

        run_cli("prepare_retrospective_simulation", ["--data", data, "--training-output", p("training.screen.h5"), "--test-output", p("test.screen.h5"),
                                                     "--seed", 0])
        for c in range(2):
            run_cli("train_model", ["--data", p("training.screen.h5"), "--output", p(f"thetas_{c}.h5"), "--model", "SparseDrugCombo",
                                    "--model-param", "n_embedding_dimensions=2", "--n-samples", 2, "--n-burnin", 1, "--thin", 1,
                                    "--n-chains", 2, "--chain-index", c, "--seed", 0])
        run_cli("evaluate_model", ["--screen", p("test.screen.h5"), "--thetas", p("thetas_0.h5"), p("thetas_1.h5"), "--output", p("model_evaluation.h5")])
        for k in range(2):
            run_cli("calculate_distance_matrix", ["--data", p("training.screen.h5"), "--thetas", p("thetas_0.h5"), p("thetas_1.h5"),
                                                  "--distance-metric", "MSEDistance", "--n-chunks", 2, "--chunk-index", k,
                                                  "--output", p(f"distance_matrix_chunk_{k}.h5")])
        for k in range(2):
            run_cli("calculate_scores", ["--data", p("training.screen.h5"), "--thetas", p("thetas_0.h5"), p("thetas_1.h5"),
                                         "--distance-matrix", p("distance_matrix_chunk_0.h5"), p("distance_matrix_chunk_1.h5"),
                                         "--scorer", "GaussianDBALScorer", "--n-chunks", 2, "--chunk-index", k, "--output", p(f"score_chunk_{k}.h5"), "--seed", 0])
        run_cli("select_next_plate", ["--data", p("training.screen.h5"), "--scores", p("score_chunk_0.h5"), p("score_chunk_1.h5"),
                                      "--output", p("selected_plate"), "--seed", 0])
        sel = open(p("selected_plate")).read().strip()
        before = meta(p("training.screen.h5"), p("m0.json"))
        run_cli("reveal_plate", ["--screen", p("training.screen.h5"), "--plate-id", sel, "--output", p("advanced_screen.h5")])
        after = meta(p("advanced_screen.h5"), p("screen_metadata.json"))
        traj = [before, after]
        produced = sorted(f for f in os.listdir(tmp) if f not in ("m0.json",))
        stub = sorted(f for f, t, d in pinned({"mode": "retrospective", "initialize": True, "reveal": False}, 2, 2) if f != "model_evaluation_analysis")
        col.evaluations += 1
        col.traces += 1
        col.outcome("conformance", tuple(produced), tuple(traj))
        if produced != stub:
            col.harness_errors.append(f"stub/real CLI file names disagree: real {produced} stub {stub}")
        if sel == "-1" or after != before - 1:
            col.count("conformance_trajectory_unexpected")
        col.count("conformance_real_cli_runs", 11)
        s = Screen.load_h5(p("advanced_screen.h5"))
        col.count("conformance_plates", int(s.n_plates))
    except BaseException as exc:  # noqa: BLE001
        # the conformance run binds the stub to the real CLIs; its failure is not a C19 verdict
        col.count("conformance_failed")
        col.outcome("conformance-failed", type(exc).__name__)
    finally:
        shutil.rmtree(tmp, ignore_errors=True)
