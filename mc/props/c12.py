"""C12  Plates are observed atomically; revealing is exact, monotone, value-preserving.

Three kinds of work item:

* ``bfs``    - explicit-state BFS to a fixpoint over mask / unmask / reveal(L) / save->load
               (and, for ``cli`` items, the reveal_plate and extract_screen_metadata CLIs run
               in-process) from every plate-uniform initial mask of one plate layout;
* ``ctor``   - the Screen constructor on every mask in {0,1}^N x every plate labelling
               (set partition of the rows), plus "no mask" and "no observations";
* ``setobs`` - Screen.set_observed on every selection of every such screen.

The reference model is plain Python: a plate is the set of rows sharing a plate *name*; the
mask after reveal(L) is  old OR (row's plate id in L)  with the plate ids read off the screen
the operation was applied to.  Treatment / sample ids and mappings are never looked at.
"""
import contextlib
import copy
import io
import itertools
import json
import logging
import math
import os
import shutil
import sys

import numpy as np

from .. import env

env.setup()

from ..bfs import bfs  # noqa: E402
from ..core import exception_origin_in_repo, short_exc  # noqa: E402
from ..screens import snapshot  # noqa: E402

from batchie.data import Screen  # noqa: E402
from batchie import retrospective as R  # noqa: E402

PROP = "C12"
EPILOGUE_ITEMS = 2
LEVEL = "model_checking"
ENGINE = "E3-state-bfs+E1-input-enumeration"
TECHNIQUE = "explicit-state BFS to fixpoint over operation histories on real Screens vs a bitset-per-plate reference"
LEVEL_TEXT = (
    "every history of mask / unmask / reveal(list of plate ids) / save->load (and the reveal_plate CLI) from every "
    "plate-uniform initial mask of every bounded plate layout is explored until no new screen state appears; "
    "every transition is compared with a plain-Python reference; constructor and set_observed are enumerated "
    "exhaustively over masks / selections / plate labellings"
)
RULE = (
    "BFS item = one plate layout (plates of size 1-2; value kinds: normal, all-zero, contains NaN, one zero; "
    "optionally interleaved rows), initial states = all 2^P plate-uniform masks, alphabet = mask, unmask, "
    "save->load, reveal(L) for every list L of length 0..2 (with repetition) over the P plate ids and one unknown "
    "id (+ reveal_plate CLI for every L of length 1..2 in cli items), run to fixpoint. ctor item = every mask in "
    "{0,1}^N x every set partition of the N rows into plates. setobs item = every plate-uniform screen x every "
    "selection in {0,1}^N x 2 value menus. Non-trivial: a transition that changes the mask or is a required "
    "refusal (key: layout, mask before, operation); a constructor call with a non-constant mask; a set_observed "
    "call with a selection that is neither empty nor full."
)
BOUNDS = {
    "quick": {
        "bfs_layouts": "P<=3: all 399 layouts (plate sizes 1-2 x value kinds), one row order each",
        "reveal_list_len": 2, "unknown_ids": ["P", -1], "interleave": "alternating per layout",
        "cli_layouts": "P<=2 with size-1 plates (12) + 6 hand-picked (P=2 with a size-2 plate, P=3)",
        "ctor_rows": 5, "setobs_rows": 4, "max_states_per_layout": "8 * 2^P (never hit)",
    },
    "thorough": {
        "bfs_layouts": "P<=3: all 399 layouts, both row orders where a size-2 plate exists; P=4: all 81 with size-1 "
                       "plates + all 432 with exactly one size-2 plate",
        "reveal_list_len": 2, "unknown_ids": ["P", -1], "interleave": "both",
        "cli_layouts": "all P<=2 layouts (56) + P=3 with three size-1 plates (27)",
        "ctor_rows": 5, "setobs_rows": 5, "max_states_per_layout": "8 * 2^P (never hit)",
    },
}
ASSUMPTIONS = [
    "a plate is the set of rows sharing a plate NAME; reveal(L) is translated to rows through the plate_ids of "
    "the screen it is applied to (id <-> name consistency is property C01)",
    "refusal rule: required when the rows with plate id in L (observed or not) contain NaN or are all zero; "
    "success required when none is NaN and every listed plate has a non-zero value; don't-care when the selection "
    "is empty (unknown ids only / empty list) or when some but not all listed plates are all-zero",
    "any exception counts as a refusal; mask / unmask / save / load have no licence to refuse, so an exception "
    "there is a violation",
    "treatment / sample ids and mappings of the returned screens are not inspected (property C03)",
    "the zero-filled observation array of a screen built without observations is not demanded (statement: 'all unobserved')",
    "set_observed cases start from a deepcopy of a freshly constructed Screen (in-place operation)",
    "states are merged only when every field of the Screen (ids and mappings included) is equal; the oracle reads "
    "names, doses, sample names, plate names, observation bytes and the mask only",
    "each operation receives a deep copy of the state, so a state is never corrupted by an in-place operation; "
    "in-place mutation of the argument is not judged",
    "CLIs run in-process with sys.argv patched; the screen written by reveal_plate is read back with Screen.load_h5",
    "observation values outside the menu (graded non-zero, tiny 1e-300, negative, 0.0, NaN) are not covered",
]

CTL = ""
PLATE_NAMES = ["pc", "pa", "pd", "pb", "pe"]  # appearance order != sorted order
# other plate-name menus for the histories: non-ASCII characters in the LONGEST names (more utf-8 bytes than characters), and
# names that differ only by blanks / case
NAME_MENUS = {"plain": PLATE_NAMES, "unicode": ["Plätte_3", "Plätte_1", "Plätte_2", "P", "Plätte_药"], "lookalike": ["P1", "P1 ", " P1", "p1", "P1\t"]}
KINDS1 = ["N", "Z", "A"]  # size-1 plate: normal / zero / NaN
KINDS2 = ["N", "Z", "A", "H"]  # size-2 plate: + one zero and one non-zero
OBS_FIELDS = ("treatment_names", "treatment_doses", "sample_names", "plate_names", "observations", "observation_mask")
FIELD_SIG = {
    "treatment_names": "conditions", "treatment_doses": "conditions", "sample_names": "conditions",
    "plate_names": "plate-assignment", "observations": "observation-values", "observation_mask": "mask",
}


# ------------------------------------------------------------------ layouts
def _plate_values(kind, size, g):
    base = [(0.11 + 0.1 * (g + r)) * (-1.0 if (g + r) % 4 == 3 else 1.0) for r in range(size)]
    if (g % 5) == 4:
        base[0] = 1e-300  # non-zero, but tiny
    if kind == "N":
        return base
    if kind == "Z":
        return [0.0] * size
    if kind == "A":
        return [float("nan")] if size == 1 else [base[0], float("nan")]
    if kind == "H":
        return [0.0, base[1]]
    raise KeyError(kind)


def build_rows(layout, mask_bits):
    """layout = {"plates": [[size, kind], ...], "interleave": bool}; bit j of mask_bits = plate j observed."""
    per_plate = []
    g = 0
    for j, (size, kind) in enumerate(layout["plates"]):
        vals = _plate_values(kind, size, g)
        rs = []
        for r in range(size):
            second = (CTL, 0.0) if g % 3 == 2 else ("b", 0.5)
            rs.append((f"s{g % 2}", NAME_MENUS[layout.get("names", "plain")][j], (("a", 1.0 + g), second), vals[r], bool(mask_bits >> j & 1)))
            g += 1
        per_plate.append(rs)
    if layout.get("interleave"):
        rows = [rs[0] for rs in per_plate] + [rs[1] for rs in per_plate if len(rs) > 1]
    else:
        rows = [r for rs in per_plate for r in rs]
    return rows


def screen_from_rows(rows):
    n = len(rows)
    return Screen(
        treatment_names=np.array([[t[0] for t in r[2]] for r in rows], dtype=str).reshape(n, 2),
        treatment_doses=np.array([[t[1] for t in r[2]] for r in rows], dtype=float).reshape(n, 2),
        sample_names=np.array([r[0] for r in rows], dtype=str),
        plate_names=np.array([r[1] for r in rows], dtype=str),
        observations=np.array([r[3] for r in rows], dtype=float),
        observation_mask=np.array([r[4] for r in rows], dtype=bool),
        control_treatment_name=CTL,
    )


def _layouts(P, max_two):
    """All layouts with P plates and at most `max_two` plates of size 2 (None: any number)."""
    out = []
    for sizes in itertools.product((1, 2), repeat=P):
        if max_two is not None and sum(1 for s in sizes if s == 2) > max_two:
            continue
        for kinds in itertools.product(*[(KINDS1 if s == 1 else KINDS2) for s in sizes]):
            out.append([[s, k] for s, k in zip(sizes, kinds)])
    return out


def _has_two(plates):
    return any(s == 2 for s, _ in plates)


def plan(tier, seed):
    items = []

    def add(plates, interleave, cli=False):
        items.append({"kind": "bfs", "layout": {"plates": plates, "interleave": bool(interleave)}, "cli": cli})

    if tier == "quick":
        k = 0
        for P, max_two in ((1, None), (2, None), (3, None)):
            for plates in _layouts(P, max_two):
                add(plates, _has_two(plates) and k % 2 == 0)
                k += 1
        for P in (1, 2):
            for plates in _layouts(P, 0):
                add(plates, False, cli=True)
        for plates, il in (
            ([[2, "H"], [1, "N"]], True),
            ([[1, "Z"], [2, "A"]], False),
            ([[2, "N"], [2, "Z"]], True),
            ([[1, "N"], [1, "Z"], [1, "A"]], False),
            ([[1, "Z"], [1, "N"], [1, "N"]], False),
            ([[1, "N"], [2, "H"], [1, "N"]], True),
        ):
            add(plates, il, cli=True)
    else:
        for P, max_two in ((1, None), (2, None), (3, None), (4, 1)):
            for plates in _layouts(P, max_two):
                add(plates, False)
                if _has_two(plates):
                    add(plates, True)
        for P in (1, 2):
            for plates in _layouts(P, None):
                add(plates, _has_two(plates), cli=True)
        for plates in _layouts(3, 0):
            add(plates, False, cli=True)

    # histories on screens whose plate names are non-ASCII / differ only by blanks (save, load and the commands must keep them apart)
    for names in ("unicode", "lookalike"):
        for plates, il, cli in (([[1, "N"], [1, "N"], [1, "N"]], False, True), ([[2, "N"], [1, "N"], [1, "Z"]], True, False),
                                ([[1, "N"], [2, "N"]], False, True), ([[1, "N"], [1, "N"], [1, "N"], [1, "N"]], False, False)):
            items.append({"kind": "bfs", "layout": {"plates": plates, "interleave": il, "names": names}, "cli": cli})
    # constructor / set_observed: every labelling (set partition) of N rows, chunked
    small = [lab for n in range(1, 5) for lab in _partitions(n)]
    five = list(_partitions(5))
    items.append({"kind": "ctor", "labellings": small})
    for i in range(0, len(five), 13):
        items.append({"kind": "ctor", "labellings": five[i:i + 13]})
    items.append({"kind": "setobs", "labellings": small})
    if tier != "quick":
        for i in range(0, len(five), 13):
            items.append({"kind": "setobs", "labellings": five[i:i + 13]})
    return items


def _partitions(n):
    """Restricted growth strings of length n (every set partition of the rows once)."""
    def rec(prefix, mx):
        if len(prefix) == n:
            yield list(prefix)
            return
        for v in range(mx + 2):
            yield from rec(prefix + [v], max(mx, v))
    yield from rec([0], 0)


# ------------------------------------------------------------------ plain operations (shared with replay)
class CliExit(Exception):
    """The CLI called sys.exit (argparse error or explicit exit)."""


def _run_cli(main, argv):
    old = sys.argv
    sys.argv = list(argv)
    try:
        with contextlib.redirect_stderr(io.StringIO()), contextlib.redirect_stdout(io.StringIO()):
            main()
    except SystemExit as exc:
        raise CliExit(f"exit status {exc.code}") from None
    finally:
        sys.argv = old
        lg = logging.getLogger("batchie")
        for h in list(lg.handlers):
            lg.removeHandler(h)


def cli_metadata(h5_path, tmp):
    from batchie.cli import extract_screen_metadata as M

    out = os.path.join(tmp, "meta.json")
    if os.path.exists(out):
        os.unlink(out)
    _run_cli(M.main, ["extract_screen_metadata", "--screen", h5_path, "--output", out])
    with open(out) as f:
        return json.load(f)


def apply_op(op, screen, tmp):
    """Execute one operation as a plain call.  Returns (screen, extra)."""
    kind = op[0]
    if kind == "mask":
        return R.mask_screen(screen), None
    if kind == "unmask":
        return R.unmask_screen(screen), None
    if kind == "reveal":
        return R.reveal_plates(screen, [int(x) for x in op[1]]), None
    if kind == "saveload":
        path = os.path.join(tmp, "rt.h5")
        screen.save_h5(path)
        return Screen.load_h5(path), None
    if kind == "cli_reveal":
        from batchie.cli import reveal_plate as RP

        src = os.path.join(tmp, "in.h5")
        dst = os.path.join(tmp, "out.h5")
        if os.path.exists(dst):
            os.unlink(dst)
        screen.save_h5(src)
        _run_cli(RP.main, ["reveal_plate", "--screen", src, "--output", dst, "--plate-id"] + [str(int(x)) for x in op[1]])
        meta_after = cli_metadata(dst, tmp)
        return Screen.load_h5(dst), {"meta_after": meta_after}
    raise KeyError(kind)


def guarded(op, screen, tmp):
    """(screen, extra, exc).  Exceptions that do not originate in the repository are harness bugs."""
    try:
        out, extra = apply_op(op, screen, tmp)
        return out, extra, None
    except CliExit as exc:
        return None, None, exc
    except Exception as exc:  # noqa: BLE001
        if not exception_origin_in_repo(exc):
            raise
        return None, None, exc


# ------------------------------------------------------------------ reference model
def fields(screen):
    s = snapshot(screen)
    return {k: s[k] for k in OBS_FIELDS}


def canon(screen):
    """State identity = EVERY field of the screen (ids and mappings included), so that two
    screens are merged only if nothing distinguishes them; the oracle looks at OBS_FIELDS only."""
    s = snapshot(screen)
    return tuple((k, s[k]) for k in sorted(s))


def mask_field(bools):
    return ("b", (len(bools),), tuple(bool(b) for b in bools))


def plates_by_name(screen):
    groups = {}
    for i, nm in enumerate(screen.plate_names.tolist()):
        groups.setdefault(str(nm), []).append(i)
    return groups


def non_atomic_plates(screen):
    m = [bool(x) for x in screen.observation_mask]
    return sorted(nm for nm, idx in plates_by_name(screen).items() if len({m[i] for i in idx}) > 1)


def ref_unobserved(screen):
    m = [bool(x) for x in screen.observation_mask]
    return sum(1 for idx in plates_by_name(screen).values() if not any(m[i] for i in idx))


def reported_unobserved(screen):
    return sum(1 for p in screen.plates if not p.is_observed)


def reveal_requirement(screen, ids):
    """'refuse' | 'succeed' | 'dc-empty' | 'dc-mixed', plus the selected rows."""
    want = {int(x) for x in ids}
    pid = [int(x) for x in screen.plate_ids]
    obs = [float(x) for x in screen.observations]
    sel = [i for i in range(len(pid)) if pid[i] in want]
    if not sel:
        return "dc-empty", sel
    if any(math.isnan(obs[i]) for i in sel):
        return "refuse", sel
    if all(obs[i] == 0 for i in sel):
        return "refuse", sel
    per = {}
    for i in sel:
        per.setdefault(pid[i], []).append(obs[i])
    if any(all(v == 0 for v in vs) for vs in per.values()):
        return "dc-mixed", sel
    return "succeed", sel


def judge(op, before, out, extra, exc, meta_before=None):
    """Compare one executed transition with the reference.  Returns (verdicts, info);
    verdicts = [(sig, message)], info = dict(outcome=..., nontrivial=bool, refused=bool)."""
    kind = op[0]
    bad = []
    bf = fields(before)
    old_mask = [bool(x) for x in before.observation_mask]
    n = len(old_mask)
    info = {"refused": False, "nontrivial": False}
    if kind in ("reveal", "cli_reveal"):
        req, sel = reveal_requirement(before, op[1])
        exp_mask = [old_mask[i] or (i in set(sel)) for i in range(n)]
        if exc is not None:
            info["refused"] = True
            info["outcome"] = (kind, req, "refused")
            if req == "succeed":
                bad.append((f"C12|{kind}|refused-valid",
                            f"revealing plate ids {list(op[1])} raised although no selected value is NaN and every "
                            f"listed plate has a non-zero value: {short_exc(exc)}"))
            elif req == "refuse":
                info["nontrivial"] = True
            return bad, info
        if req == "refuse":
            why = "NaN" if any(math.isnan(float(before.observations[i])) for i in sel) else "all-zero"
            bad.append((f"C12|{kind}|accepted-{why}",
                        f"revealing plate ids {list(op[1])} succeeded although the selected stored values are {why}"))
    else:
        if exc is not None:
            info["refused"] = True
            info["outcome"] = (kind, "raised")
            bad.append((f"C12|{kind}|raised", f"{kind} raised: {short_exc(exc)}"))
            return bad, info
        exp_mask = {"mask": [False] * n, "unmask": [True] * n, "saveload": old_mask}[kind]
    exp = dict(bf)
    exp["observation_mask"] = mask_field(exp_mask)
    af = fields(out)
    for k in OBS_FIELDS:
        if af[k] != exp[k]:
            if k == "observation_mask":
                got = [bool(x) for x in out.observation_mask]
                hidden = [i for i in range(min(n, len(got))) if old_mask[i] and not got[i]] if kind != "mask" else []
                what = f"mask after {kind}{list(op[1:])} is {got}, reference {exp_mask}"
                if hidden:
                    bad.append((f"C12|{kind}|hides", what + f" (rows {hidden} were observed before)"))
                else:
                    bad.append((f"C12|{kind}|mask", what))
            else:
                bad.append((f"C12|{kind}|{FIELD_SIG[k]}", f"{k} changed across {kind}{list(op[1:])}: {bf[k]} -> {af[k]}"))
    mixed = non_atomic_plates(out)
    if mixed:
        bad.append((f"C12|{kind}|atomicity", f"plates {mixed} are partly observed after {kind}{list(op[1:])}"))
    # the reported number of unobserved plates
    try:
        rep_b, rep_a = reported_unobserved(before), reported_unobserved(out)
    except Exception as e:  # noqa: BLE001
        if not exception_origin_in_repo(e):
            raise
        bad.append((f"C12|{kind}|count-raised", f"counting unobserved plates raised: {short_exc(e)}"))
        rep_b = rep_a = None
    if kind in ("reveal", "cli_reveal") and rep_b is not None:
        groups = plates_by_name(before)
        newly = sum(1 for idx in groups.values() if any(i in set(sel) for i in idx) and not any(old_mask[i] for i in idx))
        if rep_b - rep_a != newly:
            bad.append((f"C12|{kind}|count", f"unobserved plates reported {rep_b} -> {rep_a} but {newly} plate(s) were newly revealed"))
        if extra and meta_before is not None:
            ma = extra["meta_after"]
            if meta_before["n_unobserved_plates"] - ma["n_unobserved_plates"] != newly:
                bad.append(("C12|metadata|count", f"screen metadata: n_unobserved_plates {meta_before['n_unobserved_plates']} -> "
                            f"{ma['n_unobserved_plates']} but {newly} plate(s) were newly revealed"))
            bad.extend(judge_metadata(ma, exp_mask, before))
    elif rep_a is not None:
        want = sum(1 for idx in plates_by_name(before).values() if not any(exp_mask[i] for i in idx))
        if rep_a != want:
            bad.append((f"C12|{kind}|count", f"{rep_a} unobserved plates reported after {kind}, reference {want}"))
    info["outcome"] = (kind, "ok", tuple(bool(x) for x in out.observation_mask))
    info["nontrivial"] = [bool(x) for x in out.observation_mask] != old_mask
    return bad, info


def judge_metadata(meta, mask, screen):
    """screen_metadata.json against the reference count (mask = reference mask of that screen)."""
    bad = []
    groups = plates_by_name(screen)
    unobs = sum(1 for idx in groups.values() if not any(mask[i] for i in idx))
    if meta["n_observed_plates"] + meta["n_unobserved_plates"] != meta["n_plates"]:
        bad.append(("C12|metadata|sum", f"n_observed_plates + n_unobserved_plates != n_plates in {meta}"))
    if meta["n_plates"] != len(groups):
        bad.append(("C12|metadata|n_plates", f"n_plates={meta['n_plates']} for {len(groups)} plates"))
    if meta["n_unobserved_plates"] != unobs:
        bad.append(("C12|metadata|n_unobserved", f"n_unobserved_plates={meta['n_unobserved_plates']}, reference {unobs}"))
    return bad


# ------------------------------------------------------------------ BFS item
class St:
    __slots__ = ("screen", "init", "hist", "meta")

    def __init__(self, screen, init, hist):
        self.screen = screen
        self.init = init
        self.hist = hist
        self.meta = None


def reveal_lists(P, lo):
    ids = list(range(P + 1)) + [-1]  # ids P and -1 are unknown (-1 must not wrap around to the last plate)
    out = []
    for k in range(lo, 3):
        out.extend([list(t) for t in itertools.product(ids, repeat=k)])
    return out


def run_bfs(item, col):
    layout = item["layout"]
    P = len(layout["plates"])
    cli = bool(item.get("cli"))
    tmp = env.scratch_dir("c12")
    lay_key = json.dumps(layout, sort_keys=True) + ("|cli" if cli else "")
    ops = [["mask"], ["unmask"], ["saveload"]] + [["reveal", L] for L in reveal_lists(P, 0)]
    if cli:
        ops += [["cli_reveal", L] for L in reveal_lists(P, 1)]
    try:
        initials = []
        for m in range(1 << P):
            col.evaluations += 1
            try:
                initials.append(St(screen_from_rows(build_rows(layout, m)), m, []))
            except Exception as exc:  # noqa: BLE001
                if not exception_origin_in_repo(exc):
                    raise
                col.refused += 1
                col.violation("C12|constructor|uniform-rejected",
                              f"layout {layout}: the constructor refused the plate-uniform initial mask bits {m}: {short_exc(exc)}",
                              {"kind": "init", "layout": layout, "init": m})

        def successors(st, depth):
            for op in ops:
                case = {"kind": "bfs", "layout": layout, "init": st.init, "history": st.hist, "op": op}
                meta_before = None
                if op[0] == "cli_reveal":
                    if st.meta is None:
                        p = os.path.join(tmp, "state.h5")
                        copy.deepcopy(st.screen).save_h5(p)
                        st.meta = cli_metadata(p, tmp)
                        col.evaluations += 1
                        col.count("cli:extract_screen_metadata")
                        for sig, msg in judge_metadata(st.meta, [bool(x) for x in st.screen.observation_mask], st.screen):
                            col.violation(sig, f"layout {layout} init mask {st.init} history {st.hist}: {msg}",
                                          {"kind": "bfs", "layout": layout, "init": st.init, "history": st.hist, "op": ["metadata"]})
                    meta_before = st.meta
                arg = copy.deepcopy(st.screen)
                out, extra, exc = guarded(op, arg, tmp)
                col.evaluations += 1
                col.transitions += 1
                col.count("op:" + op[0])
                # Branching histories: the screen the operation was applied to may be used again
                # (s1 = reveal(s0, [1]); s2 = reveal(s0, [2])).  If the operation left its argument
                # untouched the second branch is the transition explored from st anyway; if it changed
                # it, run the second branch on the changed object and judge it against st.
                if op[0] in ("reveal", "mask", "unmask") and canon(arg) != canon(st.screen):
                    col.count("operations that changed their argument")
                    for op2 in ops:
                        if op2[0] != "reveal" or len(op2[1]) != 1:
                            continue
                        out2, extra2, exc2 = guarded(op2, arg, tmp)
                        col.evaluations += 1
                        bad2, _info2 = judge(op2, st.screen, out2, extra2, exc2, None)
                        for sig, msg in bad2:
                            col.violation(sig + "|after-sibling-operation",
                                          f"layout {layout}, initial mask bits {st.init}, history {st.hist}: after {op} was applied to the same screen object, {op2} on that object: {msg}",
                                          dict(case, op=op, then=op2))
                if extra:
                    col.evaluations += 1
                    col.count("cli:extract_screen_metadata")
                bad, info = judge(op, st.screen, out, extra, exc, meta_before)
                col.outcome(*info["outcome"])
                if info["refused"]:
                    col.refused += 1
                if info["nontrivial"]:
                    col.nontriv(lay_key, tuple(bool(x) for x in st.screen.observation_mask), op)
                for sig, msg in bad:
                    col.violation(sig, f"layout {layout}, initial mask bits {st.init}, history {st.hist}: {msg}", case)
                if out is not None:
                    yield op, St(out, st.init, st.hist + [op])

        def check_state(st, hist):
            mixed = non_atomic_plates(st.screen)
            if mixed and not hist:
                raise AssertionError("harness built a non-atomic initial state")

        res = bfs(initials, successors, lambda st: canon(st.screen), max_states=8 * (1 << P), check_state=check_state)
        col.states += res["states"]
        col.count("bfs_layouts")
        col.count("bfs_states", res["states"])
        col.count("bfs_states_beyond_the_initial_masks", res["states"] - len(initials))
        if res["cap_hit"]:
            col.cap(f"state cap {8 * (1 << P)} hit for layout {layout}")
        if res["states"] and len(col.samples) == 0:
            col.sample({"layout": layout, "cli": cli, "states": res["states"], "transitions": res["transitions"],
                        "rows_all_masked": build_rows(layout, 0)})
    finally:
        shutil.rmtree(tmp, ignore_errors=True)


# ------------------------------------------------------------------ constructor / set_observed items
# plate names that are equal up to surrounding whitespace / case: they are DIFFERENT plates (or the constructor refuses)
LOOKALIKE_NAMES = ["P1", "P1 ", " P1", "p1", "P1\t"]


def _ctor_arrays(lab, names=None):
    names = PLATE_NAMES if names is None else names
    n = len(lab)
    return dict(
        treatment_names=np.array([["a", "b"] if i % 3 != 2 else ["a", CTL] for i in range(n)], dtype=str),
        treatment_doses=np.array([[1.0 + i, 0.5] if i % 3 != 2 else [1.0 + i, 0.0] for i in range(n)], dtype=float),
        sample_names=np.array([f"s{i % 2}" for i in range(n)], dtype=str),
        plate_names=np.array([names[v] for v in lab], dtype=str),
        control_treatment_name=CTL,
    )


def _ctor_obs(n):
    return np.array([0.11 + 0.1 * i for i in range(n)], dtype=float)


def ctor_case(lab, mode, mask_bits, lookalike=False):
    """mode: 'mask' (observations + mask), 'nomask' (observations only), 'noobs' (neither).
    Returns list of verdicts and an outcome tuple."""
    n = len(lab)
    kw = _ctor_arrays(lab, LOOKALIKE_NAMES if lookalike else None)
    given = [bool(mask_bits >> i & 1) for i in range(n)]
    if mode != "noobs":
        kw["observations"] = _ctor_obs(n)
    if mode == "nomask-nan":
        # observations given without a mask are all observed - whatever their values (a failed well stored as NaN included)
        mode = "nomask"
        for i in range(n):
            if mask_bits >> i & 1:
                kw["observations"][i] = float("nan")
    if mode == "mask":
        kw["observation_mask"] = np.array(given, dtype=bool)
    groups = {}
    for i, v in enumerate(lab):
        groups.setdefault(v, []).append(i)
    mixed = mode == "mask" and any(len({given[i] for i in idx}) > 1 for idx in groups.values())
    bad = []
    try:
        s = Screen(**kw)
    except Exception as exc:  # noqa: BLE001
        if not exception_origin_in_repo(exc):
            raise
        if not mixed:
            sig = {"mask": "uniform-rejected", "nomask": "no-mask-rejected", "noobs": "no-observations-rejected"}[mode]
            bad.append((f"C12|constructor|{sig}", f"constructor raised for plates {lab} mask {given if mode == 'mask' else mode}: {short_exc(exc)}"))
        return bad, ("ctor", mode, "raised"), True
    got = [bool(x) for x in s.observation_mask]
    if mixed:
        bad.append(("C12|constructor|mixed-accepted", f"constructor accepted plates {lab} with mask {given}: a plate is partly observed"))
    else:
        # the plates as batchie itself sees them (by plate id, through its views) are wholly observed or wholly unobserved
        ids = np.asarray(s.plate_ids)
        for pid in sorted(set(ids.tolist())):
            if len({got[i] for i in np.flatnonzero(ids == pid)}) > 1:
                bad.append(("C12|constructor|plate-id-partly-observed",
                            f"constructor accepted plate names {kw['plate_names'].tolist()} with mask {got}: plate id {pid} covers rows "
                            f"{np.flatnonzero(ids == pid).tolist()} of different observation status"))
                break
    want = {"mask": given, "nomask": [True] * n, "noobs": [False] * n}[mode]
    if got != want and not mixed:
        sig = {"mask": "mask-altered", "nomask": "no-mask-not-all-observed", "noobs": "no-observations-not-all-unobserved"}[mode]
        bad.append((f"C12|constructor|{sig}", f"plates {lab}, {mode}: observation_mask is {got}, expected {want}"))
    return bad, ("ctor", mode, "ok", tuple(got)), False


def run_ctor(item, col):
    for lab in item["labellings"]:
        n = len(lab)
        for mode, masks, look in (("mask", range(1 << n), False), ("nomask", [0], False), ("noobs", [0], False), ("mask", range(1 << n), True),
                                  ("nomask-nan", range(1, 1 << n), False)):
            for m in masks:
                bad, outcome, refused = ctor_case(lab, mode, m, lookalike=look)
                col.evaluations += 1
                col.states += 1
                col.transitions += 1
                col.count("op:constructor")
                col.outcome(*outcome)
                if refused:
                    col.refused += 1
                if mode == "mask" and 0 < m < (1 << n) - 1:
                    col.nontriv("ctor", lab, m)
                for sig, msg in bad:
                    col.violation(sig, msg, {"kind": "ctor", "labelling": lab, "mode": mode, "mask": m, "lookalike": look})
    col.sample({"kind": "ctor", "labellings": item["labellings"][-2:]})


VALUE_MENUS = [
    lambda k: [7.01 + 0.25 * j for j in range(k)],
    lambda k: [float("nan"), 0.0, -1.5, 1e-300, 2.5][:k],
]


def setobs_case(template, sel_bits, menu):
    """template: freshly constructed Screen (not touched).  Returns verdicts, outcome."""
    s = copy.deepcopy(template)
    n = s.observation_mask.shape[0]
    sel = [bool(sel_bits >> i & 1) for i in range(n)]
    vals = VALUE_MENUS[menu](sum(sel))
    before = fields(s)
    old_obs = [float(x) for x in s.observations]
    old_mask = [bool(x) for x in s.observation_mask]
    bad = []
    try:
        s.set_observed(np.array(sel, dtype=bool), np.array(vals, dtype=float))
    except Exception as exc:  # noqa: BLE001
        if not exception_origin_in_repo(exc):
            raise
        bad.append(("C12|set_observed|raised", f"set_observed(selection {sel}, values {vals}) raised: {short_exc(exc)}"))
        return bad, ("setobs", "raised")
    # the caller reuses its buffers afterwards (clears the selection, overwrites the values): the screen keeps what it was given
    sel_buf, val_buf = np.array(sel, dtype=bool), np.array(vals, dtype=float)
    s2 = copy.deepcopy(template)
    try:
        s2.set_observed(sel_buf, val_buf)
        sel_buf[:] = False
        val_buf[:] = -1.0
        if fields(s2) != fields(s):
            bad.append(("C12|set_observed|keeps-callers-buffers",
                        f"set_observed(selection {sel}, values {vals}): after the caller cleared its selection / value arrays the screen changed "
                        f"(mask {[bool(x) for x in s2.observation_mask]}, values {[float(x) for x in s2.observations]})"))
    except Exception as exc:  # noqa: BLE001
        if not exception_origin_in_repo(exc):
            raise
    # a call that is REFUSED (wrong number of values for the selection) stores nothing and marks nothing: the screen is used again
    for wrong in ([0.5] * (sum(sel) + 1), [0.5] * (sum(sel) + 2)) + (([0.5] * (sum(sel) - 1),) if sum(sel) >= 3 else ()):
        s3 = copy.deepcopy(template)
        try:
            s3.set_observed(np.array(sel, dtype=bool), np.array(wrong, dtype=float))
        except Exception:  # noqa: BLE001
            if fields(s3) != before:
                bad.append(("C12|set_observed|refused-call-changed-screen",
                            f"set_observed(selection {sel}, {len(wrong)} values) was refused, yet the screen changed: mask {[bool(x) for x in s3.observation_mask]} "
                            f"(was {old_mask}), values {[float(x) for x in s3.observations]}"))
    exp_obs = list(old_obs)
    it = iter(vals)
    for i in range(n):
        if sel[i]:
            exp_obs[i] = next(it)
    exp = dict(before)
    exp["observation_mask"] = mask_field([old_mask[i] or sel[i] for i in range(n)])
    exp["observations"] = ("f", (n,), np.array(exp_obs, dtype=float).tobytes().hex())
    after = fields(s)
    for k in OBS_FIELDS:
        if after[k] != exp[k]:
            sig = {"observations": "values", "observation_mask": "mask"}.get(k, FIELD_SIG[k])
            bad.append((f"C12|set_observed|{sig}",
                        f"set_observed(selection {sel}, values {vals}) on mask {old_mask}: {k} is {after[k]}, expected {exp[k]}"))
    return bad, ("setobs", "ok", after["observation_mask"][2])


def setobs_template(lab, plate_mask_bits):
    n = len(lab)
    kw = _ctor_arrays(lab)
    kw["observations"] = _ctor_obs(n)
    kw["observation_mask"] = np.array([bool(plate_mask_bits >> v & 1) for v in lab], dtype=bool)
    return Screen(**kw)


def run_setobs(item, col):
    for lab in item["labellings"]:
        n = len(lab)
        P = max(lab) + 1
        for pm in range(1 << P):
            template = setobs_template(lab, pm)
            col.evaluations += 1
            for sel in range(1 << n):
                for menu in range(len(VALUE_MENUS)):
                    if menu == 1 and sel == 0:
                        continue
                    bad, outcome = setobs_case(template, sel, menu)
                    col.evaluations += 1
                    col.states += 1
                    col.transitions += 1
                    col.count("op:set_observed")
                    col.outcome(*outcome)
                    if 0 < sel < (1 << n) - 1:
                        col.nontriv("setobs", lab, pm, sel, menu)
                    for sig, msg in bad:
                        col.violation(sig, f"plates {lab}: {msg}",
                                      {"kind": "setobs", "labelling": lab, "plate_mask": pm, "selection": sel, "menu": menu})
    col.sample({"kind": "setobs", "labellings": item["labellings"][-2:]})


# ------------------------------------------------------------------ contract
def run_item(item, col, tier):
    if item["kind"] == "bfs":
        run_bfs(item, col)
    elif item["kind"] == "ctor":
        run_ctor(item, col)
    elif item["kind"] == "setobs":
        run_setobs(item, col)
    else:
        raise KeyError(item["kind"])


def replay(case, col):
    kind = case["kind"]
    if kind == "ctor":
        bad, outcome, _ = ctor_case(case["labelling"], case["mode"], case["mask"], lookalike=bool(case.get("lookalike")))
        col.evaluations += 1
        print("constructor:", case, "->", outcome)
        for sig, msg in bad:
            col.violation(sig, msg, case)
        return
    if kind == "setobs":
        template = setobs_template(case["labelling"], case["plate_mask"])
        bad, outcome = setobs_case(template, case["selection"], case["menu"])
        col.evaluations += 1
        print("set_observed:", case, "->", outcome)
        for sig, msg in bad:
            col.violation(sig, msg, case)
        return
    layout = case["layout"]
    if kind == "init":
        rows = build_rows(layout, case["init"])
        for r in rows:
            print("   ", r)
        col.evaluations += 1
        try:
            screen_from_rows(rows)
            print("constructor accepted the screen")
        except Exception as exc:  # noqa: BLE001
            if not exception_origin_in_repo(exc):
                raise
            col.violation("C12|constructor|uniform-rejected", f"constructor refused a plate-uniform mask: {short_exc(exc)}", case)
        return
    tmp = env.scratch_dir("c12r")
    try:
        rows = build_rows(layout, case["init"])
        print("initial rows (sample, plate, treatments, observation, observed):")
        for r in rows:
            print("   ", r)
        screen = screen_from_rows(rows)
        for op in case["history"]:
            screen, _ = apply_op(op, screen, tmp)
            print("after", op, "mask =", [bool(x) for x in screen.observation_mask])
        op = case["op"]
        col.evaluations += 1
        if op[0] == "metadata":
            p = os.path.join(tmp, "state.h5")
            screen.save_h5(p)
            meta = cli_metadata(p, tmp)
            print("metadata:", meta)
            for sig, msg in judge_metadata(meta, [bool(x) for x in screen.observation_mask], screen):
                col.violation(sig, msg, case)
            return
        meta_before = None
        if op[0] == "cli_reveal":
            p = os.path.join(tmp, "state.h5")
            copy.deepcopy(screen).save_h5(p)
            meta_before = cli_metadata(p, tmp)
        print("plate ids:", [int(x) for x in screen.plate_ids], "observations:", [float(x) for x in screen.observations])
        if case.get("then") is not None:
            arg = copy.deepcopy(screen)
            guarded(op, arg, tmp)
            op2 = case["then"]
            out2, extra2, exc2 = guarded(op2, arg, tmp)
            print("sibling operation", op, "then", op2, "on the same object ->",
                  "raised " + short_exc(exc2) if exc2 is not None else [bool(x) for x in out2.observation_mask])
            bad2, _ = judge(op2, screen, out2, extra2, exc2, None)
            for sig, msg in bad2:
                col.violation(sig + "|after-sibling-operation", msg, case)
            return
        out, extra, exc = guarded(op, copy.deepcopy(screen), tmp)
        if exc is not None:
            print("operation", op, "raised:", short_exc(exc))
        else:
            print("after", op, "mask =", [bool(x) for x in out.observation_mask],
                  "observations =", [float(x) for x in out.observations], extra or "")
        bad, _ = judge(op, screen, out, extra, exc, meta_before)
        for sig, msg in bad:
            col.violation(sig, msg, case)
    finally:
        shutil.rmtree(tmp, ignore_errors=True)
