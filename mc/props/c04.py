"""C04  Masked observations never influence training, scoring or selection.

Non-interference (a 2-safety property) decided by self-composition over an enumerated
set of pairs: (base screen, same screen with other values behind the mask), through the
real pipeline train -> distance -> score -> select, for both shipped MCMC models."""
import itertools
import math
import os
import shutil

import numpy as np
from scipy.special import logit

from .. import env

env.setup()

from ..cli import run_cli  # noqa: E402
from ..core import digest, short_exc, floats, exception_origin_in_repo  # noqa: E402
from ..screens import make_screen  # noqa: E402

from batchie import sampling  # noqa: E402
from batchie.core import ThetaHolder  # noqa: E402
from batchie.data import ExperimentSpace, Screen  # noqa: E402
from batchie.distance.mse import MSEDistance  # noqa: E402
from batchie.distance_calculation import ChunkedDistanceMatrix, calculate_pairwise_distance_matrix_on_predictions  # noqa: E402
from batchie.models.sparse_combo import SparseDrugCombo  # noqa: E402
from batchie.models.sparse_combo_interaction import SparseDrugComboInteraction  # noqa: E402
from batchie.scoring.gaussian_dbal import GaussianDBALScorer  # noqa: E402
from batchie.scoring.main import ChunkedScoresHolder, score_chunk, select_next_plate  # noqa: E402

PROP = "C04"
LEVEL = "model_checking"
ENGINE = "E1-input-enumeration"
TECHNIQUE = "self-composition: exhaustive enumeration of (screen, masked-value assignment) pairs through the real train/distance/score/select pipeline, plus reference model of the training set"
LEVEL_TEXT = (
    "For every partially observed screen of the family and every assignment of replacement values (0, 1, 0.77, NaN, -1, 1e300; "
    "up to two masked rows changed at once) every artefact of the real pipeline - training arrays, posterior samples, pairwise "
    "distance matrix for 1..3 chunks, plate scores for every batch of <= 2 already selected plates and 1..3 chunks, selected plate, "
    "the train_model CLI output and the whole CLI chain train -> distance -> scores -> select (files on disk) - is compared with the base run; the training multiset is compared with a reference model of "
    "what each shipped model documents using; and add_observations must refuse masked rows, negative and NaN observations at every position."
)
RULE = (
    "base screens (both models) x masked-value variants (every single masked row x 6 values, every pair of masked rows x {nan,-1,1e300}^2) "
    "x n_chunks 1..3 x batches of size <= 2; a pair is non-trivial when the variant differs from the base in >= 1 masked value "
    "(always) - distinct = (screen, model, variant); refusal cases: every observed position x {negative, NaN} and every masked row kept in the view"
)
MENU = [0.0, 1.0, 0.77, float("nan"), -1.0, 1e300]
PAIR_MENU = [float("nan"), -1.0, 1e300]
BOUNDS = {
    "quick": {"screens_per_model": 7, "single_row_values": MENU, "pair_values": PAIR_MENU, "n_chunks": [1, 2, 3], "batch_size": 2,
              "n_thetas": 4, "burnin": 1, "thin": 1,
              "histories": "late results: every view of an unobserved plate taken before set_observed x 7 placeholder values; side operations: "
                           "every concat / combine of the observed view with an unobserved plate (both orders), invert, to_screen, "
                           "single_treatment_effects, ExperimentSpace.from_screen, each followed by training; incremental: the observed rows added in two calls at every split point, training arrays and posterior samples == one-shot model",
              "interaction_model": "training data = combination rows AND the single-agent table (mean of the observed single-agent wells)",
              "refusals": "every view / plate union with a masked row (and afterwards: the same model given the observed rows == a model that never saw the refused call); "
                          "each observed row x {-0.5, NaN, -1e-46, -1e-60, -5e-324, -1e300}; the same (3 values) after save_h5 / load_h5 and through the train_model command"},
    "thorough": {"screens_per_model": 7, "single_row_values": MENU, "pair_values": MENU, "n_chunks": [1, 2, 3, 7], "batch_size": 2,
                 "n_thetas": 5, "burnin": 2, "thin": 2, "histories": "as quick", "interaction_model": "as quick"},
}
ASSUMPTIONS = [
    "several add_observations calls on one model: n_obs, training arrays and posterior samples are compared with the one-shot model; the interaction "
    "model's single-agent table is NOT (the statement quantifies over screens, not over call histories; at the pinned commit a pair measured in "
    "several calls keeps the mean of the last call only - recorded in DESIGN as an observation); the train_model command hands over all observed "
    "rows in one call, and its table is judged against the mean over all observed wells",

    "the interaction model's transform outside [0.01, 0.99] is undocumented: its y is compared with logit(float32(obs)) only for observations inside that range",
    "the global numpy generator is re-seeded identically before each run of a pair so that a difference can only come from the masked values",
    "training arrays are read through wrapped_model.encode_obs() (the observation point named in the property's anchors)",
]
CTL = ""


# ------------------------------------------------------------------ screens
def base_rows(model, idx):
    """rows: (sample, plate, treatments, obs, observed). Masked rows carry 0.5 in the base."""
    if model == "combo":
        fam = [
            [
                ("s0", "o", (("a", 1.0), ("b", 1.0)), 0.30, True),
                ("s0", "o", (("a", 1.0), (CTL, 0.0)), 0.60, True),
                ("s1", "o", (("b", 1.0), ("c", 1.0)), 0.45, True),
                ("s0", "u1", (("a", 1.0), ("c", 1.0)), 0.5, False),
                ("s1", "u1", (("a", 1.0), ("b", 1.0)), 0.5, False),
                ("s1", "u2", (("c", 1.0), (CTL, 0.0)), 0.5, False),
                ("s0", "u2", (("a", 1.0), ("b", 1.0)), 0.5, False),
            ],
            [
                ("s0", "o", (("a", 1.0), ("b", 2.0)), 0.995, True),
                ("s0", "o", (("a", 1.0), ("b", 2.0)), 0.002, True),
                ("s0", "u1", (("b", 2.0), ("a", 1.0)), 0.5, False),
                ("s1", "u2", (("a", 1.0), ("a", 2.0)), 0.5, False),
                ("s1", "u3", ((CTL, 0.0), ("b", 2.0)), 0.5, False),
            ],
            [
                ("s1", "u1", (("a", 1.0), ("c", 1.0)), 0.5, False),
                ("s0", "o1", (("a", 1.0), ("b", 1.0)), 0.25, True),
                ("s0", "u2", (("b", 1.0), ("c", 1.0)), 0.5, False),
                ("s1", "o2", ((CTL, 0.0), ("c", 1.0)), 0.8, True),
                ("s1", "u2", (("b", 1.0), ("a", 1.0)), 0.5, False),
                ("s0", "u3", (("c", 1.0), ("a", 1.0)), 0.5, False),
            ],
            [
                ("s0", "o", (("a", 1.0), ("b", 1.0)), 0.0, True),
                ("s0", "o", (("b", 1.0), ("a", 1.0)), 1.0, True),
                ("s0", "o", ((CTL, 0.0), (CTL, 0.0)), 0.97, True),
                ("s0", "u1", (("a", 1.0), ("b", 1.0)), 0.5, False),
                ("s0", "u2", (("a", 1.0), (CTL, 0.0)), 0.5, False),
            ],
            [
                ("s0", "o", (("a", 1.0), ("b", 1.0)), 0.4, True),
                ("s1", "o", (("a", 1.0), ("b", 1.0)), 0.6, True),
                ("s2", "u1", (("a", 1.0), ("b", 1.0)), 0.5, False),
                ("s2", "u1", (("a", 2.0), ("b", 1.0)), 0.5, False),
                ("s0", "u2", (("a", 2.0), ("b", 1.0)), 0.5, False),
                ("s1", "u3", (("a", 2.0), ("b", 1.0)), 0.5, False),
            ],
            [   # read-outs above 1 (wells that grew better than the control): documented transform = logit of the value clipped to [0.01, 0.99]
                ("s0", "o", (("a", 1.0), ("b", 1.0)), 1.08, True),
                ("s1", "o", (("a", 1.0), (CTL, 0.0)), 1.25, True),
                ("s0", "o2", (("b", 1.0), ("c", 1.0)), 0.999, True),
                ("s1", "o2", (("c", 1.0), ("a", 1.0)), 1.0, True),
                ("s0", "u1", (("a", 1.0), ("c", 1.0)), 0.5, False),
                ("s1", "u2", (("c", 1.0), ("b", 1.0)), 0.5, False),
            ],
            [   # every recorded value is exactly 0.0 (complete kill): "is there anything observed" must come from the mask, not the values
                ("s0", "o", (("a", 1.0), ("b", 1.0)), 0.0, True),
                ("s1", "o", (("a", 1.0), (CTL, 0.0)), 0.0, True),
                ("s0", "o2", (("b", 1.0), ("c", 1.0)), 0.0, True),
                ("s0", "u1", (("a", 1.0), ("c", 1.0)), 0.5, False),
                ("s1", "u2", (("c", 1.0), ("b", 1.0)), 0.5, False),
            ],
        ]
    else:
        fam = [
            [
                ("s0", "o", (("a", 1.0), (CTL, 0.0)), 0.80, True),
                ("s0", "o", (("b", 1.0), (CTL, 0.0)), 0.70, True),
                ("s0", "o", ((CTL, 0.0), ("c", 1.0)), 0.90, True),
                ("s0", "o", (("a", 1.0), ("b", 1.0)), 0.40, True),
                ("s0", "o", (("b", 1.0), ("c", 1.0)), 0.55, True),
                ("s0", "u1", (("a", 1.0), ("c", 1.0)), 0.5, False),
                ("s0", "u2", (("c", 1.0), ("b", 1.0)), 0.5, False),
                ("s0", "u2", (("a", 1.0), ("b", 1.0)), 0.5, False),
            ],
            [
                ("s0", "o", (("a", 1.0), (CTL, 0.0)), 0.80, True),
                ("s0", "o", ((CTL, 0.0), ("b", 1.0)), 0.70, True),
                ("s1", "o", (("a", 1.0), (CTL, 0.0)), 0.60, True),
                ("s1", "o", (("b", 1.0), (CTL, 0.0)), 0.50, True),
                ("s1", "o", (("b", 1.0), (CTL, 0.0)), 0.30, True),
                ("s0", "o", (("a", 1.0), ("b", 1.0)), 0.35, True),
                ("s1", "o", (("b", 1.0), ("a", 1.0)), 0.25, True),
                ("s0", "o", ((CTL, 0.0), (CTL, 0.0)), 0.99, True),
                ("s0", "u1", (("b", 1.0), ("a", 1.0)), 0.5, False),
                ("s1", "u1", (("a", 1.0), ("b", 1.0)), 0.5, False),
                ("s1", "u2", (("a", 1.0), (CTL, 0.0)), 0.5, False),
                ("s0", "u3", (("a", 1.0), ("b", 1.0)), 0.5, False),
            ],
            [
                ("s0", "u1", (("a", 1.0), ("b", 2.0)), 0.5, False),
                ("s0", "o", (("a", 1.0), (CTL, 0.0)), 0.85, True),
                ("s0", "u2", (("b", 2.0), ("a", 1.0)), 0.5, False),
                ("s0", "o", (("b", 2.0), (CTL, 0.0)), 0.65, True),
                ("s0", "o", (("a", 1.0), ("b", 2.0)), 0.45, True),
                ("s0", "o", (("a", 1.0), ("b", 2.0)), 0.35, True),
            ],
            [   # two observed plates that both hold single-agent wells of the same (sample, drug): the table is their common mean
                ("s0", "o1", (("a", 1.0), (CTL, 0.0)), 0.80, True),
                ("s0", "o1", ((CTL, 0.0), ("b", 1.0)), 0.70, True),
                ("s0", "o1", (("a", 1.0), ("b", 1.0)), 0.40, True),
                ("s0", "o2", (("a", 1.0), (CTL, 0.0)), 0.60, True),
                ("s0", "o2", (("b", 1.0), (CTL, 0.0)), 0.50, True),
                ("s0", "o2", (("b", 1.0), ("a", 1.0)), 0.30, True),
                ("s0", "u1", (("a", 1.0), ("b", 1.0)), 0.5, False),
                ("s0", "u1", (("a", 1.0), (CTL, 0.0)), 0.5, False),
            ],
            [   # single-agent wells that exist only behind the mask (drug d; drug a for sample s1)
                ("s0", "o", (("a", 1.0), (CTL, 0.0)), 0.80, True),
                ("s0", "o", ((CTL, 0.0), ("b", 1.0)), 0.70, True),
                ("s1", "o", (("b", 1.0), (CTL, 0.0)), 0.60, True),
                ("s0", "o", (("a", 1.0), ("b", 1.0)), 0.40, True),
                ("s0", "u1", (("d", 1.0), (CTL, 0.0)), 0.5, False),
                ("s0", "u1", (("b", 1.0), ("a", 1.0)), 0.5, False),
                ("s1", "u2", ((CTL, 0.0), ("a", 1.0)), 0.5, False),
                ("s1", "u2", (("b", 1.0), (CTL, 0.0)), 0.5, False),
            ],
        ]
    return fam[idx % len(fam)]


def n_screens(model, tier):
    n = BOUNDS[tier]["screens_per_model"]
    return min(n, 7 if model == "combo" else 5)


def variants(rows, tier):
    masked = [i for i, r in enumerate(rows) if not r[4]]
    out = []
    for i in masked:
        for v in MENU:
            out.append({i: v})
    pm = BOUNDS[tier]["pair_values"]
    for i, j in itertools.combinations(masked, 2):
        for v, w in itertools.product(pm, pm):
            out.append({i: v, j: w})
    return out


def apply_variant(rows, var):
    rows = [list(r) for r in rows]
    for i, v in var.items():
        rows[int(i)][3] = v
    return [tuple(r) for r in rows]


# ------------------------------------------------------------------ pipeline
def make_model(model, screen):
    es = ExperimentSpace.from_screen(screen)
    if model == "combo":
        return SparseDrugCombo(experiment_space=es, n_embedding_dimensions=2)
    return SparseDrugComboInteraction(experiment_space=es, n_embedding_dimensions=2)


def training_arrays(m):
    y, cl, d1, d2 = m.wrapped_model.encode_obs()
    return (np.asarray(y, dtype=np.float64), np.asarray(cl, dtype=np.int64), np.asarray(d1, dtype=np.int64), np.asarray(d2, dtype=np.int64))


def theta_bytes(holder):
    out = []
    for th in holder.thetas:
        d = dict(th.private_parameters_dict())
        out.append(tuple((k, np.asarray(v, dtype=float).tobytes()) for k, v in sorted(d.items())))
    return tuple(out)


def pipeline(model, rows, tier):
    """Runs the real pipeline; returns dict artefact name -> digest-able value."""
    b = BOUNDS[tier]
    art = {}
    np.random.seed(12345)
    screen = make_screen(rows, control=CTL)
    m = make_model(model, screen)
    obs = screen.subset_observed()
    m.add_observations(obs)
    ta = training_arrays(m)
    art["training"] = tuple(a.tobytes() for a in ta)
    art["n_obs"] = int(m.n_obs())
    if model == "interaction":
        # the single-agent table is training data of this model too (it is saved with every posterior sample)
        art["lookup"] = tuple(sorted((int(k[0]), int(k[1]), float(v)) for k, v in m.single_effect_lookup.items()))
    res = sampling.sample(m, ThetaHolder(n_thetas=b["n_thetas"]), seed=3, n_chains=2, chain_index=1, n_burnin=b["burnin"], thin=b["thin"])
    art["thetas"] = theta_bytes(res)
    dense = None
    for sig in (True, False):
        metric = MSEDistance(sigmoid=sig)
        for nc in b["n_chunks"]:
            chunks = [calculate_pairwise_distance_matrix_on_predictions(res, metric, screen, chunk_index=k, n_chunks=nc) for k in range(nc)]
            dm = ChunkedDistanceMatrix.concat(chunks)
            d = dm.to_dense()
            art[f"dist[sigmoid={sig},{nc}]"] = d.tobytes()
            dense = dm
    un = sorted(int(p.plate_id) for p in screen.plates if not p.is_observed)
    batches = [[]] + [list(c) for k in range(1, b["batch_size"] + 1) for c in itertools.combinations(un, k)]
    scorer = GaussianDBALScorer()
    for batch in batches:
        for nc in b["n_chunks"]:
            holders = []
            for k in range(nc):
                h = score_chunk(scorer, res, screen, dense, rng=np.random.default_rng(7), n_chunks=nc, chunk_index=k, batch_plate_ids=list(batch))
                holders.append(h)
            tot = ChunkedScoresHolder.concat(holders)
            order = np.argsort(tot.plate_ids[: tot.current_index], kind="stable")
            art[f"scores[{batch},{nc}]"] = (tot.plate_ids[order].tobytes(), tot.scores[order].tobytes())
            if tot.current_index:
                sel = select_next_plate(tot, screen, None, batch_plate_ids=list(batch), rng=np.random.default_rng(9))
                art[f"selected[{batch},{nc}]"] = None if sel is None else int(sel.plate_id)
    return art, ta, screen


def reference_training(model, rows, screen):
    """What the model documents using: list of (sample id, t1, t2, y)."""
    out = []
    for i, r in enumerate(rows):
        if not r[4]:
            continue
        t1, t2 = int(screen.treatment_ids[i, 0]), int(screen.treatment_ids[i, 1])
        sid = int(screen.sample_ids[i])
        o32 = np.float32(r[3])
        if model == "combo":
            y = float(logit(np.clip(o32, 0.01, 0.99)))
            out.append((sid, t1, t2, y))
        else:
            if t1 != -1 and t2 != -1:
                y = float(logit(o32)) if 0.01 <= r[3] <= 0.99 else None
                out.append((sid, t1, t2, y))
    return sorted(out, key=lambda t: t[:3] + ((t[3] if t[3] is not None else 0.0),))


def reference_lookup(rows, screen):
    """{(sample id, treatment id): mean of the OBSERVED single-agent wells of that pair, each well once}"""
    acc = {}
    for i, r in enumerate(rows):
        if not r[4]:
            continue
        ids = [int(t) for t in screen.treatment_ids[i]]
        non = [t for t in ids if t != -1]
        if len(non) == 1:
            acc.setdefault((int(screen.sample_ids[i]), non[0]), []).append(float(r[3]))
    return {k: math.fsum(v) / len(v) for k, v in acc.items()}


def compare_lookup(want, got_items):
    got = {(s_, t): v for s_, t, v in got_items}
    for k, v in sorted(want.items()):
        if k not in got:
            return f"single-agent table has no entry for (sample {k[0]}, treatment {k[1]}) although it is observed"
        if not abs(got[k] - v) <= 1e-9 * (1 + abs(v)):
            return f"single-agent table holds {got[k]!r} for (sample {k[0]}, treatment {k[1]}), the mean of its observed wells (each once) is {v!r}"
    extra = sorted(k for k in got if k[1] != -1 and k not in want)
    if extra:
        return f"single-agent table has entries {extra} for pairs without an observed single-agent well"
    return None


def compare_training(ref, ta):
    y, cl, d1, d2 = ta
    got = sorted(zip(cl.tolist(), d1.tolist(), d2.tolist(), y.tolist()), key=lambda t: t[:3] + (t[3],))
    if len(got) != len(ref):
        return f"model trained on {len(got)} rows, reference has {len(ref)} ({[g[:3] for g in got]} vs {[r[:3] for r in ref]})"
    # match greedily per key
    from collections import defaultdict

    gk, rk = defaultdict(list), defaultdict(list)
    for g in got:
        gk[g[:3]].append(g[3])
    for r in ref:
        rk[r[:3]].append(r[3])
    if set(gk) != set(rk) or any(len(gk[k]) != len(rk[k]) for k in rk):
        return f"training rows (sample, t1, t2) {sorted(gk)} differ from documented rows {sorted(rk)}"
    for k in rk:
        gy = sorted(gk[k])
        ry = [v for v in rk[k] if v is not None]
        if len(ry) != len(rk[k]):
            continue  # undocumented transform region
        for a, b_ in zip(gy, sorted(ry)):
            if not (abs(a - b_) <= 1e-5 * (1 + abs(b_))):
                return f"transformed observation {a} for row {k}, documented transform gives {b_}"
    return None


# ------------------------------------------------------------------ plan / run
def plan(tier, seed):
    items = []
    for model in ("combo", "interaction"):
        for idx in range(n_screens(model, tier)):
            rows = base_rows(model, idx)
            if model == "interaction" and idx == 4:
                # (the interaction model cannot predict a drug whose single-agent wells are all unobserved, so this screen
                #  has no pipeline; it is used for the refusals only)
                items.append({"kind": "refusal", "model": model, "screen": idx})
                continue
            vs = variants(rows, tier)
            for c in range(0, len(vs), 12):
                items.append({"kind": "pairs", "model": model, "screen": idx, "lo": c, "hi": min(len(vs), c + 12)})
            items.append({"kind": "refusal", "model": model, "screen": idx})
            items.append({"kind": "cli", "model": model, "screen": idx})
            items.append({"kind": "cli-chain", "model": model, "screen": idx})
            items.append({"kind": "late", "model": model, "screen": idx})
            items.append({"kind": "sideops", "model": model, "screen": idx})
            items.append({"kind": "incremental", "model": model, "screen": idx})
            items.append({"kind": "intmask", "model": model, "screen": idx})
            items.append({"kind": "partial", "model": model, "screen": idx})
    return items


def diff_artifacts(a, b):
    keys = sorted(set(a) | set(b))
    return [k for k in keys if digest(a.get(k)) != digest(b.get(k))]


def run_pairs(item, col, tier):
    model, idx = item["model"], item["screen"]
    rows = base_rows(model, idx)
    base_art, ta, screen = pipeline(model, rows, tier)
    col.evaluations += 1
    ref = reference_training(model, rows, screen)
    msg = compare_training(ref, ta)
    if msg:
        col.violation(f"C04|training-set|{model}", f"{model} model, screen {idx}: {msg}", {"kind": "training", "model": model, "screen": idx})
    if model == "interaction":
        msg = compare_lookup(reference_lookup(rows, screen), base_art["lookup"])
        if msg:
            col.violation(f"C04|training-set|single-agent-table|{model}", f"{model} model, screen {idx}: {msg}", {"kind": "training", "model": model, "screen": idx})
    if base_art["n_obs"] != len(ref):
        col.violation(f"C04|n_obs|{model}", f"n_obs()={base_art['n_obs']} but {len(ref)} documented training rows", {"kind": "training", "model": model, "screen": idx})
    col.outcome(model, idx, "base", digest(base_art))
    vs = variants(rows, tier)
    for vi in range(item["lo"], item["hi"]):
        var = vs[vi]
        case = {"kind": "pair", "model": model, "screen": idx, "variant": {str(k): v for k, v in var.items()}}
        col.evaluations += 1
        col.states += 1
        col.transitions += len(base_art)
        try:
            art, _, _ = pipeline(model, apply_variant(rows, var), tier)
        except Exception as exc:  # noqa: BLE001
            from ..core import exception_origin_in_repo
            if not exception_origin_in_repo(exc):
                raise
            col.violation(f"C04|influence|raises|{model}",
                          f"{model} model, screen {idx}: pipeline raises ({short_exc(exc)}) when masked rows hold {var}, but not for the base values", case)
            continue
        changed = diff_artifacts(base_art, art)
        col.nontriv(model, idx, sorted(var.items()).__repr__())
        col.outcome(model, idx, "same" if not changed else tuple(changed))
        if changed:
            first = changed[0].split("[")[0]
            col.violation(f"C04|influence|{first}|{model}",
                          f"{model} model, screen {idx}: artefacts {changed[:6]} change when masked rows hold {var}", case)
    if item["lo"] == 0:
        col.sample({"model": model, "rows": rows, "first_variants": [{str(k): v for k, v in v_.items()} for v_ in vs[:3]],
                    "artefacts_compared": sorted(base_art)[:12], "n_artefacts": len(base_art)})


def run_refusal(item, col, tier):
    model, idx = item["model"], item["screen"]
    rows = base_rows(model, idx)
    observed = [i for i, r in enumerate(rows) if r[4]]
    masked = [i for i, r in enumerate(rows) if not r[4]]
    # (a) a view that still contains a masked row
    screen = make_screen(rows, control=CTL)
    views = [("whole screen", screen)]
    for i in masked:
        sel = screen.observation_mask.copy()
        sel[i] = True
        views.append((f"observed rows + masked row {i}", screen.subset(sel)))
    # unions of plates (Plate objects produced by combine / concat / invert) that contain a masked row; the first row of
    # the union is observed in some of them
    from batchie.data import ScreenSubset
    obs_p = [p for p in screen.plates if p.is_observed]
    un_p = [p for p in screen.plates if not p.is_observed]
    for a in obs_p:
        for b_ in un_p:
            views.append((f"plate {a.plate_name} combined with unobserved plate {b_.plate_name}", a.combine(b_)))
            views.append((f"unobserved plate {b_.plate_name} combined with plate {a.plate_name}", b_.combine(a)))
            views.append((f"concat([plate {a.plate_name}, plate {b_.plate_name}])", ScreenSubset.concat([a, b_])))
    for b_ in un_p:
        views.append((f"unobserved plate {b_.plate_name} alone", b_))
        if len(un_p) > 1:
            views.append((f"everything but unobserved plate {b_.plate_name} (invert)", b_.invert()))
    for label, view in views:
        if bool(np.asarray(view.observation_mask).all()):
            continue  # (a union that happens to hold observed rows only is legitimate input)
        col.evaluations += 1
        m = make_model(model, screen)
        try:
            m.add_observations(view)
        except Exception:  # noqa: BLE001
            col.outcome("refused-masked")
            col.refused += 1
            col.nontriv("masked", model, idx, label)
            # the refused call left nothing behind: the same model object, given the observed rows next, holds exactly what
            # a model that never saw the refused input holds (masked values have no influence on the data handed to the model)
            fresh = make_model(model, screen)
            try:
                fresh.add_observations(screen.subset_observed())
                m.add_observations(screen.subset_observed())
            except Exception:  # noqa: BLE001
                continue
            col.evaluations += 1
            col.transitions += 1
            case_r = {"kind": "refusal", "model": model, "screen": idx, "what": "masked", "label": label}
            if any(a.tobytes() != b_.tobytes() for a, b_ in zip(training_arrays(m), training_arrays(fresh))) or m.n_obs() != fresh.n_obs():
                col.violation(f"C04|refused-call-leaves-data|{model}", f"after {label} of screen {idx} was refused, the model's training data differ from a model that never saw that call", case_r)
            if model == "interaction":
                tab = lambda mm: tuple(sorted((int(k[0]), int(k[1]), float(v)) for k, v in mm.single_effect_lookup.items()))  # noqa: E731
                if tab(m) != tab(fresh):
                    col.violation(f"C04|refused-call-leaves-data|lookup|{model}",
                                  f"after {label} of screen {idx} was refused, the single-agent table is {tab(m)}; a model that never saw that call holds {tab(fresh)}", case_r)
            continue
        col.violation(f"C04|accepts-masked|{model}", f"{model} model accepted {label} of screen {idx} (contains masked rows); n_obs={m.n_obs()}",
                      {"kind": "refusal", "model": model, "screen": idx, "what": "masked", "label": label})
    # (b) negative / NaN among the observed rows, each position
    for i in observed:
        # negative values of every magnitude, down to ones that underflow to -0.0 in float32 / are subnormal
        for bad in (-0.5, float("nan"), -1e-46, -1e-60, -5e-324, -1e300):
            col.evaluations += 1
            r2 = apply_variant(rows, {i: bad})
            s2 = make_screen(r2, control=CTL)
            m = make_model(model, s2)
            try:
                m.add_observations(s2.subset_observed())
            except Exception:  # noqa: BLE001
                col.outcome("refused-bad-value")
                col.refused += 1
                col.nontriv("bad", model, idx, i, str(bad))
                continue
            col.violation(f"C04|accepts-bad-observation|{model}",
                          f"{model} model accepted observation {bad} at observed row {i} of screen {idx}",
                          {"kind": "refusal", "model": model, "screen": idx, "what": "bad", "row": i, "value": bad})
    # (b') the same refusal on observed subsets of other SIZES (once per model): 1, 2 rows and the row counts around 512 and
    # 1024, a bad value in the first, the middle and the LAST row (a validation done block by block must cover every row)
    if idx == 0:
        drugs = ["a", "b", "c"]
        for n in (1, 2, 3, 511, 512, 513, 1023, 1024, 1025):
            big = []
            for i in range(n):
                d1, d2 = drugs[i % 3], drugs[(i + 1) % 3]
                tr = [(d1, 1.0 + (i % 2)), (d2, 1.0)] if i % 4 else [(d1, 1.0 + (i % 2)), (CTL, 0.0)]
                big.append((f"s{i % 2}", f"p{i % 5}", tr, 0.1 + 0.8 * ((i * 7) % 11) / 11.0, True))
            for i in sorted({0, n // 2, n - 1}):
                for bad in (-0.5, float("nan")):
                    col.evaluations += 1
                    s2 = make_screen(apply_variant(big, {i: bad}), control=CTL)
                    m = make_model(model, s2)
                    try:
                        m.add_observations(s2.subset_observed())
                    except Exception:  # noqa: BLE001
                        col.outcome("refused-bad-value-size", n, i == n - 1)
                        col.refused += 1
                        col.nontriv("bad-size", model, n, i, str(bad))
                        continue
                    col.violation(f"C04|accepts-bad-observation|{model}",
                                  f"{model} model accepted observation {bad} at row {i} of a fully observed {n}-row screen",
                                  {"kind": "refusal", "model": model, "screen": idx, "what": "bad-size", "n": n, "row": i, "value": bad})
    # (c) the same through a file: the screen as Screen.load_h5 returns it, and the train_model command on that file
    tmp = env.scratch_dir("c04r")
    try:
        path = os.path.join(tmp, "bad.h5")
        for i in observed:
            for bad in (-0.5, float("nan"), -5e-324):
                col.evaluations += 1
                col.transitions += 1
                s2 = make_screen(apply_variant(rows, {i: bad}), control=CTL)
                s2.save_h5(path)
                s3 = Screen.load_h5(path)
                m = make_model(model, s3)
                case_f = {"kind": "refusal", "model": model, "screen": idx, "what": "bad-file", "row": i, "value": bad}
                try:
                    m.add_observations(s3.subset_observed())
                    col.violation(f"C04|accepts-bad-observation|reloaded|{model}",
                                  f"{model} model accepted the reloaded screen {idx} whose observed row {i} was saved as {bad} (it now reads {float(s3.observations[i])!r})", case_f)
                except Exception:  # noqa: BLE001
                    col.outcome("refused-bad-value-file")
                    col.refused += 1
                if i != observed[0] and tier == "quick":
                    continue
                cls = "SparseDrugCombo" if model == "combo" else "SparseDrugComboInteraction"
                try:
                    run_cli("train_model", ["--data", path, "--output", os.path.join(tmp, "th.h5"), "--model", cls, "--model-param", "n_embedding_dimensions=2",
                                            "--n-samples", 1, "--n-burnin", 0, "--thin", 1, "--seed", 5])
                    col.violation(f"C04|accepts-bad-observation|cli|{model}", f"train_model trained on the file of screen {idx} whose observed row {i} holds {bad}", case_f)
                except BaseException:  # noqa: BLE001  (argparse / refusal)
                    col.outcome("refused-bad-value-cli")
                    col.refused += 1
    finally:
        shutil.rmtree(tmp, ignore_errors=True)
    col.states += len(views) + 6 * len(observed)
    col.transitions += len(views) + 6 * len(observed)


def cli_thetas(model, rows, tmp, tag):
    screen = make_screen(rows, control=CTL)
    a, out = os.path.join(tmp, f"in{tag}.h5"), os.path.join(tmp, f"th{tag}.h5")
    screen.save_h5(a)
    np.random.seed(12345)
    cls = "SparseDrugCombo" if model == "combo" else "SparseDrugComboInteraction"
    run_cli("train_model", ["--data", a, "--output", out, "--model", cls, "--model-param", "n_embedding_dimensions=2",
                            "--n-samples", 2, "--n-burnin", 1, "--thin", 1, "--seed", 5])
    return theta_bytes(ThetaHolder.load_h5(out))


def cli_chain(model, rows, tmp, tag):
    """train_model -> calculate_distance_matrix -> calculate_scores -> select_next_plate, all through the real CLI mains."""
    screen = make_screen(rows, control=CTL)
    f = lambda n: os.path.join(tmp, f"{tag}_{n}")  # noqa: E731
    screen.save_h5(f("in.h5"))
    np.random.seed(12345)
    cls = "SparseDrugCombo" if model == "combo" else "SparseDrugComboInteraction"
    thetas = []
    for c in range(2):
        run_cli("train_model", ["--data", f("in.h5"), "--output", f(f"thetas_{c}.h5"), "--model", cls, "--model-param", "n_embedding_dimensions=2",
                                "--n-samples", 2, "--n-burnin", 1, "--thin", 1, "--n-chains", 2, "--chain-index", c, "--seed", 5])
        thetas.append(f(f"thetas_{c}.h5"))
    dists = []
    for k in range(2):
        run_cli("calculate_distance_matrix", ["--data", f("in.h5"), "--thetas"] + thetas + ["--distance-metric", "MSEDistance", "--n-chunks", 2,
                                              "--chunk-index", k, "--output", f(f"dist_{k}.h5")])
        dists.append(f(f"dist_{k}.h5"))
    out = {"dist": ChunkedDistanceMatrix.concat([ChunkedDistanceMatrix.load(d) for d in dists]).to_dense().tobytes()}
    un = sorted(int(p.plate_id) for p in screen.plates if not p.is_observed)
    for batch in [[]] + [[p] for p in un[:2]]:
        scores = []
        for k in range(2):
            argv = ["--data", f("in.h5"), "--thetas"] + thetas + ["--distance-matrix"] + dists + ["--scorer", "GaussianDBALScorer", "--n-chunks", 2,
                                                                                            "--chunk-index", k, "--output", f(f"scores_{k}.h5"), "--seed", 3]
            if batch:
                argv += ["--batch-plate-ids"] + batch
            run_cli("calculate_scores", argv)
            scores.append(f(f"scores_{k}.h5"))
        hs = ChunkedScoresHolder.concat([ChunkedScoresHolder.load_h5(x) for x in scores])
        order = np.argsort(hs.plate_ids[: hs.current_index], kind="stable")
        out[f"scores{batch}"] = (hs.plate_ids[order].tobytes(), hs.scores[order].tobytes())
        argv = ["--data", f("in.h5"), "--scores"] + scores + ["--output", f("selected"), "--seed", 3]
        if batch:
            argv += ["--batch-plate-id"] + batch
        run_cli("select_next_plate", argv)
        out[f"selected{batch}"] = open(f("selected")).read().strip()
    return out


def run_cli_chain_item(item, col, tier):
    model, idx = item["model"], item["screen"]
    rows = base_rows(model, idx)
    masked = [i for i, r in enumerate(rows) if not r[4]]
    tmp = env.scratch_dir("c04c")
    try:
        base = cli_chain(model, rows, tmp, "b")
        col.evaluations += 1
        col.outcome("cli-chain", model, idx, digest(base))
        for vi, v in enumerate((float("nan"), -1.0, 1e300, 1.0)):
            var = {i: (v if (i + vi) % 2 == 0 or vi < 2 else 0.77) for i in masked}
            case = {"kind": "cli-chain", "model": model, "screen": idx, "variant": {str(k): x for k, x in var.items()}}
            col.evaluations += 1
            col.states += 1
            col.transitions += len(base)
            try:
                got = cli_chain(model, apply_variant(rows, var), tmp, "v")
            except BaseException as exc:  # noqa: BLE001
                col.violation(f"C04|influence|cli-chain-raises|{model}", f"the CLI chain fails ({short_exc(exc)}) when masked rows hold {var} (screen {idx})", case)
                continue
            col.nontriv("cli-chain", model, idx, str(sorted(var.items())))
            changed = diff_artifacts(base, got)
            if changed:
                col.violation(f"C04|influence|cli-chain|{changed[0].split('[')[0]}|{model}",
                              f"CLI chain artefacts {changed[:5]} change when masked rows hold {var} (screen {idx})", case)
    finally:
        shutil.rmtree(tmp, ignore_errors=True)


def run_cli_item(item, col, tier):
    model, idx = item["model"], item["screen"]
    rows = base_rows(model, idx)
    masked = [i for i, r in enumerate(rows) if not r[4]]
    tmp = env.scratch_dir("c04")
    try:
        base = cli_thetas(model, rows, tmp, "b")
        col.evaluations += 1
        col.outcome("cli", model, idx, digest(base))
        # the command trains on exactly what the library trains on (same file, same seed): in particular on the screen's OWN ids,
        # also when a sample or a condition that sorts early occurs only behind the mask
        loaded = Screen.load_h5(os.path.join(tmp, "inb.h5"))
        lib_model = make_model(model, loaded)
        lib_model.add_observations(loaded.subset_observed())
        np.random.seed(12345)
        want = theta_bytes(sampling.sample(lib_model, ThetaHolder(n_thetas=2), seed=5, n_chains=1, chain_index=0, n_burnin=1, thin=1, progress_bar=False))
        col.evaluations += 1
        col.transitions += 1
        if model == "interaction":
            th0 = ThetaHolder.load_h5(os.path.join(tmp, "thb.h5")).get_theta(0)
            msg = compare_lookup(reference_lookup(rows, loaded), [(int(k_[0]), int(k_[1]), float(v_)) for k_, v_ in th0.single_effect_lookup.items()])
            if msg:
                col.violation("C04|cli-trains-on-other-data|lookup|interaction", f"posterior samples written by train_model for screen {idx}: {msg}",
                              {"kind": "cli", "model": model, "screen": idx, "value": 0.5})
        if digest(want) != digest(base):
            col.violation(f"C04|cli-trains-on-other-data|{model}", f"train_model --seed 5 on screen {idx} and the library (same file, same seed, model given the "
                                                                    f"observed rows with the screen's own ids) learn different posterior samples",
                          {"kind": "cli", "model": model, "screen": idx, "value": 0.5})
        for v in (float("nan"), -1.0, 1e300, 0.0):
            var = {i: v for i in masked}
            case = {"kind": "cli", "model": model, "screen": idx, "value": v}
            col.evaluations += 1
            col.states += 1
            col.transitions += 1
            try:
                got = cli_thetas(model, apply_variant(rows, var), tmp, "v")
            except BaseException as exc:  # noqa: BLE001  (argparse raises SystemExit)
                col.violation(f"C04|influence|cli-raises|{model}", f"train_model CLI fails ({short_exc(exc)}) when all masked rows hold {v}", case)
                continue
            col.nontriv("cli", model, idx, str(v))
            if digest(got) != digest(base):
                col.violation(f"C04|influence|cli-thetas|{model}", f"train_model CLI output changes when all masked rows hold {v} (screen {idx})", case)
    finally:
        shutil.rmtree(tmp, ignore_errors=True)


def late_views(screen):
    """plate / subset views obtained WHILE their rows are still unobserved (this is how the next plate is chosen)"""
    out = []
    for pid in sorted(int(p.plate_id) for p in screen.plates if not p.is_observed):
        out.append((f"get_plate({pid})", lambda s, pid=pid: s.get_plate(pid)))
        out.append((f"plates[{pid}]", lambda s, pid=pid: [p for p in s.plates if int(p.plate_id) == pid][0]))
    out.append(("subset_unobserved()", lambda s: s.subset_unobserved()))
    return out


def run_late_item(item, col, tier):
    """The values are recorded AFTER the view was taken: view -> screen.set_observed(view rows, results) -> add_observations(view).
    The model must see the recorded results, whatever sat behind the mask before."""
    model, idx = item["model"], item["screen"]
    rows = base_rows(model, idx)
    masked = [i for i, r in enumerate(rows) if not r[4]]
    probe = make_screen(rows, control=CTL)
    for label, getter in late_views(probe):
        base_digest = None
        for v in [0.5] + MENU:
            var = {i: v for i in masked}
            case = {"kind": "late", "model": model, "screen": idx, "view": label, "value": v}
            col.evaluations += 1
            col.states += 1
            col.transitions += 1
            screen = make_screen(apply_variant(rows, var), control=CTL)
            view = getter(screen)
            sel = np.asarray(view.selection_vector, dtype=bool).copy()
            results = np.array([0.2 + 0.07 * k for k in range(int(sel.sum()))], dtype=float)
            screen.set_observed(sel, results)
            m = make_model(model, screen)
            try:
                m.add_observations(view)
            except Exception as exc:  # noqa: BLE001
                if not exception_origin_in_repo(exc):
                    raise
                got = ("refused", type(exc).__name__)
                col.refused += 1
            else:
                ta = training_arrays(m)
                got = tuple(a.tobytes() for a in ta)
                rows2, k = [], 0
                for i, r in enumerate(rows):
                    if sel[i]:
                        rows2.append((r[0], r[1], r[2], float(results[k]), True))
                        k += 1
                    else:
                        rows2.append((r[0], r[1], r[2], r[3], False))
                msg = compare_training(reference_training(model, rows2, screen), ta)
                if msg:
                    col.violation(f"C04|late-results|training-set|{model}",
                                  f"{model} model, screen {idx}, view {label} taken before set_observed, masked placeholder {v}: {msg}", case)
            col.outcome("late", model, idx, label, digest(got))
            col.nontriv("late", model, idx, label, str(v))
            if base_digest is None:
                base_digest = digest(got)
            elif digest(got) != base_digest:
                col.violation(f"C04|late-results|influence|{model}",
                              f"{model} model, screen {idx}: training data handed over through {label} changes with the placeholder {v} that sat behind the mask", case)


def side_ops(screen):
    """Public operations that READ a partially observed screen (what scoring and the plate bookkeeping do with it); each
    is a closure run before training.  None of them reveals anything."""
    from batchie.data import ScreenSubset

    ops = []
    un = sorted(int(p.plate_id) for p in screen.plates if not p.is_observed)
    for pid in un:
        ops.append((f"concat([observed, plate {pid}])", lambda s, pid=pid: ScreenSubset.concat([s.subset_observed(), s.get_plate(pid)])))
        ops.append((f"concat([plate {pid}, observed])", lambda s, pid=pid: ScreenSubset.concat([s.get_plate(pid), s.subset_observed()])))
        ops.append((f"observed.combine(plate {pid})", lambda s, pid=pid: s.subset_observed().combine(s.get_plate(pid))))
        ops.append((f"plate {pid}.combine(observed)", lambda s, pid=pid: s.get_plate(pid).combine(s.subset_observed())))
    if len(un) >= 2:
        ops.append(("concat([observed] + all unobserved plates)", lambda s: ScreenSubset.concat([s.subset_observed()] + [s.get_plate(p) for p in un])))
        ops.append(("concat(all unobserved plates + [observed])", lambda s: ScreenSubset.concat([s.get_plate(p) for p in un] + [s.subset_observed()])))
    ops.append(("observed.invert()", lambda s: s.subset_observed().invert()))
    ops.append(("unobserved.to_screen()", lambda s: s.subset_unobserved().to_screen()))
    ops.append(("single_treatment_effects", lambda s: s.single_treatment_effects))
    ops.append(("ExperimentSpace.from_screen", lambda s: ExperimentSpace.from_screen(s)))
    return ops


def run_sideops_item(item, col, tier):
    """History: one reading operation on the screen, then training on screen.subset_observed().  The model must still get
    exactly the experiments that were observed when the screen was built (nothing else was ever revealed)."""
    model, idx = item["model"], item["screen"]
    rows = base_rows(model, idx)
    probe = make_screen(rows, control=CTL)
    mask0 = np.asarray(probe.observation_mask, dtype=bool).copy()
    for label, _ in side_ops(probe):
        screen = make_screen(rows, control=CTL)
        op = dict(side_ops(screen))[label]
        case = {"kind": "sideops", "model": model, "screen": idx, "op": label}
        col.evaluations += 1
        col.states += 1
        col.transitions += 2
        try:
            op(screen)
        except Exception as exc:  # noqa: BLE001
            if not exception_origin_in_repo(exc):
                raise
            col.refused += 1
            col.outcome("sideops", label.split("(")[0], "refused")
            continue
        if not np.array_equal(np.asarray(screen.observation_mask, dtype=bool), mask0):
            col.violation(f"C04|side-op|mask-changed|{model}", f"{model} model, screen {idx}: after {label} the screen's observation mask is "
                          f"{np.asarray(screen.observation_mask).tolist()}, it was {mask0.tolist()} (nothing was revealed)", case)
        m = make_model(model, screen)
        try:
            m.add_observations(screen.subset_observed())
        except Exception as exc:  # noqa: BLE001
            if not exception_origin_in_repo(exc):
                raise
            col.violation(f"C04|side-op|training-raises|{model}", f"{model} model, screen {idx}: after {label} training on subset_observed() raises {short_exc(exc)}", case)
            continue
        ta = training_arrays(m)
        msg = compare_training(reference_training(model, rows, screen), ta)
        if msg:
            col.violation(f"C04|side-op|training-set|{model}", f"{model} model, screen {idx}: after {label}: {msg}", case)
        col.outcome("sideops", label.split("(")[0], digest(tuple(a.tobytes() for a in ta)))
        col.nontriv("sideops", model, idx, label)


def run_intmask_item(item, col, tier):
    """A fully observed screen whose observation mask is given as 0/1 integers (int64 from a list / data frame column, uint8
    from an HDF5 dataset): if the model accepts it, it is trained on every experiment exactly once."""
    model, idx = item["model"], item["screen"]
    rows = [(r[0], r[1], r[2], r[3], True) for r in base_rows(model, idx) if r[4]]
    if model == "interaction":
        rows = [r for r in rows]
    for dt in ("int64", "uint8", "int8"):
        case = {"kind": "intmask", "model": model, "screen": idx, "dtype": dt}
        col.evaluations += 1
        col.states += 1
        col.transitions += 1
        try:
            screen = make_screen(rows, control=CTL, observation_mask=np.ones(len(rows), dtype=dt))
            m = make_model(model, screen)
            m.add_observations(screen)
        except Exception as exc:  # noqa: BLE001
            if not exception_origin_in_repo(exc):
                raise
            col.refused += 1
            col.outcome("intmask", model, dt, "refused")
            continue
        ta = training_arrays(m)
        ref_screen = make_screen(rows, control=CTL)
        msg = compare_training(reference_training(model, rows, ref_screen), ta)
        if msg:
            col.violation(f"C04|int-mask|training-set|{model}", f"{model} model, screen {idx}, fully observed with a {dt} 0/1 mask: {msg}", case)
        col.outcome("intmask", model, dt, digest(tuple(a.tobytes() for a in ta)))
        col.nontriv("intmask", model, idx, dt)


def run_incremental_item(item, col, tier):
    """History: the observed experiments are handed to ONE model object in two calls (results arrive plate by plate) instead
    of one.  Same experiments, same order -> same training arrays, same posterior samples as the one-shot model."""
    model, idx = item["model"], item["screen"]
    rows = base_rows(model, idx)
    b = BOUNDS[tier]
    screen = make_screen(rows, control=CTL)
    obs_idx = [i for i, r in enumerate(rows) if r[4]]

    def train(parts):
        np.random.seed(12345)
        m = make_model(model, screen)
        for part in parts:
            sel = np.zeros(len(rows), dtype=bool)
            sel[part] = True
            m.add_observations(screen.subset(sel))
        ta = training_arrays(m)
        res = sampling.sample(m, ThetaHolder(n_thetas=b["n_thetas"]), seed=3, n_chains=2, chain_index=1, n_burnin=b["burnin"], thin=b["thin"])
        return tuple(a.tobytes() for a in ta), theta_bytes(res), int(m.n_obs())

    base = train([obs_idx])
    col.evaluations += 1
    col.outcome("incremental", model, idx, "one-shot", digest(base))
    for k in range(1, len(obs_idx)):
        case = {"kind": "incremental", "model": model, "screen": idx, "split": k}
        col.evaluations += 1
        col.states += 1
        col.transitions += 2
        try:
            got = train([obs_idx[:k], obs_idx[k:]])
        except Exception as exc:  # noqa: BLE001
            if not exception_origin_in_repo(exc):
                raise
            col.violation(f"C04|incremental|raises|{model}", f"{model} model, screen {idx}: adding the observed rows in two calls ({k} + {len(obs_idx) - k}) raises {short_exc(exc)}", case)
            continue
        col.nontriv("incremental", model, idx, k)
        what = None
        if got[2] != base[2]:
            what = f"n_obs() is {got[2]}, the one-shot model has {base[2]}"
        elif got[0] != base[0]:
            what = "the training arrays differ from the one-shot model's"
        elif got[1] != base[1]:
            what = "the training arrays are the same but the posterior samples differ from the one-shot model's (same seed): the sampler does not use each stored experiment exactly once"
        if what:
            col.violation(f"C04|incremental|{'posterior' if 'posterior' in what else 'training-set'}|{model}",
                          f"{model} model, screen {idx}: observed rows added in two calls ({k} + {len(obs_idx) - k}): {what}", case)


def run_partial_item(item, col, tier):
    """Results for PART of a plate are recorded (set_observed on some of its wells): exactly those wells become observed and
    the model is trained on exactly the observed wells - the placeholders of the other wells of the plate stay behind the mask."""
    model, idx = item["model"], item["screen"]
    rows = base_rows(model, idx)
    plates = {}
    for i, r in enumerate(rows):
        if not r[4]:
            plates.setdefault(r[1], []).append(i)
    for pname, members in sorted(plates.items()):
        if len(members) < 2:
            continue
        for k in range(1, len(members)):
            for chosen in itertools.combinations(members, k):
                for v in (0.5, 0.0, float("nan"), 1e300):
                    case = {"kind": "partial", "model": model, "screen": idx, "plate": pname, "wells": list(chosen), "placeholder": v}
                    col.evaluations += 1
                    col.states += 1
                    col.transitions += 2
                    var = {i: v for i in members if i not in chosen}
                    rows_v = apply_variant(rows, var)
                    screen = make_screen(rows_v, control=CTL)
                    sel = np.zeros(len(rows), dtype=bool)
                    sel[list(chosen)] = True
                    results = np.array([0.31 + 0.07 * j for j in range(len(chosen))], dtype=float)
                    screen.set_observed(sel, results)
                    want_mask = [bool(r[4]) or bool(sel[i]) for i, r in enumerate(rows)]
                    got_mask = [bool(x) for x in screen.observation_mask]
                    if got_mask != want_mask:
                        col.violation(f"C04|partial-plate|mask|{model}", f"{model} model, screen {idx}: set_observed on wells {list(chosen)} of plate {pname} gives mask {got_mask}, "
                                                                        f"exactly those wells were recorded ({want_mask})", case)
                        continue
                    m = make_model(model, screen)
                    try:
                        m.add_observations(screen.subset_observed())
                    except Exception as exc:  # noqa: BLE001
                        if not exception_origin_in_repo(exc):
                            raise
                        col.refused += 1
                        col.outcome("partial", model, "refused")
                        continue
                    ta = training_arrays(m)
                    rows2 = []
                    it = iter(results.tolist())
                    for i, r in enumerate(rows):
                        rows2.append((r[0], r[1], r[2], next(it), True) if sel[i] else (r[0], r[1], r[2], r[3], bool(r[4])))
                    msg = compare_training(reference_training(model, rows2, screen), ta)
                    if msg:
                        col.violation(f"C04|partial-plate|training-set|{model}", f"{model} model, screen {idx}: wells {list(chosen)} of plate {pname} recorded, the others hold {v}: {msg}", case)
                    col.outcome("partial", model, idx, digest(tuple(a.tobytes() for a in ta)))
                    col.nontriv("partial", model, idx, pname, chosen, str(v))


def run_item(item, col, tier):
    if item["kind"] == "partial":
        return run_partial_item(item, col, tier)
    if item["kind"] == "incremental":
        return run_incremental_item(item, col, tier)
    if item["kind"] == "intmask":
        return run_intmask_item(item, col, tier)
    if item["kind"] == "sideops":
        return run_sideops_item(item, col, tier)
    if item["kind"] == "late":
        return run_late_item(item, col, tier)
    {"pairs": run_pairs, "refusal": run_refusal, "cli": run_cli_item, "cli-chain": run_cli_chain_item}[item["kind"]](item, col, tier)


def replay(case, col):
    tier = "quick"
    kind = case["kind"]
    model, idx = case["model"], case["screen"]
    rows = base_rows(model, idx)
    if kind == "training":
        art, ta, screen = pipeline(model, rows, tier)
        msg = compare_training(reference_training(model, rows, screen), ta)
        print("training arrays:", [a.tolist() for a in ta])
        if msg:
            col.violation(f"C04|training-set|{model}", msg, case)
        if model == "interaction":
            msg = compare_lookup(reference_lookup(rows, screen), art["lookup"])
            print("single-agent table:", art["lookup"])
            if msg:
                col.violation(f"C04|training-set|single-agent-table|{model}", msg, case)
    elif kind == "pair":
        var = {int(k): floats(v) for k, v in case["variant"].items()}
        base_art, _, _ = pipeline(model, rows, tier)
        try:
            art, _, _ = pipeline(model, apply_variant(rows, var), tier)
        except Exception as exc:  # noqa: BLE001
            col.violation(f"C04|influence|raises|{model}", f"pipeline raises {short_exc(exc)}", case)
            return
        changed = diff_artifacts(base_art, art)
        print("changed artefacts:", changed)
        if changed:
            col.violation(f"C04|influence|{changed[0].split('[')[0]}|{model}", f"artefacts {changed[:6]} change", case)
    elif kind == "refusal":
        run_refusal({"model": model, "screen": idx}, col, tier)
    elif kind == "cli":
        run_cli_item({"model": model, "screen": idx}, col, tier)
    elif kind == "cli-chain":
        run_cli_chain_item({"model": model, "screen": idx}, col, tier)
    elif kind == "late":
        run_late_item({"model": model, "screen": idx}, col, tier)
    elif kind == "sideops":
        run_sideops_item({"model": model, "screen": idx}, col, tier)
    elif kind == "incremental":
        run_incremental_item({"model": model, "screen": idx}, col, tier)
    elif kind == "intmask":
        run_intmask_item({"model": model, "screen": idx}, col, tier)
    elif kind == "partial":
        run_partial_item({"model": model, "screen": idx}, col, tier)
    col.evaluations += 1
