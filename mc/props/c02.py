"""C02  Screen and experiment-space persistence is lossless.

Engine E1 (+ short histories, + the full answer tree of the scripted random source for
the real hold-out split): every screen of an explicitly bounded space is saved with the
real `Screen.save_h5`, loaded with the real `Screen.load_h5`, and every observable the
statement lists is compared with the original; the cycle is repeated (2 or 3 times) to
check the fixed point; the same for `ExperimentSpace.save_h5 / load_h5`.
"""
import itertools
import os
import shutil

import numpy as np

from .. import env

env.setup()

from ..core import digest, floats, short_exc  # noqa: E402
from ..explore import Chooser, ScriptedGenerator, explore  # noqa: E402
from . import c01  # noqa: E402

from batchie import retrospective as R  # noqa: E402
from batchie.data import ExperimentSpace, Screen  # noqa: E402

PROP = "C02"
EPILOGUE_ITEMS = 2
LEVEL = "model_checking"
ENGINE = "E1-input-enumeration+E2-choice-tree"
TECHNIQUE = "bounded-exhaustive enumeration of screens x save/load histories, field-by-field comparison with the original"
LEVEL_TEXT = (
    "every screen inside the stated alphabets and sizes is written and read back with the real h5 code, 2 or 3 times in a "
    "row, and every observable named in the statement is compared with the original object (observations by their bytes); "
    "screens whose mapping is a strict superset of their rows come from explicit mappings and from every outcome of the "
    "real hold-out split; exhaustive inside the bounds, small-scope argument outside them"
)
RULE = (
    "inputs = row-major fillings of an (n rows x arity) table over a named cell alphabet under each control name, with "
    "sample / plate name vectors, observation vectors and plate-uniform masks cycling with the index (family 'screens'); "
    "ALL observation vectors x ALL plate-uniform masks on fixed row sets ('obsmask'); every non-empty sub-list of every source "
    "screen with the source's mappings ('superset'); every leaf of the choice tree of both real hold-out functions at fractions "
    "0, 1/2, 1 ('holdout'); all (treatment, sample, plate) name triples and all ordered name pairs over 6 unicode strings x 3 control "
    "names ('names'); 0-row screens ('empty').  A case is non-trivial when it has a mapping entry absent from its rows, a "
    "non-ASCII / empty / unequal-length name, a NaN / subnormal / huge / negative-zero observation or a masked row; its class "
    "is (family, arity, rows, those flags, id pattern).  Outcome = the observables of the loaded screen."
)

OBS = [0.0, 0.25, float("nan"), 5e-324, 1e300, -0.0]
# incl. a decomposed spelling (e + U+0301, distinct from the precomposed "é") and a compatibility character (ANGSTROM SIGN):
# a loader that normalises unicode would merge / rewrite them
NAMEX = ["", "a", "é", "药物-长名字", "ctl", "a b ", "e\u0301", "\u212b"]
CONTROLX = ["", "ctl", "é"]
# names and doses whose texts coincide when glued together without a separator ("d1"+"10.5" == "d11"+"0.5"): a writer or reader
# that keys rows on a concatenated string merges two different conditions
GLUE_NAMES = ["d", "d1", "d11", "1", ""]
GLUE_DOSES = [0.5, 10.5, 1.0, 11.0, 0.0, 10.0]

BOUNDS = {
    "quick": {
        "screens": ["arity1 rows<=2 over A9", "arity2 1 row over A9", "arity2 2 rows over S4", "arity3 1 row over S4",
                    "arity1 1 row over D12"],
        "obsmask": "2-row screens (one plate / two plates): all 6^2 observation vectors x all plate-uniform masks; "
                   "3-row screen on plates p,q,p: 4^3 vectors x 4 masks; observations=None",
        "observed": "histories on the 3 obsmask row sets: built without observations, every ordered selection of distinct plates observed through Screen.set_observed (2 value patterns), with and without a save/load before the first observation, then 3 save/load cycles",
        "superset": "sources: arity1 rows<=3 over S4, arity2 2 rows over S3; every non-empty sub-list; every other case again with the supplied mappings' ids reversed and with their rows rotated",
        "holdout": "3 parents (3-4 rows), fractions 0, 0.5, 1, both hold-out functions, full choice tree",
        "names": "1-row screens over 8^3 name triples x 3 control names; 2-row screens over all 64 ordered name pairs (names incl. empty, CJK, trailing blank, decomposed and compatibility unicode)",
        "merged": "3-4 plate screens after one in-place Plate.merge (every ordered pair), then 3 save/load cycles",
        "glue": "all ordered pairs of cells over 5 digit-suffixed names x 6 doses (texts that coincide when concatenated), as 2-row arity-1 and as 1-row arity-2 screens; sample / plate names from the same names",
        "many_ids": "sparse probes with exactly 255, 256, 257, 65535, 65536, 65537 distinct conditions and samples",
        "empty": "0 rows, arity 1..3, 2 control names, with and without a supplied mapping",
        "cycles": "screen: 2 everywhere, 3 for obsmask / names / empty; experiment space: 1 resp. 2",
        "observations": OBS,
    },
    "thorough": {
        "screens": ["quick", "arity2 2 rows over S5 and over A9 (81^2 x 2 controls)", "arity3 2 rows over S3", "arity1 3 rows over A9"],
        "obsmask": "quick + 3-row screen with all 6^3 vectors",
        "superset": "quick + sources arity1 rows<=3 over S5, arity2 2 rows over S4",
        "holdout": "quick + 2 more parents (4-5 rows), fraction 0.25",
        "names": "quick",
        "merged": "quick",
        "empty": "quick",
        "cycles": "screen: 3 everywhere; experiment space: 2",
        "observations": OBS,
    },
}
ASSUMPTIONS = [
    "the statement demands success: an exception from save_h5 / load_h5 on a constructible screen is a violation",
    "every failure on a 0-row screen gets the single signature C02|input|empty-screen (one root cause: np.char.encode of an empty array)",
    "doses, names, masks, ids and mappings are compared by value (numeric equality / str equality), observations by dtype and bytes",
    "names do not contain NUL characters (numpy fixed-width strings cannot hold a trailing NUL, so such a screen is not constructible)",
    "DESIGN deviation: equality of the h5 datasets' dtype/shape between first and second save is NOT judged (not an observable of "
    "the statement); the fixed point is judged on the loaded objects",
    "sample / plate names, observation vectors and masks are paired with the cell enumeration in family 'screens'; the full "
    "products are taken on fixed row sets in 'obsmask' and 'names'",
    "only the train and hold-out screens returned by the hold-out functions are used; the split itself is C11's subject",
]

CHUNK = 120


# ------------------------------------------------------------------ observables
def _strs(a):
    a = np.asarray(a)
    return (a.shape, tuple(x if isinstance(x, str) else repr(x) for x in a.ravel().tolist()))


def _ints(a):
    a = np.asarray(a)
    vals = c01._int_list(a)
    return (a.shape, tuple(vals) if vals is not None else ("non-integer", repr(a.tolist())))


def _mappings(x):
    """Both id mappings as RELATIONS (multisets of rows): which (name, dose) carries which id.  The order in which the rows
    are listed is not part of the statement ("loading never renumbers anything")."""
    tn, td, ti = (np.asarray(a) for a in x.treatment_mapping)
    sn, si = (np.asarray(a) for a in x.sample_mapping)
    shapes = (tn.shape, td.shape, ti.shape, sn.shape, si.shape)
    t_rows = sorted(zip((str(v) for v in tn.ravel().tolist()), (float(v) for v in td.ravel().tolist()), (int(v) for v in ti.ravel().tolist()))) \
        if tn.size == td.size == ti.size else ("ragged", _strs(tn), tuple(td.ravel().tolist()), _ints(ti))
    s_rows = sorted(zip((str(v) for v in sn.ravel().tolist()), (int(v) for v in si.ravel().tolist()))) \
        if sn.size == si.size else ("ragged", _strs(sn), _ints(si))
    return {"treatment_mapping": (shapes[:3], tuple(t_rows)), "sample_mapping": (shapes[3:], tuple(s_rows))}


def observe(s):
    obs = np.asarray(s.observations)
    return {
        "treatment_names": _strs(s.treatment_names),
        "treatment_doses": (np.asarray(s.treatment_doses).shape, tuple(float(x) for x in np.asarray(s.treatment_doses).ravel().tolist())),
        "sample_names": _strs(s.sample_names),
        "plate_names": _strs(s.plate_names),
        "observations": (str(obs.dtype), obs.shape, np.ascontiguousarray(obs).tobytes().hex()),
        "observation_mask": (np.asarray(s.observation_mask).shape, tuple(bool(x) for x in np.asarray(s.observation_mask).ravel().tolist())),
        "control_name": s.control_treatment_name if isinstance(s.control_treatment_name, str) else repr(s.control_treatment_name),
        "treatment_ids": _ints(s.treatment_ids),
        "sample_ids": _ints(s.sample_ids),
        "plate_ids": _ints(s.plate_ids),
        **_mappings(s),
    }


def observe_space(e):
    return {
        **_mappings(e),
        "control_name": e.control_treatment_name if isinstance(e.control_treatment_name, str) else repr(e.control_treatment_name),
        "n_unique_treatments": int(e.n_unique_treatments),
        "n_unique_samples": int(e.n_unique_samples),
    }


def _diff(a, b):
    return [k for k in a if a[k] != b[k]]


# ------------------------------------------------------------------ building
def _layout(a, memory):
    """Same values, other memory layout: 'F' = column-major (what np.array([col1, col2]).T gives),
    'strided' = a non-contiguous view of a larger buffer."""
    if memory == "F" and a.ndim == 2:
        return np.asfortranarray(a)
    if memory == "strided":
        big = np.repeat(a, 2, axis=0)
        return big[::2]
    if memory == "readonly":
        a = a.copy()
        a.flags.writeable = False
        return a
    if memory == "bigendian":
        # same values in non-native byte order (what a file written on another platform / an HDF5 '>f8' dataset gives)
        return a.astype(a.dtype.newbyteorder(">")) if a.dtype.kind in "fU" else a
    return a


def build(spec, control, tm=None, sm=None, memory=None):
    n = len(spec["tn"])
    arity = spec.get("arity") or len(spec["tn"][0])
    kw = {}
    if spec.get("obs") is not None:
        kw["observations"] = _layout(np.array(floats(list(spec["obs"])), dtype=float).reshape(n), memory)
        if spec.get("mask") is not None:
            kw["observation_mask"] = _layout(np.array(spec["mask"], dtype=bool).reshape(n), memory)
    return Screen(
        treatment_names=_layout(np.array(spec["tn"], dtype=str).reshape(n, arity), memory),
        treatment_doses=_layout(np.array(spec["td"], dtype=float).reshape(n, arity), memory),
        sample_names=_layout(np.array(spec["sn"], dtype=str).reshape(n), memory),
        plate_names=_layout(np.array(spec["pn"], dtype=str).reshape(n), memory),
        control_treatment_name=control,
        treatment_mapping=tm,
        sample_mapping=sm,
        **kw,
    )


def uniform_masks(plates):
    """All plate-uniform masks for a plate-name vector."""
    names = sorted(set(plates))
    out = []
    for bits in itertools.product((True, False), repeat=len(names)):
        m = dict(zip(names, bits))
        out.append([m[p] for p in plates])
    return out


def with_obs(spec, i):
    """Attach the i-th (observation vector, plate-uniform mask) to a spec (cycling)."""
    n = len(spec["tn"])
    vecs = len(OBS) ** n
    q = i % vecs
    obs = [OBS[d] for d in c01._digits(q, len(OBS), n)]
    masks = uniform_masks(spec["pn"])
    out = dict(spec)
    out["obs"] = obs
    out["mask"] = masks[(i // 5) % len(masks)]
    return out


HOLDOUT_PARENTS = [
    # (spec, control)  rows on an observed plate 'o' and masked plates
    ({"tn": [["a", "b"], ["a", "c"], ["b", ""]], "td": [[1.0, 1.0], [1.0, 2.0], [2.0, 0.0]],
      "sn": ["s", "é2", "s"], "pn": ["o", "m", "m"], "obs": [0.1, 0.2, 0.3], "mask": [True, False, False]}, ""),
    ({"tn": [["a", "ctl"], ["c", "a"], ["b", "a"], ["a", "b"]], "td": [[1.0, 1.0], [1.0, 2.0], [2.0, 1.0], [1.0, 2.0]],
      "sn": ["s", "t", "", "t"], "pn": ["m1", "m1", "m2", "m2"], "obs": [0.1, 0.2, 0.3, 0.4], "mask": [False, False, False, False]}, "ctl"),
    ({"tn": [["a"], [""], ["药"]], "td": [[1.0], [0.0], [5e-324]],
      "sn": ["x", "y", "z"], "pn": ["m", "m", "m"], "obs": [0.5, float("nan"), 1e300], "mask": [False, False, False]}, ""),
]
HOLDOUT_PARENTS_THOROUGH = [
    ({"tn": [["a", "b"], ["a", "c"], ["b", "d"], ["c", "d"], ["", "a"]], "td": [[1.0, 1.0], [1.0, 2.0], [2.0, 1.0], [1.0, 1.0], [0.0, 3.0]],
      "sn": ["s", "t", "s", "u", "t"], "pn": ["o", "m", "m", "m", "o"], "obs": [0.1, 0.2, 0.3, 0.4, 0.5],
      "mask": [True, False, False, False, True]}, ""),
    ({"tn": [["a"], ["b"], ["c"], ["a"]], "td": [[1.0], [1.0], [1.0], [2.0]],
      "sn": ["s", "s", "t", "u"], "pn": ["m1", "m2", "m1", "m2"], "obs": [0.1, 0.2, 0.3, 0.4], "mask": [False, False, False, False]}, "ctl"),
]
HOLDOUT_FNS = {
    "plate": R.create_plate_balanced_holdout_set_among_masked_plates,
    "random": R.create_random_holdout,
}

OBSMASK_BASES = [
    ({"tn": [["a", ""], ["ctl", "a"]], "td": [[1.0, 0.0], [2.0, 1.0]], "sn": ["s", "é2"], "pn": ["p", "p"]}, ""),
    ({"tn": [["a", ""], ["ctl", "a"]], "td": [[1.0, 0.0], [2.0, 1.0]], "sn": ["s", "s"], "pn": ["p", ""]}, "ctl"),
]
OBSMASK_BASE3 = ({"tn": [["a"], ["b"], ["a"]], "td": [[1.0], [1.0], [2.0]], "sn": ["s", "t", "s"], "pn": ["p", "q", "p"]}, "")


# ------------------------------------------------------------------ plan
def plan(tier, seed):
    items = []

    def screens(alpha, arity, n):
        total = len(c01.ALPHA[alpha]) ** (arity * n)
        for c in c01.CONTROLS:
            for lo, hi in c01._chunks(total, CHUNK):
                items.append({"k": "screens", "alpha": alpha, "arity": arity, "rows": n, "control": c, "lo": lo, "hi": hi})

    def superset(alpha, arity, n, chunk):
        total = len(c01.ALPHA[alpha]) ** (arity * n)
        for c in c01.CONTROLS:
            for lo, hi in c01._chunks(total, chunk):
                items.append({"k": "superset", "alpha": alpha, "arity": arity, "rows": n, "control": c, "lo": lo, "hi": hi})

    screens("A9", 1, 1)
    screens("A9", 1, 2)
    screens("A9", 2, 1)
    screens("S4" if tier == "quick" else "S5", 2, 2)
    screens("S4", 3, 1)
    screens("D12", 1, 1)
    for b in range(len(OBSMASK_BASES)):
        items.append({"k": "obsmask", "base": b, "alphabet": len(OBS)})
    items.append({"k": "obsmask", "base": 2, "alphabet": 4 if tier == "quick" else len(OBS)})
    items.append({"k": "observed"})
    for n in (1, 2, 3):
        superset("S4", 1, n, 8)
    superset("S3", 2, 2, 14)
    parents = list(range(len(HOLDOUT_PARENTS)))
    fractions = [0.0, 0.5, 1.0]
    if tier == "thorough":
        parents += [len(HOLDOUT_PARENTS) + j for j in range(len(HOLDOUT_PARENTS_THOROUGH))]
        fractions = [0.0, 0.25, 0.5, 1.0]
    for p in parents:
        for fn in ("plate", "random"):
            for f in fractions:
                items.append({"k": "holdout", "parent": p, "fn": fn, "fraction": f})
    for c in CONTROLX:
        for t in NAMEX:
            items.append({"k": "names1", "control": c, "treatment": t})
        items.append({"k": "names2", "control": c})
    items.append({"k": "empty"})
    for n in (255, 256, 257, 65535, 65536, 65537):
        items.append({"k": "manyids", "n": n})
    items.append({"k": "tinydoses"})
    for g in range(len(GLUE_NAMES) * len(GLUE_DOSES)):
        items.append({"k": "glue", "first": g})
    for c in c01.CONTROLS[:2]:
        for rows_per in ([1, 1, 1], [2, 1, 2], [1, 2, 1, 1]):
            items.append({"k": "merged", "control": c, "rows_per": rows_per})
    if tier == "thorough":
        screens("A9", 2, 2)
        screens("S3", 3, 2)
        screens("A9", 1, 3)
        for n in (1, 2, 3):
            superset("S5", 1, n, 10)
        superset("S4", 2, 2, 16)
    return items


# ------------------------------------------------------------------ the round trip (shared by run_item and replay)
def _flags(s):
    names = [str(x) for arr in (s.treatment_names, s.sample_names, s.plate_names) for x in np.asarray(arr).ravel().tolist()]
    obs = np.asarray(s.observations, dtype=float)
    used = set(np.asarray(s.treatment_ids).ravel().tolist())
    mapping_ids = set(np.asarray(s.treatment_mapping[2]).tolist())
    return (
        bool(mapping_ids - used) or len(s.sample_mapping[0]) > len(set(np.asarray(s.sample_ids).tolist())),
        any(not n.isascii() for n in names),
        any(n == "" for n in names),
        len({len(n) for n in names}) > 1,
        bool(np.isnan(obs).any()),
        bool(((obs != 0) & (np.abs(obs) < 1e-300)).any() or (np.abs(obs) > 1e200).any() or np.signbit(obs[obs == 0]).any()),
        bool((~np.asarray(s.observation_mask, dtype=bool)).any()),
    )


def small_family(family):
    return family.split("|")[0] in ("obsmask", "empty", "merged", "tinydoses", "manyids")


def round_trip(screen, cycles, col, case, family, tmp, verbose=False):
    """Save/load `screen` `cycles` times, then the same for its experiment space."""
    empty = screen.size == 0

    def bad(sig, msg):
        if empty:
            sig = "C02|input|empty-screen"
            msg = f"0-row screen (arity {np.asarray(screen.treatment_names).shape[1]}): {msg}"
        col.violation(sig, f"[{family}] {msg}", case)

    col.states += 1
    want = observe(screen)
    fl = _flags(screen)
    if any(fl):
        col.nontriv(family, want["treatment_ids"][0], fl, want["treatment_ids"][1], want["sample_ids"][1])
    path = os.path.join(tmp, "s.h5")
    cur, first = screen, None
    for k in range(1, cycles + 1):
        col.evaluations += 1
        col.transitions += 1
        try:
            cur.save_h5(path)
        except Exception as exc:  # noqa: BLE001
            bad("C02|save|raised", f"Screen.save_h5 raised in cycle {k}: {short_exc(exc)}")
            break
        try:
            cur = Screen.load_h5(path)
        except Exception as exc:  # noqa: BLE001
            bad("C02|load|raised", f"Screen.load_h5 raised in cycle {k} on a file written by save_h5: {short_exc(exc)}")
            break
        got = observe(cur)
        if k == 1:
            first = got
            col.outcome("screen", tuple(sorted((a, repr(b)) for a, b in got.items())))
            for field in _diff(want, got):
                bad(f"C02|screen|{field}", f"after save/load {field} is {got[field]!r}, the saved screen had {want[field]!r}")
            if verbose:
                print("loaded:", got)
            # history: the loaded object is worked on in place (plates merged, a mapping name edited) and the SAME archive is
            # loaded once more: the second load is judged like the first
            if small_family(family):
                scratch_obj = cur
                try:
                    for arr in (scratch_obj.plate_names, scratch_obj.sample_names, scratch_obj.sample_mapping[0], scratch_obj.treatment_mapping[0]):
                        a_ = np.asarray(arr)
                        if a_.size and a_.flags.writeable:
                            a_[...] = "ed"
                except Exception:  # noqa: BLE001
                    pass
                col.evaluations += 1
                try:
                    again = observe(Screen.load_h5(path))
                    for field in _diff(got, again):
                        bad(f"C02|second-load|{field}", f"the archive loaded a second time (after the first loaded object was edited in place) gives {field}={again[field]!r}, the first load gave {got[field]!r}")
                except Exception as exc:  # noqa: BLE001
                    bad("C02|load|raised", f"Screen.load_h5 raised on the second load of one archive: {short_exc(exc)}")
                cur = Screen.load_h5(path)
        else:
            for field in _diff(first, got):
                bad(f"C02|fixedpoint|{field}", f"cycle {k} changed {field}: {first[field]!r} -> {got[field]!r}")
    # experiment space
    try:
        es = ExperimentSpace.from_screen(screen)
        want_e = observe_space(es)
    except Exception as exc:  # noqa: BLE001
        col.refused += 1
        return
    pe = os.path.join(tmp, "e.h5")
    cur_e = es
    for k in range(1, (2 if cycles >= 3 else 1) + 1):
        col.evaluations += 1
        col.transitions += 1
        try:
            cur_e.save_h5(pe)
        except Exception as exc:  # noqa: BLE001
            bad("C02|space-save|raised", f"ExperimentSpace.save_h5 raised in cycle {k}: {short_exc(exc)}")
            break
        try:
            cur_e = ExperimentSpace.load_h5(pe)
            got_e = observe_space(cur_e)
        except Exception as exc:  # noqa: BLE001
            bad("C02|space-load|raised", f"ExperimentSpace.load_h5 raised in cycle {k}: {short_exc(exc)}")
            break
        if k == 1:
            col.outcome("space", tuple(sorted((a, repr(b)) for a, b in got_e.items())))
        for field in _diff(want_e, got_e):
            bad(f"C02|space|{field}", f"experiment space after {k} save/load cycle(s): {field} is {got_e[field]!r}, was {want_e[field]!r}")
        if verbose:
            print("loaded space:", got_e)


def run_case(case, col, tmp, verbose=False):
    kind = case["kind"]
    control = case["control"]
    cycles = case["cycles"]
    if kind == "screen":
        tm = sm = None
        if case.get("source") is not None:
            src = build(case["source"], control)
            tm, sm = src.treatment_mapping, src.sample_mapping
            if case.get("perm") == "reverse-ids":
                # the same conditions, ids handed out in the opposite order (a mapping need not be sorted by name)
                rev = lambda ids: np.where(np.asarray(ids) >= 0, np.asarray(ids).max(initial=0) - np.asarray(ids), np.asarray(ids))  # noqa: E731  (the control sentinel stays)
                tm = (tm[0], tm[1], rev(tm[2]))
                sm = (sm[0], rev(sm[1]))
            elif case.get("perm") == "rotate-rows":
                # the same assignment, listed in another order
                tm = tuple(np.roll(np.asarray(a), 1) for a in tm)
                sm = tuple(np.roll(np.asarray(a), 1) for a in sm)
        s = build(case["spec"], control, tm, sm, memory=case.get("memory"))
        round_trip(s, cycles, col, case, case["family"], tmp, verbose)
        # the same screen handed over in other memory layouts (column-major name / dose matrices, strided views)
        if case.get("memory") is None:
            mems = ("F", "strided") if len(case["spec"]["tn"]) >= 2 and len(case["spec"]["tn"][0]) >= 2 else ()
            # read-only arrays / non-native byte order: quick tier on the deterministic third of the cases whose digest
            # is divisible by 3 (and on every case of the small name / mask / empty / merged families), thorough on all
            small = case["family"] in ("names", "obsmask", "empty", "merged")
            extra = ("readonly", "bigendian") if cycles >= 3 or small or int(digest(case["spec"], control)[:6], 16) % 3 == 0 else ()
            for mem in mems + extra:
                c2 = dict(case, memory=mem)
                round_trip(build(case["spec"], control, tm, sm, memory=mem), cycles, col, c2, case["family"] + "|layout-" + mem, tmp, verbose)
        return
    if kind == "observed":
        s = build(case["spec"], control)
        if case["reload_first"]:
            path = os.path.join(tmp, "pre.h5")
            s.save_h5(path)
            s = Screen.load_h5(path)
            os.remove(path)
        pn = np.array(case["spec"]["pn"], dtype=str)
        special = [float("nan"), 5e-324, 1e300, -0.0, 0.25]
        j = 0
        for plate in case["order"]:
            sel = pn == plate
            k_ = int(sel.sum())
            vals = [0.25 * (j + i + 1) for i in range(k_)] if case["pattern"] == "graded" else [special[(j + i) % len(special)] for i in range(k_)]
            j += k_
            s.set_observed(sel, np.array(vals, dtype=float))
            col.transitions += 1
        round_trip(s, cycles, col, case, "observed", tmp, verbose)
        return
    if kind == "tinydoses":
        # doses in mol/L: several dose levels of one drug that differ only beyond the 6th decimal
        doses = case["doses"]
        n = len(doses)
        s = Screen(
            treatment_names=np.array([["a", "b"] if i % 2 else ["a", ""] for i in range(n)], dtype=str),
            treatment_doses=np.array([[d, 1e-9 * (i + 1)] if i % 2 else [d, 0.0] for i, d in enumerate(doses)]),
            sample_names=np.array([f"s{i % 2}" for i in range(n)], dtype=str), plate_names=np.array([f"p{i % 3}" for i in range(n)], dtype=str),
            observations=np.array([0.1 * (i + 1) for i in range(n)]), control_treatment_name=control,
        )
        round_trip(s, cycles, col, case, "tinydoses", tmp, verbose)
        return
    if kind == "manyids":
        # sparse probe: exactly n distinct conditions and n distinct samples (id tables whose largest id sits on a byte / word
        # boundary: 255, 256, 65535, 65536 ...)
        n = case["n"]
        s = Screen(
            treatment_names=np.array([[f"t{i:06d}"] for i in range(n)], dtype=str), treatment_doses=np.array([[1.0 + (i % 3)] for i in range(n)]),
            sample_names=np.array([f"s{n - 1 - i:06d}" for i in range(n)], dtype=str), plate_names=np.array([f"p{i % 3}" for i in range(n)], dtype=str),
            observations=np.array([0.001 * (i % 997) for i in range(n)]), observation_mask=np.array([i % 3 != 1 for i in range(n)]), control_treatment_name=control,
        )
        round_trip(s, cycles, col, case, "manyids", tmp, verbose)
        return
    if kind == "holdout":
        parent = build(case["spec"], control)
        ch = Chooser(case["choices"])
        train, test = HOLDOUT_FNS[case["fn"]](parent, case["fraction"], ScriptedGenerator(ch))
        round_trip(train if case["which"] == "train" else test, cycles, col, case, "holdout", tmp, verbose)
        return
    raise KeyError(kind)


# ------------------------------------------------------------------ work items
def _holdout_parent(p):
    allp = HOLDOUT_PARENTS + HOLDOUT_PARENTS_THOROUGH
    return allp[p]


def run_item(item, col, tier):
    tmp = env.scratch_dir("c02")
    try:
        _run_item(item, col, tier, tmp)
    finally:
        shutil.rmtree(tmp, ignore_errors=True)


def _run_item(item, col, tier, tmp):
    k = item["k"]
    base_cycles = 3 if tier == "thorough" else 2
    if k == "screens":
        for i in range(item["lo"], item["hi"]):
            spec = with_obs(c01.screen_spec(item["alpha"], item["arity"], item["rows"], i), i)
            case = {"kind": "screen", "family": "screens", "control": item["control"], "spec": spec, "cycles": base_cycles}
            run_case(case, col, tmp)
            if i == item["lo"]:
                col.sample(case)
        return
    if k == "obsmask":
        spec0, control = OBSMASK_BASES[item["base"]] if item["base"] < 2 else OBSMASK_BASE3
        n = len(spec0["tn"])
        alphabet = OBS[: item["alphabet"]]
        for obs in itertools.product(alphabet, repeat=n):
            for mask in uniform_masks(spec0["pn"]):
                spec = dict(spec0, obs=list(obs), mask=mask)
                run_case({"kind": "screen", "family": "obsmask", "control": control, "spec": spec, "cycles": 3}, col, tmp)
        # observations=None: the constructor's own zeros / all-False mask
        run_case({"kind": "screen", "family": "obsmask", "control": control, "spec": dict(spec0), "cycles": 3}, col, tmp)
        return
    if k == "observed":
        # histories: a screen built WITHOUT observations, plates observed one after the other through Screen.set_observed
        # (every ordered selection of distinct plates, two value patterns), optionally saved and reloaded before the first
        # observation; then the usual save/load cycles.  What is compared is what the screen shows right before the save.
        for b, (spec0, control) in enumerate(OBSMASK_BASES + [OBSMASK_BASE3]):
            plates = sorted(set(spec0["pn"]))
            for r in range(1, len(plates) + 1):
                for order in itertools.permutations(plates, r):
                    for pattern in ("graded", "special"):
                        for pre in (False, True):
                            case = {"kind": "observed", "family": "observed", "control": control, "spec": dict(spec0),
                                    "order": list(order), "pattern": pattern, "reload_first": pre, "cycles": 3}
                            run_case(case, col, tmp)
        col.sample(case)
        return
    if k == "superset":
        for i in range(item["lo"], item["hi"]):
            src = c01.screen_spec(item["alpha"], item["arity"], item["rows"], i)
            n = len(src["tn"])
            j = 0
            for m in range(1, n + 1):
                for idx in itertools.combinations(range(n), m):
                    spec = with_obs(c01.sub_spec(src, idx), i + j)
                    j += 1
                    case = {"kind": "screen", "family": "superset", "control": item["control"], "spec": spec,
                            "source": src, "cycles": base_cycles}
                    run_case(case, col, tmp)
                    # mappings that are not in sorted order: ids reversed / listing rotated (every other case in the quick tier)
                    if tier == "thorough" or j % 2 == 0:
                        for perm in ("reverse-ids", "rotate-rows"):
                            run_case(dict(case, perm=perm, family="superset-permuted"), col, tmp)
                    if i == item["lo"] and j == 1:
                        col.sample(case)
        return
    if k == "holdout":
        spec, control = _holdout_parent(item["parent"])

        def body(ch):
            parent = build(spec, control)
            try:
                return HOLDOUT_FNS[item["fn"]](parent, item["fraction"], ScriptedGenerator(ch))
            except Exception as exc:  # noqa: BLE001  (the split refusing is not C02's subject)
                return exc

        info = {}
        for ch, out in explore(body, max_leaves=(5000, info)):
            if isinstance(out, Exception):
                col.refused += 1
                continue
            for which, s in zip(("train", "test"), out):
                case = {"kind": "holdout", "control": control, "spec": spec, "fn": item["fn"], "fraction": item["fraction"],
                        "choices": ch.choices, "which": which, "cycles": base_cycles}
                round_trip(s, base_cycles, col, case, "holdout", tmp)
        if info.get("cap_hit"):
            col.cap(f"leaf cap 5000 hit for hold-out {item}")
        return
    if k == "names1":
        t = item["treatment"]
        for sname in NAMEX:
            for pname in NAMEX:
                spec = {"tn": [[t]], "td": [[1.0]], "sn": [sname], "pn": [pname], "obs": [0.25], "mask": [True]}
                run_case({"kind": "screen", "family": "names", "control": item["control"], "spec": spec, "cycles": 3}, col, tmp)
        return
    if k == "names2":
        for x in NAMEX:
            for y in NAMEX:
                for variant in (0, 1):
                    spec = {"tn": [[x, y], [y, "a"]], "td": [[1.0, 2.0], [1.0, 1.0]],
                            "sn": [y, x] if variant == 0 else [x, y], "pn": [x, x] if variant == 0 else [y, x],
                            "obs": [0.25, 0.5], "mask": [True, True] if variant == 0 else [False, False]}
                    run_case({"kind": "screen", "family": "names", "control": item["control"], "spec": spec, "cycles": 3}, col, tmp)
        return
    if k == "manyids":
        run_case({"kind": "manyids", "n": item["n"], "control": "", "cycles": 2}, col, tmp)
        return
    if k == "tinydoses":
        for doses in ([2.5e-7, 5e-7, 1e-6, 1.0000001e-6], [1e-9, 2e-9, 1e-9, 3e-9, 4e-10], [1.0, 1.0000001, 1.0000002], [5e-324, 1e-300, 1e-7, 4.9e-7]):
            for control in ("", "ctl"):
                run_case({"kind": "tinydoses", "doses": doses, "control": control, "cycles": 3}, col, tmp)
        return
    if k == "glue":
        cells = [(n, d) for n in GLUE_NAMES for d in GLUE_DOSES]
        a = cells[item["first"]]
        for j, b in enumerate(cells):
            sn = [GLUE_NAMES[j % 5], GLUE_NAMES[(j // 5) % 5]]
            spec = {"tn": [[a[0]], [b[0]]], "td": [[a[1]], [b[1]]], "sn": sn, "pn": sn[::-1], "obs": [0.25, 0.5], "mask": [True, True]}
            case = {"kind": "screen", "family": "glue", "control": "", "spec": spec, "cycles": 2}
            run_case(case, col, tmp)
            spec = {"tn": [[a[0], b[0]]], "td": [[a[1], b[1]]], "sn": sn[:1], "pn": sn[1:], "obs": [0.25], "mask": [False]}
            run_case({"kind": "screen", "family": "glue", "control": "1", "spec": spec, "cycles": 2}, col, tmp)
            if j == 0:
                col.sample(case)
        return
    if k == "merged":
        # screens whose plates were merged in place (Plate.merge rewrites plate names and ids of the live screen), then saved
        names = ["p_a", "p_b", "p_c", "p_d"]
        rows_per = item["rows_per"]
        for i in range(len(rows_per)):
            for j in range(len(rows_per)):
                if i == j:
                    continue
                pn = [names[p] for p, r in enumerate(rows_per) for _ in range(r)]
                n = len(pn)
                spec = {"tn": [["a", "b"] if r % 2 else ["b", ""] for r in range(n)], "td": [[1.0, 2.0] if r % 2 else [1.0, 0.0] for r in range(n)],
                        "sn": [f"s{r % 2}" for r in range(n)], "pn": pn, "obs": [0.1 * (r + 1) for r in range(n)], "mask": [True] * n}
                screen = build(spec, item["control"])
                plates = {str(p.plate_name): p for p in screen.plates}
                plates[names[j]].merge(plates[names[i]])
                case = {"kind": "merged", "control": item["control"], "rows_per": rows_per, "merge": [i, j], "cycles": 3}
                round_trip(screen, 3, col, case, "merged", tmp)
        return
    if k == "empty":
        for arity in (1, 2, 3):
            for control in c01.CONTROLS:
                spec = {"tn": [], "td": [], "sn": [], "pn": [], "arity": arity, "obs": [], "mask": []}
                case = {"kind": "screen", "family": "empty", "control": control, "spec": spec, "cycles": 3}
                run_case(case, col, tmp)
                col.sample(case)
                src = {"tn": [["a"] * arity, ["ctl"] * arity], "td": [[1.0] * arity, [2.0] * arity], "sn": ["s", "t"], "pn": ["p", "q"]}
                run_case(dict(case, source=src), col, tmp)
        return
    raise KeyError(k)


def replay(case, col):
    print("case:", case)
    tmp = env.scratch_dir("c02r")
    try:
        run_case(case, col, tmp, verbose=True)
    finally:
        shutil.rmtree(tmp, ignore_errors=True)
