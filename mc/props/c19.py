"""C19  The orchestration script resumes correctly after an interruption at any point.

Engine E4: the real nextflow/scripts/batchie.py runs on a real directory under /dev/shm;
os.mkdir / os.rmdir / os.unlink and subprocess.check_call are fault-injecting seams; the
pipeline is a stub (FakeNextflow) whose publication order is any order ideal of the task
DAG extracted from the .nf sources.  BFS over directory trees reachable by crashes."""
import glob as _glob
import hashlib
import importlib.util
import json
import os
import re
import shutil
import subprocess
import sys

from .. import env

env.setup()

from ..core import short_exc  # noqa: E402
from . import nfdag  # noqa: E402

PROP = "C19"
# no epilogue pass: every invocation of the script already runs in a fresh module object (a re-run is a new process), the
# stub and the sandbox are per work item, so no state of the code under test survives from one work item to the next -
# and on a broken script one BFS can take minutes, which the sequential pass would double
EPILOGUE = False
LEVEL = "fault_enumeration"
ENGINE = "E4-crash-points"
TECHNIQUE = "crash-point enumeration: explicit-state BFS over directory trees, one transition per (script execution, crash point), crash points = every filesystem mutation of the script and every order ideal of the pipeline's publication DAG"
LEVEL_TEXT = (
    "The unmodified orchestration script is executed from every reachable output-directory tree with an interruption injected before "
    "every one of its filesystem mutations and after every partially published pipeline output set that the .nf task DAG allows "
    "(all order ideals); the user's recovery action (delete the directory the script names) is a transition too. Every launch is "
    "compared with the crash-free reference run (mode, input screen, thetas, distance chunks, excludes, output dir); completed steps "
    "must never be deleted or relaunched; at quiescence the tree must equal the reference tree."
)
RULE = (
    "configurations (mode x batch size x plates x chains/chunks) x BFS over trees to the fixpoint (any number of interruptions); "
    "transitions = one invocation of main() without interruption, with an interruption before the k-th mkdir/rmdir/unlink of the script "
    "(up to the first one after its first pipeline launch returned - later ones start from trees that are states themselves), with an "
    "interruption inside the first pipeline launch after publishing order ideal I (work directory holding exactly I, or I plus the "
    "outputs of every task that was ready), and the advised deletion; non-trivial = a transition that ends in a crash which leaves a "
    "partially created / partially published / partially deleted step directory; distinct = distinct (configuration, resulting tree)"
)
BOUNDS = {
    "quick": {"directory_listing": "two configurations with every glob of the script answered in sorted resp. reverse-sorted order (the others: as the file system lists)",
              "initial_plate": "plate 0 is the initially observed plate, except in three configurations (initial plate 3 of 4, 2 of 5, 1 of 3) where a later step selects id 0",
              "max_crashes_per_history": "unbounded (fixpoint)", "state_cap_per_config": 2500, "unit_of_execution": "one invocation of the script's main() (its whole driver loop)",
              "configs": "retrospective (batch,plates,chains,chunks) in {(1,3,1,1),(2,4,1,1),(3,5,1,1),(2,3,2,2)}; prospective (batch,iterations) in {(1,2),(2,2),(3,2)} with (1,1) and (2,2,(2,2)); plus one crash-bounded long run (batch 1 / 13 plates: every interruption point of every launch, <= 1 interruption per history)"},
    "thorough": {"max_crashes_per_history": "unbounded (fixpoint)", "state_cap_per_config": 40000, "initial_plate": "as quick plus batch 3 / 5 plates with initial plate 4",
                 "configs": "batch 1..4 x plates 2..5 x {(1,1),(2,2)} both modes; plus batch 11 / 13 plates (two-digit plate dirs); plus two crash-bounded long runs (batch 1 / 13 plates, batch 2 / 23 plates)"},
}
ASSUMPTIONS = [
    "Nextflow publishes each output file atomically, in some order compatible with the task DAG of the .nf files (no torn files, no publication overtaking an upstream task)",
    "an interruption ends the script and the pipeline together; it is modelled as a kill (nothing of the script runs afterwards) and - only when the script's source contains a construct that could react to it (except BaseException / KeyboardInterrupt / bare except / finally / atexit / signal) - also as an interrupt whose handlers run to completion",
    "the user reacts to 'Consider deleting this directory ...: <path>' by deleting exactly that directory, atomically",
    "file contents are abstract but functional (screens carry their observed plate set; thetas/distances/scores carry digests of their inputs)",
]


class Runaway(BaseException):
    """Horizon of one invocation: far more pipeline launches / filesystem mutations than any run of this size needs."""


class Outside(BaseException):
    """The script launched the pipeline with an output directory outside the one it was asked to use."""


class Crash(BaseException):
    pass


ADVICE_RE = re.compile(r"Consider deleting this directory[^:]*:\s*(\S+)")


# ------------------------------------------------------------------ script under test
_SCRIPT = {}


# Constructs through which the script itself could react to an interruption (clean-up handlers).  The interruption is
# modelled twice: "kill" (nothing of the script runs after the interruption point: SIGKILL, power loss) and "interrupt"
# (a BaseException is raised once at the interruption point and the script's own handlers / finally blocks run: Ctrl-C,
# SIGTERM turned into an exception).  Without any such construct in the source the two coincide, and only "kill" is run.
_HANDLER_RE = re.compile(r"except\s+\(?[^:\n]*\b(BaseException|KeyboardInterrupt|SystemExit)\b|except\s*:|finally\s*:|\batexit\b|\bsignal\.")


def script_has_handlers():
    if "handlers" not in _SCRIPT:
        with open(os.path.join(env.REPO, "nextflow", "scripts", "batchie.py")) as f:
            _SCRIPT["handlers"] = bool(_HANDLER_RE.search(f.read()))
    return _SCRIPT["handlers"]


def script():
    """A FRESH module object per invocation: every (re-)run of the script is a new process, nothing kept in module-level
    variables survives an interruption.  (The source is compiled once.)"""
    path = os.path.join(env.REPO, "nextflow", "scripts", "batchie.py")
    if "code" not in _SCRIPT:
        with open(path) as f:
            _SCRIPT["code"] = compile(f.read(), path, "exec")
    import types
    mod = types.ModuleType("batchie_orchestration_script")
    mod.__file__ = path
    exec(_SCRIPT["code"], mod.__dict__)
    mod.logger.handlers = []
    mod.logger.disabled = True
    return mod


# ------------------------------------------------------------------ tree <-> disk
def capture(root):
    out = {}
    stack = [root]
    while stack:
        d = stack.pop()
        for e in os.scandir(d):
            rel = os.path.relpath(e.path, root)
            if e.is_dir(follow_symlinks=False):
                out[rel] = None
                stack.append(e.path)
            else:
                with open(e.path) as f:
                    out[rel] = f.read()
    return out


def materialize(root, tree):
    shutil.rmtree(root, ignore_errors=True)
    os.mkdir(root)
    for rel in sorted(tree):
        p = os.path.join(root, rel)
        if tree[rel] is None:
            os.mkdir(p)
        else:
            with open(p, "w") as f:
                f.write(tree[rel])


def norm_tree(tree):
    """Canonical form of a tree.  Files inside Nextflow's work directories count by name only (their
    content never matters, but a script that looks into them must not be merged away)."""
    return frozenset((k, ("w" if v is not None else None) if "work" in k.split("/") else v) for k, v in tree.items())


def strip_work(tree):
    return {k: v for k, v in tree.items() if "work" not in k.split("/")}


# ------------------------------------------------------------------ FakeNextflow
def h(*parts):
    return hashlib.blake2b(json.dumps(parts, sort_keys=True).encode(), digest_size=6).hexdigest()


def parse_cmd(cmd):
    assert cmd[0] == "nextflow" and cmd[1] == "run", cmd
    opts = {}
    i = 3
    while i < len(cmd):
        t = cmd[i]
        if t.startswith("--") and "=" in t:
            k, v = t[2:].split("=", 1)
            opts[k] = v
            i += 1
        elif t.startswith("-"):
            opts[t.lstrip("-")] = cmd[i + 1]
            i += 2
        else:
            raise ValueError(f"cannot parse pipeline command at {t!r}: {cmd}")
    return opts


def read_screen(path):
    with open(path) as f:
        return json.load(f)


class FakeNextflow:
    """Publishes the documented output tree in an order compatible with the task DAG.
    crash_ideal: None (run to completion) or a frozenset of node names to publish before
    the interruption."""

    def __init__(self, dag_source, root=None):
        self.dag_source = dag_source
        self.launches = []
        self.crash = None  # (launch index, frozenset ideal, ahead: bool)
        self.nodes_per_launch = []
        self.root = root

    def launch_record(self, opts):
        rec = {"mode": opts.get("mode"), "outdir": opts.get("outdir"), "name": opts.get("name"),
               "initialize": opts.get("initialize"), "reveal": opts.get("reveal")}

        def screen_sig(p):
            if p is None:
                return None
            if not os.path.exists(p):
                return "MISSING"
            s = read_screen(p)
            return (s.get("plates"), tuple(sorted(s.get("observed", []))), s.get("kind") == "test")

        for k in ("screen", "training_screen", "test_screen"):
            rec[k] = screen_sig(opts.get(k))
        for k in ("thetas", "distance_matrix"):
            pat = opts.get(k)
            rec[k] = None if pat is None else tuple(sorted(open(f).read() for f in _glob.glob(pat)))
        ex = opts.get("excludes")
        rec["excludes"] = None if ex is None else tuple(sorted(x for x in ex.split(",") if x != ""))
        rec["n_chains"] = opts.get("n_chains")
        rec["n_chunks"] = opts.get("n_chunks")
        return rec

    def run(self, cmd, cwd=None, **kw):
        opts = parse_cmd(cmd)
        rec = self.launch_record(opts)
        # the output tree as it is when the pipeline starts (completed steps are judged against it)
        rec["tree_before"] = capture(self.root) if self.root and os.path.isdir(self.root) else {}
        launch_index = len(self.launches)
        self.launches.append(rec)
        mode = opts["mode"]
        outdir, name = opts["outdir"], opts["name"]
        C, K = int(opts.get("n_chains", 1)), int(opts.get("n_chunks", 1))
        fail = subprocess.CalledProcessError(1, cmd)
        # checkIfExists-style input validation
        if mode in ("prospective", "next_plate") and (rec["screen"] in (None, "MISSING")):
            raise fail
        if mode == "next_plate" and (not rec["thetas"] or not rec["distance_matrix"]):
            raise fail
        if mode == "retrospective":
            if opts.get("initialize") == "true":
                if rec["screen"] in (None, "MISSING"):
                    raise fail
            elif rec["training_screen"] in (None, "MISSING") or rec["test_screen"] in (None, "MISSING"):
                raise fail
        work = opts.get("work-dir")
        if work:
            os.makedirs(os.path.join(work, "ab", "cdef"), exist_ok=True)
            with open(os.path.join(work, "ab", "cdef", ".command.sh"), "w") as f:
                f.write("#!/bin/bash\n")
        params = {"mode": mode, "initialize": opts.get("initialize") == "true", "reveal": opts.get("reveal") == "true"}
        nodes = self.dag_source(params, C, K)  # list of (file, task, deps(files))
        self.nodes_per_launch.append(nodes)
        pub = os.path.join(outdir, name)
        produced = {}

        def content(fname):
            return produced[fname]

        # ---- compute contents functionally (in DAG order), publish those in the ideal
        if mode == "retrospective" and params["initialize"]:
            src = read_screen(opts["screen"])
            P = src["plates"]
            # which plate the initial-plate generator reveals is a function of the screen (here: a field of the abstract screen)
            train = {"kind": "screen", "plates": P, "observed": [int(src.get("initial", 0))]}
            test = {"kind": "test", "plates": P, "observed": list(range(P))}
        elif mode == "retrospective":
            train = read_screen(opts["training_screen"])
            P = train["plates"]
            test = None
        else:
            train = read_screen(opts["screen"])
            P = train["plates"]
            test = None
        excludes = sorted(rec["excludes"] or [])
        if mode == "next_plate":
            thetas = list(rec["thetas"])
            dists = list(rec["distance_matrix"])
        else:
            thetas = [json.dumps({"thetas_of": sorted(train["observed"]), "plates": P, "chain": c, "n_chains": C}) for c in range(C)]
            dists = [json.dumps({"dist_of": h(sorted(train["observed"]), thetas), "chunk": k, "n_chunks": K}) for k in range(K)]
        scores = [json.dumps({"score_of": h(sorted(train["observed"]), thetas, dists, excludes), "chunk": k, "n_chunks": K}) for k in range(K)]
        cands = [p for p in range(P) if p not in train["observed"] and str(p) not in excludes]
        if cands:
            sel = cands[int(h(sorted(train["observed"]), thetas, dists, excludes), 16) % len(cands)]
        else:
            sel = -1
        advanced = {"kind": "screen", "plates": P, "observed": sorted(set(train["observed"]) | ({sel} if sel >= 0 else set()))}
        for fname, task, deps in nodes:
            if fname == "training.screen.h5":
                produced[fname] = json.dumps(train)
            elif fname == "test.screen.h5":
                produced[fname] = json.dumps(test)
            elif fname.startswith("thetas_"):
                produced[fname] = thetas[int(fname[len("thetas_"):-3])]
            elif fname.startswith("distance_matrix_chunk_"):
                produced[fname] = dists[int(fname[len("distance_matrix_chunk_"):-3])]
            elif fname.startswith("score_chunk_"):
                produced[fname] = scores[int(fname[len("score_chunk_"):-3])]
            elif fname == "model_evaluation.h5":
                produced[fname] = json.dumps({"eval_of": h(thetas)})
            elif fname == "model_evaluation_analysis":
                produced[fname] = None  # a directory
            elif fname == "selected_plate":
                produced[fname] = str(sel)
            elif fname == "advanced_screen.h5":
                produced[fname] = json.dumps(advanced)
            elif fname == "screen_metadata.json":
                src_task = [d for d in deps]
                base = advanced if "advanced_screen.h5" in deps else train
                produced[fname] = json.dumps({"n_unobserved_plates": P - len(base["observed"]), "n_observed_plates": len(base["observed"]),
                                              "n_plates": P})
            else:
                raise ValueError(f"stub does not know how to produce {fname}")
        ideal, ahead = None, False
        if self.crash is not None and self.crash[0] == launch_index:
            ideal, ahead = self.crash[1], self.crash[2]
        published = [n for n in nodes if ideal is None or n[0] in ideal]
        # a task writes its outputs into Nextflow's work directory first and they are published afterwards: at an
        # interruption the work directory holds the published files and (ahead=True) also the outputs of every task
        # whose inputs were complete (finished, not yet published)
        in_work = list(published)
        if ideal is not None and ahead:
            have = {n[0] for n in published}
            in_work += [n for n in nodes if n[0] not in have and set(n[2]) <= have]

        def write(dirpath, fname):
            os.makedirs(dirpath, exist_ok=True)
            p = os.path.join(dirpath, fname)
            if produced[fname] is None:
                os.makedirs(p, exist_ok=True)
                with open(os.path.join(p, "summary_statistics.json"), "w") as f:
                    f.write("{}")
            else:
                with open(p, "w") as f:
                    f.write(produced[fname])

        if work:
            for fname, task, deps in in_work:
                if fname == "advanced_screen.h5" and sel < 0:
                    continue
                write(os.path.join(work, "t" + h(task)[:2], h(task, fname), name), fname)
        for fname, task, deps in published:
            if fname == "advanced_screen.h5" and sel < 0:
                raise fail  # reveal_plates refuses an empty / all-zero selection
            write(pub, fname)
        if ideal is not None:
            raise Crash("pipeline interrupted")
        return 0


def ideals(nodes):
    """All downward-closed proper subsets of the file DAG (as frozensets of file names)."""
    names = [n[0] for n in nodes]
    deps = {n[0]: set(n[2]) for n in nodes}
    out = set()

    def rec(i, chosen):
        if i == len(names):
            out.add(frozenset(chosen))
            return
        f = names[i]
        rec(i + 1, chosen)
        if deps[f] <= chosen:
            rec(i + 1, chosen | {f})

    rec(0, frozenset())
    out.discard(frozenset(names))
    return sorted(out, key=lambda s: (len(s), sorted(s)))


# ------------------------------------------------------------------ one execution of the script
class Sandbox:
    def __init__(self, cfg, dag_source):
        self.cfg = cfg
        self.base = env.scratch_dir("c19")
        # "odd_path": an output directory whose own path contains pieces that look like step directories
        self.root = os.path.join(self.base, "plate_384", "iter_7_run", "out") if cfg.get("odd_path") else os.path.join(self.base, "out")
        os.makedirs(os.path.dirname(self.root), exist_ok=True)
        self.input = os.path.join(self.base, "unmasked_screen.h5")
        with open(self.input, "w") as f:
            observed = list(range(cfg["plates"])) if cfg["mode"] == "retrospective" else [cfg.get("initial", 0)]
            json.dump({"kind": "screen", "plates": cfg["plates"], "observed": observed, "initial": cfg.get("initial", 0)}, f)
        self.dag_source = dag_source

    def close(self):
        shutil.rmtree(self.base, ignore_errors=True)

    def set_input(self, observed):
        with open(self.input, "w") as f:
            json.dump({"kind": "screen", "plates": self.cfg["plates"], "observed": sorted(observed), "initial": self.cfg.get("initial", 0)}, f)

    def execute(self, tree, crash):
        """One invocation of the script's main() (its whole driver loop) from `tree`.
        crash: None | ("script", k) | ("pipeline", launch index, frozenset ideal, ahead).
        Returns dict(outcome in {done, crash, advice, error}, tree, launches, n_script_mutations,
        mutations_at_launch[j], advice, error, nodes_per_launch)."""
        materialize(self.root, tree)
        mod = script()
        if self.cfg.get("listing"):
            # environment dimension: the order in which the file system lists a directory is not the script's to choose (it changes
            # when directories are removed and re-created); here every glob of the script answers in sorted / reverse-sorted order
            import glob as _real_glob
            import types as _types
            rev = self.cfg["listing"] == "desc"
            proxy = _types.SimpleNamespace(**{n_: getattr(_real_glob, n_) for n_ in dir(_real_glob) if not n_.startswith("__")})
            proxy.glob = lambda *a, **k: sorted(_real_glob.glob(*a, **k), reverse=rev)
            proxy.iglob = lambda *a, **k: iter(sorted(_real_glob.glob(*a, **k), reverse=rev))
            mod.glob = proxy
        fake = FakeNextflow(self.dag_source, self.root)
        if crash and crash[0] == "pipeline":
            fake.crash = (crash[1], crash[2], crash[3])
        interrupt = bool(crash) and crash[-1] == "int"
        counter = {"n": 0, "in_pipeline": False, "dead": False, "fired": False}
        at_launch = []
        # every way the script can change the file system below the sandbox is a mutation: an interruption point before it, and
        # impossible once the process is gone (kill mode) - including what a `finally:` / atexit handler would like to clean up
        real = {n_: getattr(os, n_) for n_ in ("mkdir", "rmdir", "unlink", "remove", "rename", "replace", "symlink", "link", "open")}
        import builtins
        real_open = builtins.open
        root_prefix = self.base + os.sep

        def _below(x):
            try:
                return os.path.abspath(x if isinstance(x, str) else os.fsdecode(x)).startswith(root_prefix)
            except TypeError:
                return False  # (a file descriptor)

        def wrap(name):
            fn = real[name]

            def w(path, *a, **k):
                if not counter["in_pipeline"]:
                    if name == "open":
                        flags = a[0] if a else k.get("flags", 0)
                        relevant = _below(path) and bool(flags & (os.O_CREAT | os.O_WRONLY | os.O_RDWR | os.O_TRUNC | os.O_APPEND))
                    else:
                        relevant = k.get("dir_fd") is not None or _below(path) or (name in ("rename", "replace", "symlink", "link") and bool(a) and _below(a[0]))
                    if relevant:
                        if counter["dead"]:
                            raise Crash("the process is gone")  # kill: nothing of the script runs after the interruption
                        if crash and crash[0] == "script" and counter["n"] == crash[1] and not counter["fired"]:
                            counter["fired"] = True
                            counter["dead"] = not interrupt
                            raise Crash(f"interrupted before {name} #{counter['n']}")
                        counter["n"] += 1
                        if counter["n"] > 400 * self.cfg["plates"] + 2000:
                            raise Runaway(f"{counter['n']} filesystem mutations in one invocation")
                return fn(path, *a, **k)

            return w

        def check_call(cmd, *a, **k):
            if len(fake.launches) > 2 * self.cfg["plates"] + 4:
                raise Runaway(f"{len(fake.launches)} pipeline launches in one invocation for {self.cfg['plates']} plates")
            if counter["dead"]:
                raise Crash("the process is gone")
            where = os.path.abspath(parse_cmd(cmd).get("outdir") or "")
            if not (where + os.sep).startswith(self.root + os.sep):
                raise Outside(f"launch #{len(fake.launches) + 1} publishes to {where}, which is not below the requested output directory {self.root}")
            counter["in_pipeline"] = True
            at_launch.append(counter["n"])
            try:
                rv = fake.run(cmd, *a, **k)
                # the pipeline has returned: what is complete now counts as completed, whatever the script does next
                fake.launches[-1]["tree_after"] = capture(self.root)
                return rv
            except Crash:
                counter["dead"] = not interrupt
                raise
            finally:
                counter["in_pipeline"] = False

        def open_w(file, mode="r", *a, **k):
            if not counter["in_pipeline"] and isinstance(mode, str) and any(c in mode for c in "wax+") and not isinstance(file, int) and _below(file):
                # (counted like the other mutations by going through the os.open wrapper's bookkeeping)
                wrap_open_probe(file)
            return real_open(file, mode, *a, **k)

        def wrap_open_probe(file):
            if counter["dead"]:
                raise Crash("the process is gone")
            if crash and crash[0] == "script" and counter["n"] == crash[1] and not counter["fired"]:
                counter["fired"] = True
                counter["dead"] = not interrupt
                raise Crash(f"interrupted before open-for-writing #{counter['n']}")
            counter["n"] += 1

        saved_cc = mod.subprocess.check_call
        saved_argv = sys.argv
        for n_ in real:
            setattr(os, n_, wrap(n_))
        builtins.open = open_w
        mod.subprocess.check_call = check_call
        cwd0 = os.getcwd()
        scr, outd = self.input, self.root
        if self.cfg.get("relative"):
            # started from the directory that holds the screen, with relative --screen / --outdir
            os.chdir(self.base)
            scr, outd = os.path.relpath(self.input, self.base), os.path.relpath(self.root, self.base)
        sys.argv = ["batchie.py", "--mode", self.cfg["mode"], "--screen", scr, "--outdir", outd,
                    "--batch-size", str(self.cfg["batch"]), "--n_chains", str(self.cfg["chains"]), "--n_chunks", str(self.cfg["chunks"])]
        res = {"outcome": None, "advice": None, "error": None}
        try:
            mod.main()
            res["outcome"] = "done"
        except Crash:
            res["outcome"] = "crash"
        except Runaway as exc:
            res["outcome"] = "runaway"
            res["error"] = str(exc)
        except Outside as exc:
            res["outcome"] = "outside"
            res["error"] = str(exc)
        except RuntimeError as exc:
            m = ADVICE_RE.search(str(exc))
            if m:
                res["outcome"] = "advice"
                res["advice"] = os.path.relpath(m.group(1), self.root)
            else:
                res["outcome"] = "error"
                res["error"] = short_exc(exc)
        except (Exception, SystemExit) as exc:  # noqa: BLE001
            res["outcome"] = "error"
            res["error"] = short_exc(exc)
        finally:
            for n_, f_ in real.items():
                setattr(os, n_, f_)
            builtins.open = real_open
            mod.subprocess.check_call = saved_cc
            sys.argv = saved_argv
            os.chdir(cwd0)
        res["tree"] = capture(self.root) if os.path.isdir(self.root) else {}
        res["launches"] = fake.launches
        res["n_script_mutations"] = counter["n"]
        res["mutations_at_launch"] = at_launch
        res["nodes_per_launch"] = fake.nodes_per_launch
        return res


# ------------------------------------------------------------------ reference run
STEP_RE = re.compile(r"iter_(\d+)/plate_(\d+)")


def step_of_outdir(root, outdir):
    m = STEP_RE.search(os.path.relpath(outdir, root))
    return (int(m.group(1)), int(m.group(2))) if m else None


class ReferenceFailure(Exception):
    def __init__(self, sig, msg, hist):
        super().__init__(msg)
        self.sig, self.msg, self.hist = sig, msg, hist


def recorded_selections(tree, upto_iteration):
    """Plates the user has run after the batches of iterations < upto_iteration (read off the tree)."""
    out = set()
    for k, v in strip_work(tree).items():
        m = STEP_RE.match(k)
        if m and int(m.group(1)) < upto_iteration and k.endswith("/selected_plate") and v is not None:
            try:
                if int(v) >= 0:
                    out.add(int(v))
            except ValueError:
                pass
    return out


def current_round(cfg, tree):
    """Prospective mode: which batch the user is working on, read off the output directory: batch i is finished
    when each of its batch-size steps shows a recorded selection and its metadata (what the documented output tree
    of a finished step contains).  The user then runs those plates and hands the next screen to the script."""
    t = strip_work(tree)
    r = 0
    while True:
        ok = True
        for j in range(cfg["batch"]):
            if step_file(t, (r, j), "selected_plate") is None or step_file(t, (r, j), "screen_metadata.json") is None:
                ok = False
                break
        if not ok:
            return r
        r += 1


def prepare_input(sb, cfg, tree):
    """The screen the user hands to the script: retrospective - the fully observed screen; prospective - the
    screen of the current round: the initially observed plate (0 unless the configuration says otherwise) plus the plates selected in the finished batches."""
    if cfg["mode"] == "retrospective":
        sb.set_input(range(cfg["plates"]))
        return 0
    rnd = current_round(cfg, tree)
    sb.set_input({cfg.get("initial", 0)} | recorded_selections(tree, rnd))
    return rnd


def judge_launches(sb, cfg, r, ref, violate, hist, protected_before):
    """Clauses about every pipeline launch of one execution.  Returns True when something was violated."""
    bad = False
    ever_complete = set(protected_before)
    for L in r["launches"]:
        tb = L["tree_before"]
        st = step_of_outdir(sb.root, L["outdir"])
        for sig_, msg_ in absolute_launch_check(sb, cfg, tb, L):
            violate(sig_, msg_, hist)
            bad = True
        if ref is not None:
            done_now = complete_steps(tb, ref)
            ever_complete |= done_now
            nl = normalize_launch(sb, L)
            if st in ever_complete:
                violate("relaunch-completed", f"step {st} was already complete and is launched again", hist)
                bad = True
            elif st not in ref["launches"]:
                if not (cfg["mode"] == "prospective" and st is not None and st[0] >= cfg["iterations"]):
                    violate("unknown-step", f"launch for step {st} which the uninterrupted run never executes", hist)
                    bad = True
            elif nl != ref["launches"][st]:
                diff = {k: (nl.get(k), ref["launches"][st].get(k)) for k in nl if nl.get(k) != ref["launches"][st].get(k)}
                violate("inputs-differ", f"step {st} launched with inputs that differ from the uninterrupted run: {diff}", hist)
                bad = True
            if L.get("tree_after") is not None:
                ever_complete |= complete_steps(L["tree_after"], ref)
    return bad, ever_complete


def reference(sb, cfg):
    """Crash-free run(s): launches keyed by step, final tree, files per step.  The uninterrupted run must itself
    satisfy the absolute clauses of the statement."""
    tree = {}
    launches = {}
    hist = []
    rounds = 1 if cfg["mode"] == "retrospective" else cfg["iterations"]
    expected_steps = cfg["plates"] - 1 if cfg["mode"] == "retrospective" else rounds * cfg["batch"]
    for rnd in range(rounds):
        got_rnd = prepare_input(sb, cfg, tree)
        if cfg["mode"] == "prospective" and got_rnd != rnd:
            raise ReferenceFailure("crash-free|batch-not-finished", f"after {rnd} uninterrupted invocation(s) the output directory shows {got_rnd} finished batch(es)", hist)
        r = sb.execute(tree, None)
        hist.append(f"run(round {rnd})")
        if r["outcome"] != "done":
            raise ReferenceFailure("crash-free-run-fails", f"without any interruption the script stops with {r['outcome']}: {r['error'] or r['advice']}", hist)
        for L in r["launches"]:
            st = step_of_outdir(sb.root, L["outdir"])
            for sig, msg in absolute_launch_check(sb, cfg, L["tree_before"], L):
                raise ReferenceFailure("crash-free|" + sig, "without any interruption: " + msg, hist)
            if st in launches:
                raise ReferenceFailure("crash-free|relaunch", f"without any interruption step {st} is launched twice", hist)
            if cfg["mode"] == "prospective" and st is not None and st[0] != rnd:
                raise ReferenceFailure("crash-free|wrong-round", f"without any interruption, the invocation for batch {rnd} launches step {st}", hist)
            launches[st] = normalize_launch(sb, L)
        tree = r["tree"]
    if len(launches) != expected_steps:
        raise ReferenceFailure("crash-free|step-count", f"the uninterrupted run executes {len(launches)} steps, expected {expected_steps}", hist)
    files = {}
    for k, v in strip_work(tree).items():
        m = STEP_RE.match(k)
        if m and v is not None:
            files.setdefault((int(m.group(1)), int(m.group(2))), {})[k] = v
    return {"launches": launches, "tree": strip_work(tree), "files": files}


def screen_sig_of(content):
    s_ = json.loads(content)
    return (s_.get("plates"), tuple(sorted(s_.get("observed", []))), s_.get("kind") == "test")


def step_file(tree, st, fname):
    pre = f"iter_{st[0]}/plate_{st[1]}/"
    for k, v in tree.items():
        if k.startswith(pre) and k.endswith("/" + fname) and "work" not in k.split("/") and v is not None:
            return v
    return None


def absolute_launch_check(sb, cfg, tree, L):
    """Clauses of the statement that do not refer to the uninterrupted run: a step starts
    from the output screen of its immediate predecessor, no step index is skipped, a batch
    holds batch-size plates.  Returns [(sig, msg)]."""
    out = []
    st = step_of_outdir(sb.root, L["outdir"])
    if st is None:
        return [("outdir", f"pipeline launched into {L['outdir']}, which is not an iter_<i>/plate_<j> directory")]
    i, j = st
    B = cfg["batch"]
    inp = screen_sig_of(open(sb.input).read())
    if j >= B:
        out.append(("batch-overflow", f"step {st} launched although a batch holds {B} plate(s)"))
    if st == (0, 0):
        pred = None
    elif j > 0:
        pred = (i, j - 1)
    else:
        prev = [int(m.group(2)) for k in tree for m in [STEP_RE.match(k)] if m and int(m.group(1)) == i - 1 and step_file(tree, (i - 1, int(m.group(2))), "selected_plate") is not None]
        if not prev:
            return out + [("skipped-index", f"step {st} launched but iteration {i - 1} has no recorded selection")]
        pred = (i - 1, max(prev))
        if len(set(prev)) != B:
            out.append(("skipped-index", f"step {st} opens a new iteration although iteration {i - 1} holds {len(set(prev))} of {B} plates"))
    launched_screen = L.get("screen") if L.get("screen") is not None else L.get("training_screen")
    if cfg["mode"] == "prospective" or pred is None:
        want = inp
    else:
        if step_file(tree, pred, "selected_plate") is None:
            out.append(("skipped-index", f"step {st} launched although its predecessor {pred} recorded no selection"))
        adv = step_file(tree, pred, "advanced_screen.h5")
        want = None if adv is None else screen_sig_of(adv)
    if want is not None and launched_screen != want:
        out.append(("wrong-screen", f"step {st} starts from screen {launched_screen}, the output of its predecessor {pred} is {want}"))
    return out


def normalize_launch(sb, L):
    d = {k: v for k, v in L.items() if k not in ("tree_before", "tree_after")}
    d["outdir"] = os.path.relpath(L["outdir"], sb.root)
    return d


def complete_steps(tree, ref):
    out = set()
    for st, fs in ref["files"].items():
        if all(k in tree and tree[k] is not None for k in fs):
            out.add(st)
    return out


# ------------------------------------------------------------------ exploration of one configuration
def crash_plans(base, all_launches=False):
    """Interruption points of one execution that lead to NEW trees: every filesystem mutation of the script up to
    and including the first one after its first pipeline launch returned, and every partially published state of
    that first launch.  Interruptions later in the same invocation are reached from the tree the script is then
    working on, which is itself a state of the search (the boundary crash point)."""
    n = base["n_script_mutations"]
    at = base["mutations_at_launch"]
    limit = n if len(at) < 2 else at[1]
    if (len(at) >= 1 and base["outcome"] != "done") or all_launches:
        limit = n
    plans = [("script", k) for k in range(min(n, limit + 1))]
    # all_launches (crash-bounded deep configurations): the interruption points of EVERY launch of the invocation,
    # because with a bound on the number of crashes the boundary crash point may not be used as a stepping stone
    for li in range(len(base["nodes_per_launch"]) if all_launches else min(1, len(base["nodes_per_launch"]))):
        nodes = base["nodes_per_launch"][li]
        for I in ideals(nodes):
            plans.append(("pipeline", li, I, False))
            if any(nd[0] not in I and set(nd[2]) <= I for nd in nodes):
                plans.append(("pipeline", li, I, True))
    if script_has_handlers():
        plans = plans + [pl + ("int",) for pl in plans]
    return plans


def plan_label(pl):
    if pl is None:
        return "run"
    mode = "~int" if pl[-1] == "int" else ""
    if pl[0] == "script":
        return f"crash@fs{pl[1]}{mode}"
    return f"crash@pipeline{pl[1]}{'+workdir-ahead' if pl[3] else ''}{sorted(pl[2])}{mode}"


def parse_label(label):
    if label.startswith("run"):
        return None
    mode = ()
    if label.endswith("~int"):
        label, mode = label[:-4], ("int",)
    if label.startswith("crash@fs"):
        return ("script", int(label[len("crash@fs"):])) + mode
    m = re.match(r"crash@pipeline(\d+)(\+workdir-ahead)?(\[.*\])$", label)
    return ("pipeline", int(m.group(1)), frozenset(json.loads(m.group(3).replace("'", '"'))), bool(m.group(2))) + mode


def explore_config(cfg, col, tier, dag_source):
    sb = Sandbox(cfg, dag_source)
    try:
        try:
            ref = reference(sb, cfg)
        except ReferenceFailure as rf:
            col.evaluations += len(rf.hist)
            col.outcome("reference-failure", rf.sig)
            col.violation(f"C19|{rf.sig}|{cfg['mode']}", f"{cfg}: {rf.msg}; history {rf.hist}", {"cfg": cfg, "history": rf.hist})
            return
        cap = BOUNDS[tier]["state_cap_per_config"]
        rounds = 1 if cfg["mode"] == "retrospective" else cfg["iterations"]
        seen = {norm_tree({}): []}
        frontier = [({}, [])]
        violations_here = 0

        def violate(sig, msg, hist):
            nonlocal violations_here
            violations_here += 1
            col.violation(f"C19|{sig}|{cfg['mode']}", f"{cfg}: {msg}; history {hist}", {"cfg": cfg, "history": hist})

        while frontier:
            if violations_here > 40:
                col.count("configs_cut_short_after_40_violations")
                break
            tree, hist = frontier.pop(0)
            if cfg["mode"] == "prospective" and current_round(cfg, tree) >= rounds:
                # horizon of the exploration: every batch of the reference is recorded; judge what is there
                check_final(tree, ref, violate, hist)
                col.outcome("final", cfg["mode"], cfg["batch"])
                continue
            rnd = prepare_input(sb, cfg, tree)
            protected = complete_steps(tree, ref)
            base = sb.execute(tree, None)
            max_crashes = cfg.get("max_crashes")
            crashes_so_far = sum(1 for lab in hist if lab.startswith("crash@"))
            plans = crash_plans(base, all_launches=max_crashes is not None) if max_crashes is None or crashes_so_far < max_crashes else []
            for pl in [None] + plans:
                r = base if pl is None else sb.execute(tree, pl)
                col.evaluations += 1
                col.transitions += 1
                h2 = hist + [plan_label(pl) if pl is not None else f"run(round {rnd})"]
                if pl is not None and r["outcome"] != "crash":
                    continue  # the interruption point was not reached on this path
                bad = False
                if r["outcome"] == "error":
                    violate("error", f"re-running the script fails with {r['error']} instead of progressing or naming a directory", h2)
                    bad = True
                if r["outcome"] == "outside":
                    violate("launch-outside-outdir", r["error"], h2)
                    bad = True
                if r["outcome"] == "runaway":
                    violate("never-finishes", f"the script does not come to an end ({r['error']}): steps are executed again and again", h2)
                    bad = True
                b2, ever = judge_launches(sb, cfg, r, ref, violate, h2, protected)
                bad = bad or b2
                new_tree = r["tree"]
                if r["outcome"] == "advice":
                    adv = r["advice"]
                    victims = [k for k in new_tree if k == adv or k.startswith(adv + "/")]
                    if not victims:
                        violate("advice-nonexistent", f"the script advises deleting {adv}, which does not exist", h2)
                        bad = True
                    new_tree = {k: v for k, v in new_tree.items() if k not in victims}
                    h2 = h2 + [f"delete {adv}"]
                done_after = complete_steps(new_tree, ref)
                lost = ever - done_after
                if lost:
                    violate("completed-step-deleted", f"completed step(s) {sorted(lost)} lost files", h2)
                    bad = True
                for st in protected & done_after:
                    if any(new_tree.get(k) != tree.get(k) for k in ref["files"][st]):
                        violate("completed-step-modified", f"a file of completed step {st} changed", h2)
                        bad = True
                if r["outcome"] == "crash" and norm_tree(new_tree) != norm_tree(tree):
                    col.nontriv(json.dumps(cfg, sort_keys=True), repr(sorted(norm_tree(new_tree), key=repr)))
                if r["outcome"] == "done":
                    finished = cfg["mode"] == "retrospective" or current_round(cfg, new_tree) >= rounds
                    if finished:
                        check_final(new_tree, ref, violate, h2)
                        col.outcome("final", cfg["mode"], cfg["batch"])
                        continue
                    if norm_tree(new_tree) == norm_tree(tree) and not r["launches"]:
                        violate("no-progress", "the script returned without launching anything or changing the tree", h2)
                        continue
                if bad:
                    continue  # do not explore beyond a violating transition
                key = norm_tree(new_tree)
                if key in seen:
                    continue
                if len(seen) >= cap:
                    col.cap(f"state cap {cap} hit for {cfg}")
                    continue
                seen[key] = h2
                col.states += 1
                col.outcome(json.dumps(cfg, sort_keys=True), hash(key))
                frontier.append((new_tree, h2))
        col.count("configs")
        col.count("reference_steps", len(ref["launches"]))
        col.sample({"cfg": cfg, "reference_launches": [{"step": list(st), **{k: v for k, v in L.items() if k in ("mode", "excludes", "initialize", "reveal", "outdir")}}
                                                         for st, L in sorted(ref["launches"].items())][:4],
                    "states": len(seen), "example_history": max(seen.values(), key=len)[:8]})
    finally:
        sb.close()


def essential(tree):
    """The outputs the property speaks about: the recorded selection, the screen handed to
    the successor, the thetas / distance chunks later plates of the batch read, the
    metadata.  Model-evaluation reports are side outputs the statement does not mention."""
    return {k: v for k, v in strip_work(tree).items() if v is not None and "model_evaluation" not in k}


def check_final(tree, ref, violate, hist):
    a, b = essential(tree), essential(ref["tree"])
    missing = sorted(k for k in b if k not in a and STEP_RE.match(k))
    differ = sorted(k for k in b if k in a and a[k] != b[k])
    extra = sorted(k for k in a if k not in b and k.endswith("selected_plate"))
    if missing or differ or extra:
        violate("final-tree", f"at quiescence the recorded steps differ from the uninterrupted run: missing {missing[:5]}, "
                              f"extra selections {extra[:5]}, different {differ[:5]}", hist)


# ------------------------------------------------------------------ plan / run
# long runs (two-digit iteration directories), crash-bounded: every interruption point of every launch of the whole run,
# at most max_crashes interruptions per history, then re-runs (and advised deletions) to quiescence
DEEP = [{"mode": "retrospective", "batch": 1, "plates": 13, "chains": 1, "chunks": 1, "max_crashes": 1},
        {"mode": "retrospective", "batch": 2, "plates": 23, "chains": 1, "chunks": 1, "max_crashes": 1}]


# environment of the invocation: relative --screen / --outdir from another working directory, and an output directory
# whose own path contains pieces that look like step directories (plate_384/iter_7_run/out)
ODD = [{"mode": "retrospective", "batch": 2, "plates": 4, "chains": 1, "chunks": 1, "relative": True, "odd_path": True},
       {"mode": "prospective", "batch": 2, "plates": 6, "chains": 1, "chunks": 1, "iterations": 2, "relative": True, "odd_path": True},
       {"mode": "retrospective", "batch": 1, "plates": 3, "chains": 1, "chunks": 1, "relative": True}]


# plate id 0 is NOT the initially observed plate, so some step selects id 0 (a falsy number, the first line of a listing)
ZERO_LATE = [{"mode": "retrospective", "batch": 2, "plates": 4, "chains": 1, "chunks": 1, "initial": 3},
             {"mode": "prospective", "batch": 2, "plates": 5, "chains": 1, "chunks": 1, "iterations": 2, "initial": 2, "listing": "desc"},
             {"mode": "retrospective", "batch": 1, "plates": 3, "chains": 1, "chunks": 1, "initial": 1, "listing": "asc"}]


def configs(tier):
    out = []
    if tier == "quick":
        for (b, p, c, k) in [(1, 3, 1, 1), (2, 4, 1, 1), (3, 5, 1, 1), (2, 3, 2, 2)]:
            out.append({"mode": "retrospective", "batch": b, "plates": p, "chains": c, "chunks": k})
        for (b, it, c, k) in [(1, 2, 1, 1), (2, 2, 1, 1), (3, 2, 1, 1), (2, 2, 2, 2)]:
            out.append({"mode": "prospective", "batch": b, "plates": 2 + b * it, "chains": c, "chunks": k, "iterations": it})
        out += DEEP[:1]
        out += ODD
        out += ZERO_LATE
    else:
        for b in (1, 2, 3, 4):
            for p in (2, 3, 4, 5):
                for (c, k) in ((1, 1), (2, 2)):
                    if (c, k) == (2, 2) and p > 3:
                        continue
                    out.append({"mode": "retrospective", "batch": b, "plates": p, "chains": c, "chunks": k})
            for (c, k) in ((1, 1), (2, 2)):
                out.append({"mode": "prospective", "batch": b, "plates": 2 + 2 * b, "chains": c, "chunks": k, "iterations": 2})
        out.append({"mode": "retrospective", "batch": 11, "plates": 13, "chains": 1, "chunks": 1})
        out += DEEP
        out += ODD
        out += ZERO_LATE
        out.append({"mode": "retrospective", "batch": 3, "plates": 5, "chains": 1, "chunks": 1, "initial": 4})
    return out


def plan(tier, seed):
    return [{"cfg": c} for c in configs(tier)] + [{"conformance": True}]


def run_item(item, col, tier):
    if item.get("conformance"):
        nfdag.conformance(col)
        return
    src = nfdag.dag_source(col)
    explore_config(item["cfg"], col, tier, src)


def replay(case, col):
    cfg = case["cfg"]
    src = nfdag.dag_source(col)
    sb = Sandbox(cfg, src)
    try:
        try:
            ref = reference(sb, cfg)
        except ReferenceFailure as rf:
            print("uninterrupted run:", rf.msg)
            col.violation(f"C19|{rf.sig}|{cfg['mode']}", rf.msg, case)
            col.evaluations += 1
            return
        print("reference launches:")
        for st, L in sorted(ref["launches"].items()):
            print("  ", st, {k: v for k, v in L.items() if v is not None and k not in ("thetas", "distance_matrix")})
        tree = {}
        rounds = 1 if cfg["mode"] == "retrospective" else cfg["iterations"]

        def violate(sig, msg, hist):
            col.violation(f"C19|{sig}|{cfg['mode']}", msg, case)

        for label in case["history"]:
            if label.startswith("delete "):
                adv = label[len("delete "):]
                tree = {k: v for k, v in tree.items() if not (k == adv or k.startswith(adv + "/"))}
                print("user deletes", adv)
                continue
            pl = parse_label(label)
            rnd = prepare_input(sb, cfg, tree)
            protected = complete_steps(tree, ref)
            r = sb.execute(tree, pl)
            print(f"{label}: outcome={r['outcome']} advice={r['advice']} error={r['error']} launches="
                  f"{[(step_of_outdir(sb.root, L['outdir']), L['mode'], L['excludes']) for L in r['launches']]}")
            if r["outcome"] == "error":
                violate("error", r["error"], [])
            if r["outcome"] == "runaway":
                violate("never-finishes", r["error"], [])
            if r["outcome"] == "outside":
                violate("launch-outside-outdir", r["error"], [])
            _, ever = judge_launches(sb, cfg, r, ref, violate, [], protected)
            new_tree = r["tree"]
            lost = ever - complete_steps(new_tree if r["outcome"] != "advice" else {k: v for k, v in new_tree.items() if not (k == r["advice"] or k.startswith(r["advice"] + "/"))}, ref)
            if lost:
                violate("completed-step-deleted", f"lost {sorted(lost)}", [])
            tree = new_tree
            if r["outcome"] == "done" and (cfg["mode"] == "retrospective" or current_round(cfg, tree) >= rounds):
                check_final(tree, ref, violate, [])
        col.evaluations += 1
        print("final tree:")
        for k in sorted(strip_work(tree)):
            print("   ", k)
    finally:
        sb.close()
