"""C11  Retrospective preparation conserves experiments; the hold-out split partitions."""
from . import retro

PROP = "C11"
LEVEL = "model_checking"
RULE = (
    "every shipped generator / smoother / hold-out x every parameter setting x every plate layout "
    "(<=3 samples, <=3 plates per sample, sizes 1..3, bounded total rows, with and without an observed plate, "
    "duplicate conditions with distinct observation values, single-agent rows) x the FULL answer tree of the "
    "scripted random source; an execution is non-trivial (and counted once per distinct output) when the "
    "operation changed the rows/plates or took >= 1 non-default random answer"
)
BOUNDS = {
    "quick": {"max_unobserved_rows": 5, "samples": 3, "plates_per_sample": 3, "leaf_cap_per_item": retro.LEAF_CAP,
              "fractions": retro.FRACTIONS},
    "thorough": {"max_unobserved_rows": 6, "samples": 3, "plates_per_sample": 3, "leaf_cap_per_item": retro.LEAF_CAP,
                 "fractions": retro.FRACTIONS},
}
ASSUMPTIONS = [
    "observation values are distinct per row, so a swapped / duplicated / altered experiment is visible",
    "an exception from the operation is a refusal ('whenever it returns'), counted but not judged",
    "non-dyadic hold-out fractions accept ceil of the float product and of the exact product",
]


def plan(tier, seed):
    return retro.plan(tier, PROP)


def run_item(item, col, tier):
    retro.run_item(PROP, item, col)


def replay(case, col):
    retro.replay(PROP, case, col)
