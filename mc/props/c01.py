"""C01  Screen identifiers are a faithful, dense encoding of names and doses.

Engine E1: every input of an explicitly bounded space is built and handed to the real
`Screen` constructor (and, more cheaply, to the two encoders it is made of); the result
is compared with a dictionary model written here.  Nothing is sampled.
"""
import itertools
import os

import numpy as np

from .. import env

env.setup()

from ..core import digest, exception_origin_in_repo, short_exc  # noqa: E402

from batchie.data import (  # noqa: E402
    ExperimentSpace,
    Screen,
    encode_1d_array_to_0_indexed_ids,
    encode_treatment_arrays_to_0_indexed_ids,
)

PROP = "C01"
EPILOGUE_ITEMS = 2
LEVEL = "model_checking"
ENGINE = "E1-input-enumeration"
TECHNIQUE = "bounded-exhaustive enumeration of screens / encoder inputs against a dictionary reference model"
LEVEL_TEXT = (
    "every screen (and encoder input) inside the stated alphabets and sizes is constructed with the real code and "
    "its ids / mappings / experiment-space sizes are compared with a plain dictionary model; exhaustive inside the "
    "bounds, small-scope argument outside them"
)
RULE = (
    "inputs = all row-major fillings of an (n rows x arity) table with cells (name, dose) of a named alphabet, under "
    "each control name; sample and plate name vectors cycle through ALL pairs of vectors over 4 strings (paired with "
    "the cell index, not multiplied); supplied-mapping inputs = (every non-empty sub-list R of the rows of S, the "
    "mappings batchie produced for S) plus the rejection families (mapping of S minus a row that carries a unique "
    "condition / sample; S's own mapping with ids shifted, gapped, or made non-integral).  A case is non-trivial when "
    "its cells hold both a control and a non-control condition, or a repeated condition, or a mapping is supplied; "
    "its class is (family, arity, rows, mapping kind, per-cell (sort rank of (name,dose), is-control) pattern).  "
    "Outcome = the id arrays returned, or the refusal."
)

CTL = -1

# ------------------------------------------------------------------ alphabets
ALPHA = {
    # the design's quick alphabet
    "A9": [(n, d) for n in ("", "a", "ctl") for d in (0.0, 1.0, 2.0)],
    # doses the statement names: negative, negative zero, subnormal
    "D12": [(n, d) for n in ("", "a", "ctl") for d in (-1.0, -0.0, 5e-324, 1.0)],
    "S3": [("a", 1.0), ("ctl", 2.0), ("", 0.0)],
    "S4": [("", 0.0), ("a", 1.0), ("a", 2.0), ("ctl", 1.0)],
    "S5": [("", 0.0), ("a", 1.0), ("a", 2.0), ("ctl", 1.0), ("ctl", 0.0)],
    # thorough: 4 names (one non-ASCII) x 6 doses
    "T24": [(n, d) for n in ("", "a", "ctl", "é药") for d in (-1.0, -0.0, 0.0, 5e-324, 1.0, 2.0)],
}
# derived screens: names that differ only in surrounding blanks, a named control at a positive dose
ALPHA["L6"] = [(n, d) for n in ("x", "x ", "ctl") for d in (0.0, 1.0)]
ALPHA["L4"] = [("x", 1.0), ("x ", 1.0), ("ctl", 1.0), ("x", 0.0)]
# supplied mappings: a SECOND name that has a dose the first name lacks (a mapping from which (b, 2) was dropped knows the name b
# and the dose 1, but not the dose 2)
# both spellings of a zero dose next to each other (they are the same dose: one condition, one id)
ALPHA["Z6"] = [(n, d) for n in ("a", "") for d in (0.0, -0.0, 1.0)]
# names that are different strings but equal as numbers / in another order as numbers than as strings
NUM4 = ["1", "01", "10", "9"]
ALPHA["M4"] = [("a", 1.0), ("b", 1.0), ("b", 2.0), ("", 0.0)]
ALPHA["M6"] = [("a", 1.0), ("a", 2.0), ("b", 1.0), ("b", 2.0), ("b", 3.0), ("", 0.0)]
DERIVED_NAMES = ["s", "s ", " s"]
DERIVED_OPS = ["reload", "mask", "unmask", "random-holdout", "balanced-holdout", "reveal", "to-screen", "combine"]
# control names that are not plain words: regular-expression metacharacters, and names that differ from a drug's name only by case
# or by what such a metacharacter would match.  (control name, look-alike drug name)
CONTROL_LOOKALIKES = [("a.c", "abc"), ("ctl+", "ctll"), ("(ctl)", "ctl"), ("c[t]l", "ctl"), ("CTL", "ctl"), ("ctl", "Ctl"), ("ct*", "c"), ("^ctl$", "ctl")]
CONTROLS = ["", "ctl"]
NAMES4 = ["", "ctl", "s", "é2"]  # sample / plate names: empty, the control name, ASCII, non-ASCII

BOUNDS = {
    "quick": {
        "screens_no_mapping": [
            "arity1 rows<=3 over A9 (3 names x doses 0,1,2)",
            "arity2 rows<=2 over A9 (81^2 ordered screens)",
            "arity3 1 row over A9; 2 rows over S3 (3 cells)",
            "arity1 rows<=2 over D12 (doses -1,-0.0,5e-324,1)",
        ],
        "treatment_encoder_direct": "all arrays of length<=3 over D12",
        "encoder_1d_direct": "all arrays of length<=4 over 4 strings (and over the numeric look-alikes '1', '01', '10', '9'); all sub-lists of arrays of length<=3 with the superset mapping",
        "zero_dose_spellings": "arity1 rows<=3 and arity2 1 row over {a, ''} x doses {0.0, -0.0, 1.0}; the treatment encoder directly on all arrays of length<=3 over them",
        "supplied_mapping": "S = arity1 rows<=3 over S4, arity2 2 rows over S3, arity1 3 rows over M4 (two names, the second with a dose the first lacks); every non-empty sub-list; both rejection families",
        "control_names": CONTROLS,
        "control_names_with_lookalikes": "8 (control name, look-alike drug name) pairs - regular-expression metacharacters in the control name, case variants - x all screens "
                                         "arity1 rows<=2 and arity2 1 row over {control, look-alike, 'z'} x doses {0, 1}",
        "sample_plate_names": NAMES4,
        "memory": "every no-mapping screen also column-major (arity >= 2); read-only and big-endian arrays on the deterministic third of the cases whose digest is divisible by 3",
        "many_ids": "sparse probes with exactly n distinct samples / plates / conditions, n in {127..129, 200, 255..257, 32767..32769, 65535..65537}",
        "derived_screens": "arity1 rows<=3 over L6 (names 'x', 'x ' (trailing blank), 'ctl' x doses 0,1) and arity2 2 rows over L4, sample names "
                           "over 's','s ',' s', two plates: the screens that save/load, mask, unmask, both hold-out splits (fractions 0.5 and 1), "
                           "reveal, sub-view to_screen and combine return are judged like constructed ones, against their own names and their own control name",
        "merge_histories": "3 plate layouts (3-4 plates, interleaved rows): every sequence of <= 2 merges (<= 3 for 3 plates) of ordered plate pairs, with fresh and with stale plate handles; sequences of <= 2 merges also with one / two plates already observed (a refused merge leaves a consistent screen)",
    },
    "thorough": {
        "screens_no_mapping": [
            "everything of quick",
            "arity2 3 rows over A9: all multisets of rows, in given and reversed order",
            "arity3 2 rows over S5 (5 cells)",
            "arity1 rows<=2 and arity2 1 row over T24 (4 names x 6 doses)",
        ],
        "treatment_encoder_direct": "all arrays of length<=3 over D12 and over T24",
        "encoder_1d_direct": "as quick",
        "supplied_mapping": "quick + S = arity1 rows<=3 over S5, arity2 2 rows over S4, arity3 2 rows over S3, arity1 rows 2-3 over M6",
        "control_names": CONTROLS,
        "sample_plate_names": NAMES4,
    },
}
ASSUMPTIONS = [
    "doses are compared numerically (-0.0 == 0.0): both are controls, which of the two spellings the mapping keeps is a don't-care",
    "an exception while constructing a screen WITHOUT a supplied mapping is a refusal ('every screen that can be constructed')",
    "a supplied mapping that batchie produced for a superset of the data (same control name) must be accepted: the statement "
    "allows rejection only for a mapping that does not cover the data or is not dense",
    "a float id array with integral dense values is a don't-care (recorded as an outcome, never judged); a float array with "
    "non-integral values, ids starting at 1 and ids with a gap must be rejected",
    "sample / plate ids are judged as 'dense range, equal iff equal name'; that the un-supplied sample / plate mapping decodes them "
    "is not demanded by the statement (C02 compares reloaded ids with the original ones)",
    "sample and plate name vectors are paired with the cell enumeration (all pairs of vectors occur, not all triples "
    "cells x sample vector x plate vector); the 1-D encoder that produces both is enumerated exhaustively on its own",
    "DESIGN deviations: quick arity-3 two-row screens use a 3-cell (not 4-cell) sub-alphabet, thorough uses 5 cells instead of "
    "the complete 9 (9^6 x 2 screens is out of budget); supplied-mapping families use the sub-alphabets S3/S4/S5",
    "dense mappings not produced by batchie (e.g. all ids + 1, control becomes 0) are outside the quantifier and not used",
]

CHUNK = 250  # screens per work item (~2-3 s)


# ------------------------------------------------------------------ enumeration helpers
def _digits(i, base, n):
    out = []
    for _ in range(n):
        out.append(i % base)
        i //= base
    return out[::-1]


def _name_vectors(n):
    return list(itertools.product(NAMES4, repeat=n))


_NV = {n: _name_vectors(n) for n in (1, 2, 3)}


def _names_for(i, n):
    """i-th (sample vector, plate vector): cycles through all pairs of vectors."""
    v = _NV[n]
    q = i % (len(v) * len(v))
    return list(v[q % len(v)]), list(v[q // len(v)])


def screen_spec(alpha, arity, n, i):
    """The i-th n x arity screen over the alphabet (row-major digits of i)."""
    cells = ALPHA[alpha]
    d = _digits(i, len(cells), n * arity)
    tn = [[cells[d[r * arity + c]][0] for c in range(arity)] for r in range(n)]
    td = [[cells[d[r * arity + c]][1] for c in range(arity)] for r in range(n)]
    sn, pn = _names_for(i, n)
    return {"tn": tn, "td": td, "sn": sn, "pn": pn}


def sub_spec(spec, idx):
    return {k: [spec[k][j] for j in idx] for k in ("tn", "td", "sn", "pn")}


def _chunks(total, size=CHUNK):
    return [(lo, min(total, lo + size)) for lo in range(0, total, size)]


# ------------------------------------------------------------------ plan
def plan(tier, seed):
    items = []

    def screens(alpha, arity, n, chunk=CHUNK):
        total = len(ALPHA[alpha]) ** (arity * n)
        for c in CONTROLS:
            for lo, hi in _chunks(total, chunk):
                items.append({"k": "screen", "alpha": alpha, "arity": arity, "rows": n, "control": c, "lo": lo, "hi": hi})

    def enct(alpha, length):
        total = len(ALPHA[alpha]) ** length
        for c in CONTROLS:
            for lo, hi in _chunks(total, 1000):
                items.append({"k": "enct", "alpha": alpha, "len": length, "control": c, "lo": lo, "hi": hi})

    def mapping(alpha, arity, n, chunk):
        total = len(ALPHA[alpha]) ** (arity * n)
        for c in CONTROLS:
            for lo, hi in _chunks(total, chunk):
                items.append({"k": "mapping", "alpha": alpha, "arity": arity, "rows": n, "control": c, "lo": lo, "hi": hi})

    items.append({"k": "enc1d"})
    for li in range(len(MERGE_LAYOUTS)):
        items.append({"k": "merge", "layout": li})
    items.append({"k": "manyids", "ns": [127, 128, 129, 200, 255, 256, 257]})
    items.append({"k": "manyids", "ns": [32767, 32768, 32769]})
    items.append({"k": "manyids", "ns": [65535, 65536, 65537]})
    for arity, n, alpha in ((1, 1, "L6"), (1, 2, "L6"), (1, 3, "L6"), (2, 2, "L4")):
        total = len(ALPHA[alpha]) ** (arity * n)
        for c in CONTROLS:
            for lo, hi in _chunks(total, 40):
                items.append({"k": "derived", "alpha": alpha, "arity": arity, "rows": n, "control": c, "lo": lo, "hi": hi})
    for ci in range(len(CONTROL_LOOKALIKES)):
        items.append({"k": "ctlname", "pair": ci, "control": CONTROL_LOOKALIKES[ci][0]})
    for n in (1, 2, 3):
        screens("Z6", 1, n)
    screens("Z6", 2, 1)
    for length in (1, 2, 3):
        enct("Z6", length)
    items.append({"k": "enc1d", "names": "NUM4"})
    for n in (1, 2, 3):
        screens("A9", 1, n)
    for n in (1, 2):
        screens("A9", 2, n)
    screens("A9", 3, 1)
    screens("S3", 3, 2)
    for n in (1, 2):
        screens("D12", 1, n)
    for length in (1, 2, 3):
        enct("D12", length)
    for n in (1, 2, 3):
        mapping("S4", 1, n, 16)
    mapping("S3", 2, 2, 27)
    mapping("M4", 1, 3, 16)

    if tier == "thorough":
        for n in (2, 3):
            mapping("M6", 1, n, 27)
        total = sum(1 for _ in itertools.combinations_with_replacement(range(81), 3))
        for c in CONTROLS:
            for order in ("given", "reversed"):
                for lo, hi in _chunks(total, 600):
                    items.append({"k": "screen3", "control": c, "order": order, "lo": lo, "hi": hi})
        screens("S5", 3, 2, 600)
        for n in (1, 2):
            screens("T24", 1, n)
        screens("T24", 2, 1)
        for length in (1, 2, 3):
            enct("T24", length)
        for n in (1, 2, 3):
            mapping("S5", 1, n, 25)
        mapping("S4", 2, 2, 32)
        mapping("S3", 3, 2, 27)
    return items


# ------------------------------------------------------------------ reference model
def is_control(name, dose, control):
    return name == control or dose <= 0


def _int_list(a):
    """ids as python ints, or None when some value is not a finite integer."""
    out = []
    for x in np.asarray(a).ravel().tolist():
        if isinstance(x, bool):
            return None
        if isinstance(x, int):
            out.append(x)
        elif isinstance(x, float) and x == x and abs(x) != float("inf") and x == int(x):
            out.append(int(x))
        else:
            return None
    return out


def pattern(cells, control):
    keys = sorted({(n, float(d)) for n, d in cells})
    rank = {k: i for i, k in enumerate(keys)}
    return tuple((rank[(n, float(d))], is_control(n, d, control)) for n, d in cells)


def is_nontrivial(cells, control):
    ctl = [is_control(n, d, control) for n, d in cells]
    return (any(ctl) and not all(ctl)) or len({(n, float(d)) for n, d in cells}) < len(cells)


def judge_treatments(cells, ids, mapping, control, supplied, need_dense):
    """cells: list of (name, dose) in the order of ids (flat).  mapping: (names, doses, ids) arrays of the result.
    supplied: the mapping handed in (same triple) or None.  Returns list of (sig, message)."""
    bad = []
    tid = _int_list(ids)
    if tid is None or len(tid) != len(cells):
        return [("C01|treatment|ids-malformed", f"treatment ids {np.asarray(ids).tolist()!r} are not one integer per cell")]
    mn = [str(x) for x in np.asarray(mapping[0]).tolist()]
    md = [float(x) for x in np.asarray(mapping[1]).tolist()]
    mi = _int_list(mapping[2])
    if mi is None or not (len(mn) == len(md) == len(mi)):
        return [("C01|mapping|malformed", "treatment mapping is not three parallel arrays with integer ids")]

    # (ii) sentinel <=> control name or non-positive dose  (cells and mapping rows)
    for (n, d), t in zip(cells, tid):
        if (t == CTL) != is_control(n, d, control):
            bad.append(("C01|treatment|control-sentinel",
                        f"cell ({n!r}, {d!r}) got id {t} with control name {control!r}"))
            break
    for n, d, t in zip(mn, md, mi):
        if (t == CTL) != is_control(n, d, control):
            bad.append(("C01|mapping|control-sentinel",
                        f"mapping row ({n!r}, {d!r}) carries id {t} with control name {control!r}"))
            break
    # (i) decode
    for (n, d), t in zip(cells, tid):
        rows = [r for r in range(len(mn)) if mn[r] == n and md[r] == d]
        if not rows:
            bad.append(("C01|treatment|decode", f"cell ({n!r}, {d!r}) (id {t}) has no row in the treatment mapping"))
            break
        if any(mi[r] != t for r in rows):
            bad.append(("C01|treatment|decode",
                        f"cell ({n!r}, {d!r}) has id {t} but its mapping row(s) carry {[mi[r] for r in rows]}"))
            break
        if t != CTL:
            owners = [r for r in range(len(mi)) if mi[r] == t]
            if len(owners) != 1:
                bad.append(("C01|treatment|decode-ambiguous",
                            f"non-control id {t} belongs to {len(owners)} mapping rows {[(mn[r], md[r]) for r in owners]}"))
                break
    # (iii) equal ids iff equal (name, dose), dense when batchie chose the numbering
    by_key, by_id = {}, {}
    for (n, d), t in zip(cells, tid):
        if is_control(n, d, control) or t == CTL:
            continue
        k = (n, float(d))
        if by_key.setdefault(k, t) != t:
            bad.append(("C01|treatment|injective", f"condition {k} received two ids {by_key[k]} and {t}"))
            break
        if by_id.setdefault(t, k) != k:
            bad.append(("C01|treatment|injective", f"id {t} is shared by {by_id[t]} and {k}"))
            break
    if need_dense:
        want = {(n, float(d)) for n, d in cells if not is_control(n, d, control)}
        used = sorted({t for t in tid if t != CTL})
        if used != list(range(len(want))):
            bad.append(("C01|treatment|dense",
                        f"non-control ids used are {used}, expected 0..{len(want) - 1} for {len(want)} distinct conditions"))
    if supplied is not None:
        sn_ = [str(x) for x in np.asarray(supplied[0]).tolist()]
        sd_ = [float(x) for x in np.asarray(supplied[1]).tolist()]
        si_ = _int_list(supplied[2])
        if (mn, md, mi) != (sn_, sd_, si_):
            bad.append(("C01|mapping|not-verbatim", "the supplied treatment mapping was not stored verbatim"))
        ref = {(n, d): t for n, d, t in zip(sn_, sd_, si_)}
        for (n, d), t in zip(cells, tid):
            if ref.get((n, float(d))) != t:
                bad.append(("C01|mapping|not-followed",
                            f"cell ({n!r}, {d!r}) got id {t}, the supplied mapping says {ref.get((n, float(d)))}"))
                break
    return bad


def judge_1d(names, ids, what, supplied=None, result_mapping=None):
    bad = []
    sid = _int_list(ids)
    if sid is None or len(sid) != len(names):
        return [(f"C01|{what}|ids-malformed", f"{what} ids {np.asarray(ids).tolist()!r} are not one integer per row")]
    by_key, by_id = {}, {}
    for n, t in zip(names, sid):
        if by_key.setdefault(n, t) != t:
            bad.append((f"C01|{what}|injective", f"{what} name {n!r} received two ids"))
            break
        if by_id.setdefault(t, n) != n:
            bad.append((f"C01|{what}|injective", f"{what} id {t} is shared by {by_id[t]!r} and {n!r}"))
            break
    if supplied is None:
        if sorted(set(sid)) != list(range(len(set(names)))):
            bad.append((f"C01|{what}|dense", f"{what} ids used are {sorted(set(sid))} for {len(set(names))} distinct names"))
    else:
        sn_ = [str(x) for x in np.asarray(supplied[0]).tolist()]
        si_ = _int_list(supplied[1])
        ref = dict(zip(sn_, si_))
        for n, t in zip(names, sid):
            if ref.get(n) != t:
                bad.append((f"C01|mapping|{what}-not-followed", f"{what} {n!r} got id {t}, the supplied mapping says {ref.get(n)}"))
                break
        if result_mapping is not None:
            rn = [str(x) for x in np.asarray(result_mapping[0]).tolist()]
            ri = _int_list(result_mapping[1])
            if (rn, ri) != (sn_, si_):
                bad.append((f"C01|mapping|{what}-not-verbatim", f"the supplied {what} mapping was not stored verbatim"))
    return bad


# ------------------------------------------------------------------ building real objects
def arrays(spec):
    n = len(spec["tn"])
    arity = len(spec["tn"][0])
    tn = np.array(spec["tn"], dtype=str).reshape(n, arity)
    td = np.array(spec["td"], dtype=float).reshape(n, arity)
    sn = np.array(spec["sn"], dtype=str)
    pn = np.array(spec["pn"], dtype=str)
    return tn, td, sn, pn


def _layout(a, memory):
    if memory == "F" and a.ndim == 2:
        return np.asfortranarray(a)
    if memory == "strided":
        return np.repeat(a, 2, axis=0)[::2]
    if memory == "readonly":
        a = a.copy()
        a.flags.writeable = False
        return a
    if memory == "bigendian":
        # same values in non-native byte order (what a file written on another platform / an HDF5 '>f8' dataset gives)
        return a.astype(a.dtype.newbyteorder(">")) if a.dtype.kind in "fU" else a
    return a


def build(spec, control, treatment_mapping=None, sample_mapping=None, memory=None, **kw):
    tn, td, sn, pn = (_layout(a, memory) for a in arrays(spec))
    return Screen(
        treatment_names=tn,
        treatment_doses=td,
        sample_names=sn,
        plate_names=pn,
        control_treatment_name=control,
        treatment_mapping=treatment_mapping,
        sample_mapping=sample_mapping,
        **kw,
    )


def judge_screen(spec, control, s, supplied_t=None, supplied_s=None):
    """All oracles of the statement on one constructed screen."""
    n = len(spec["tn"])
    arity = len(spec["tn"][0])
    bad = []
    tids = np.asarray(s.treatment_ids)
    if tids.shape != (n, arity):
        return [("C01|treatment|shape", f"treatment_ids has shape {tids.shape}, the screen has {n} rows of arity {arity}")]
    cells = [(spec["tn"][r][c], spec["td"][r][c]) for r in range(n) for c in range(arity)]
    bad += judge_treatments(cells, tids.ravel(), s.treatment_mapping, control, supplied_t, need_dense=supplied_t is None)
    bad += judge_1d(spec["sn"], s.sample_ids, "sample", supplied_s, s.sample_mapping if supplied_s is not None else None)
    bad += judge_1d(spec["pn"], s.plate_ids, "plate")
    # (iv) experiment-space sizes strictly bound every id
    es = ExperimentSpace.from_screen(s)
    nt, ns = int(es.n_unique_treatments), int(es.n_unique_samples)
    t_all = _int_list(tids)
    s_all = _int_list(s.sample_ids)
    if t_all is not None and t_all and not nt > max(t_all):
        bad.append(("C01|space|treatment-bound", f"n_unique_treatments={nt} does not exceed the largest treatment id {max(t_all)}"))
    if s_all is not None and s_all and not ns > max(s_all):
        bad.append(("C01|space|sample-bound", f"n_unique_samples={ns} does not exceed the largest sample id {max(s_all)}"))
    m_all = _int_list(s.treatment_mapping[2])
    if m_all and not nt > max(m_all):
        bad.append(("C01|space|mapping-bound", f"n_unique_treatments={nt} does not exceed the largest mapping id {max(m_all)}"))
    sm_all = _int_list(s.sample_mapping[1])
    if sm_all and not ns > max(sm_all):
        bad.append(("C01|space|mapping-bound", f"n_unique_samples={ns} does not exceed the largest sample-mapping id {max(sm_all)}"))
    return bad


# ------------------------------------------------------------------ one case (shared by run_item and replay)
def _cells_of(spec):
    return [(n, d) for rn, rd in zip(spec["tn"], spec["td"]) for n, d in zip(rn, rd)]


def _flag(col, case, res, head):
    for sig, msg in res:
        col.violation(sig, f"{head}: {msg}", case)


def _describe(spec, control):
    rows = [[s, p, list(map(list, zip(tn, td)))] for tn, td, s, p in zip(spec["tn"], spec["td"], spec["sn"], spec["pn"])]
    return f"Screen(rows [sample, plate, cells]={rows}, control={control!r})"


def uncovered_by_drop(spec, control, j, which):
    """Does removing row j leave something of the full screen uncovered in that dimension?"""
    rest = [r for r in range(len(spec["tn"])) if r != j]
    if which == "sample":
        return spec["sn"][j] not in {spec["sn"][r] for r in rest}
    have = {(n, float(d)) for r in rest for n, d in zip(spec["tn"][r], spec["td"][r])}
    return any((n, float(d)) not in have for n, d in zip(spec["tn"][j], spec["td"][j]))


def nondense_variant(ids, how):
    ids = np.asarray(ids).copy()
    nc = ids != CTL
    if how == "shift":
        ids[nc] += 1
        return ids
    if how == "gap":
        ids[ids == ids.max()] += 1
        return ids
    if how == "half":
        return ids.astype(float) + 0.5
    if how == "float":
        return ids.astype(float)
    raise KeyError(how)


def nondense_applicable(ids, how):
    vals = sorted({int(x) for x in np.asarray(ids).tolist() if int(x) != CTL})
    if how == "shift":
        return len(vals) >= 1
    if how == "gap":
        return len(vals) >= 2
    return len(np.asarray(ids)) >= 1


# ------------------------------------------------------------------ plate ids of a live screen after Plate.merge
MERGE_LAYOUTS = [["p_a", "p_b", "p_c"], ["p_b", "p_a", "p_b", "p_c", "p_d"], ["x", "y", "z", "w", "y", "x"]]


def run_merge_case(case, col, verbose=False):
    """Plate.merge is the documented in-place mutation of a screen: after ANY sequence of merges (also a merge issued twice,
    or through a handle taken before an earlier merge) the plate ids are dense and equal exactly for equal plate names."""
    pn = MERGE_LAYOUTS[case["layout"]]
    n = len(pn)
    spec = {"tn": [["a", "b"] for _ in range(n)], "td": [[1.0, 1.0 + (i % 2)] for i in range(n)], "sn": [f"s{i % 2}" for i in range(n)], "pn": pn}
    observed = set(case.get("observed") or [])
    if observed:
        # some plates are already observed: a merge of an observed with an unobserved plate may be carried out or refused - either
        # way the screen is used afterwards, and its plate ids are dense and equal exactly for equal names
        s = build(spec, "", observations=np.array([0.1 * (i + 1) for i in range(n)]), observation_mask=np.array([x in observed for x in pn], dtype=bool))
    else:
        s = build(spec, "")
    handles = {str(p.plate_name): p for p in s.plates} if case["stale_handles"] else None
    col.evaluations += 1
    col.transitions += len(case["merges"])
    for a, b in case["merges"]:
        try:
            if handles is not None:
                pa, pb = handles[a], handles[b]
            else:
                cur = {str(p.plate_name): p for p in s.plates}
                if a not in cur or b not in cur:
                    col.refused += 1
                    return
                pa, pb = cur[a], cur[b]
            pa.merge(pb)
        except Exception as exc:  # noqa: BLE001
            if not exception_origin_in_repo(exc):
                raise
            col.refused += 1
            col.outcome("merge", "refused", type(exc).__name__)
            if not observed:
                return
            # (refused: the screen goes on being used - judged below like after a merge that was carried out)
        names = [str(x) for x in np.asarray(s.plate_names)]
        ids = [int(x) for x in np.asarray(s.plate_ids)]
        if verbose:
            print("after merge", (a, b), "names", names, "ids", ids)
        uniq = sorted(set(ids))
        if uniq != list(range(len(uniq))):
            col.violation("C01|merge|plate-not-dense", f"plates {pn}, merges {case['merges']}: plate ids {ids} are not the dense range 0..n-1", case)
            return
        for i in range(n):
            for j in range(i):
                if (names[i] == names[j]) != (ids[i] == ids[j]):
                    col.violation("C01|merge|plate-id-vs-name", f"plates {pn}, merges {case['merges']}: rows {j},{i} have names {names[j]!r},{names[i]!r} but ids {ids[j]},{ids[i]}", case)
                    return
        # the views agree with the ids
        for p in s.plates:
            sel = np.asarray(p.selection_vector, dtype=bool)
            if len({names[i] for i in np.flatnonzero(sel)}) != 1:
                col.violation("C01|merge|mixed-plate-view", f"plates {pn}, merges {case['merges']}: plate view {p.plate_id} selects rows of several plate names", case)
                return
    col.outcome("merge", tuple(np.asarray(s.plate_ids).tolist()))
    col.nontriv("merge", case["layout"], tuple(map(tuple, case["merges"])), case["stale_handles"])


def run_manyids_case(case, col, verbose=False):
    """Sparse probe: exactly n distinct samples, plates and (treatment, dose) conditions (n around 128 / 256 / 32768 / 65536,
    where an id array in a compact integer type would wrap).  Light vectorised judgement: dense, id <-> name one to one,
    every treatment id decodes through the mapping, the experiment-space sizes bound the ids."""
    n = case["n"]
    # (bijections of 0..n-1: reversed, rotated by n/3, rotated by 2n/3 - the names do not arrive in sorted order)
    sn = np.array([f"s{n - 1 - i:06d}" for i in range(n)], dtype=str)
    pn = np.array([f"p{(i + n // 3) % n:06d}" for i in range(n)], dtype=str)
    tn = np.array([[f"t{(i + 2 * n // 3) % n:06d}", "" if i % 5 == 0 else f"t{i:06d}"] for i in range(n)], dtype=str)
    td = np.array([[1.0, 0.0 if i % 5 == 0 else 2.0] for i in range(n)], dtype=float)
    col.evaluations += 1
    col.states += 1
    col.transitions += 1
    s = Screen(treatment_names=tn, treatment_doses=td, sample_names=sn, plate_names=pn, control_treatment_name="")
    for what, names, ids in (("sample", sn, np.asarray(s.sample_ids)), ("plate", pn, np.asarray(s.plate_ids))):
        ids = ids.astype(np.int64)
        if sorted(set(ids.tolist())) != list(range(n)):
            col.violation(f"C01|manyids|{what}-not-dense", f"{n} distinct {what} names: ids range from {ids.min()} to {ids.max()} ({len(set(ids.tolist()))} distinct), expected 0..{n - 1}", case)
            return
        order = np.argsort(names, kind="stable")
        if len(set(zip(names.tolist(), ids.tolist()))) != n:
            col.violation(f"C01|manyids|{what}-id-vs-name", f"{n} distinct {what} names: the relation name <-> id is not one to one", case)
            return
    tid = np.asarray(s.treatment_ids).astype(np.int64)
    mn, md, mi = (np.asarray(a) for a in s.treatment_mapping)
    look = {int(i): (str(a), float(b)) for a, b, i in zip(mn, md, mi) if int(i) >= 0}
    nonctl = tid[tid != -1]
    if sorted(set(nonctl.tolist())) != list(range(len(set(nonctl.tolist())))):
        col.violation("C01|manyids|treatment-not-dense", f"{n} rows: non-control treatment ids range from {nonctl.min()} to {nonctl.max()} ({len(set(nonctl.tolist()))} distinct)", case)
        return
    for i in range(n):
        for j in range(2):
            is_ctl = tn[i, j] == "" or td[i, j] <= 0
            if is_ctl != (tid[i, j] == -1) or (not is_ctl and look.get(int(tid[i, j])) != (str(tn[i, j]), float(td[i, j]))):
                col.violation("C01|manyids|treatment-decode", f"{n} rows: row {i} slot {j} ({tn[i, j]!r}, {td[i, j]}) carries id {int(tid[i, j])}, which decodes to {look.get(int(tid[i, j]))}", case)
                return
    es = ExperimentSpace.from_screen(s)
    if not (int(es.n_unique_samples) > int(np.asarray(s.sample_ids).astype(np.int64).max()) and int(es.n_unique_treatments) > int(tid.max())):
        col.violation("C01|manyids|space-bound", f"{n} rows: experiment-space sizes ({es.n_unique_samples}, {es.n_unique_treatments}) do not bound the ids", case)
        return
    col.outcome("manyids", n)
    col.nontriv("manyids", n)


def _own_spec(s):
    """The rows of a screen as the screen itself reports them."""
    return {"tn": np.asarray(s.treatment_names).tolist(), "td": np.asarray(s.treatment_doses).tolist(),
            "sn": np.asarray(s.sample_names).tolist(), "pn": np.asarray(s.plate_names).tolist()}


def derived_screens(s0, op):
    """Screens batchie itself builds from s0 (fully observed) with one library operation."""
    from batchie import retrospective as R

    if op == "reload":
        import tempfile

        fd, path = tempfile.mkstemp(prefix="c01re-", suffix=".h5", dir=env.SCRATCH_ROOT)
        os.close(fd)
        try:
            s0.save_h5(path)
            return [Screen.load_h5(path)]
        finally:
            if os.path.exists(path):
                os.remove(path)
    if op == "mask":
        return [R.mask_screen(s0)]
    if op == "unmask":
        return [R.unmask_screen(R.mask_screen(s0))]
    if op == "random-holdout":
        out = []
        for frac in (0.5, 1.0):
            out += list(R.create_random_holdout(s0, fraction=frac, rng=np.random.default_rng(3)))
        return out
    if op == "balanced-holdout":
        out = []
        for frac in (0.5, 1.0):
            out += list(R.create_plate_balanced_holdout_set_among_masked_plates(R.mask_screen(s0), fraction=frac, rng=np.random.default_rng(3)))
        return out
    if op == "reveal":
        return [R.reveal_plates(s0, R.mask_screen(s0), [0])]
    if op == "to-screen":
        return [s0.plates[0].to_screen(), s0.subset(np.arange(s0.size) == s0.size - 1).to_screen()]
    if op == "combine":
        pl = s0.plates
        return [pl[-1].to_screen().combine(pl[0].to_screen()), s0.combine(pl[0].to_screen())]
    raise KeyError(op)


def run_derived_case(case, col, verbose=False):
    spec, control = case["spec"], case["control"]
    n = len(spec["tn"])
    tn, td, sn, pn = arrays(spec)
    obs = 0.1 + 0.1 * np.arange(n)
    try:
        s0 = Screen(treatment_names=tn, treatment_doses=td, sample_names=sn, plate_names=pn, control_treatment_name=control,
                    observations=obs, observation_mask=np.ones(n, dtype=bool))
    except Exception as exc:  # noqa: BLE001
        col.refused += 1
        col.outcome("derived", "refused", type(exc).__name__)
        return
    col.evaluations += 1
    cells = _cells_of(spec)
    if is_nontrivial(cells, control):
        col.nontriv("derived", n, pattern(cells, control))
    for op in case.get("ops", DERIVED_OPS):
        col.transitions += 1
        try:
            outs = derived_screens(s0, op)
        except Exception as exc:  # noqa: BLE001
            if exception_origin_in_repo(exc) and not isinstance(exc, ValueError):
                col.violation(f"C01|derived|{op}|raised", f"{_describe(spec, control)}: {op} raised {short_exc(exc)}", dict(case, ops=[op]))
            else:
                col.refused += 1
                col.outcome("derived", op, "refused", type(exc).__name__)
            continue
        for which, s in enumerate(outs):
            col.evaluations += 1
            own = _own_spec(s)
            own_control = s.control_treatment_name
            col.outcome("derived", op, which, tuple(np.asarray(s.treatment_ids).ravel().tolist()), own_control == control)
            if not own["tn"]:
                continue
            # a derived screen may carry its parent's (larger) mappings: its ids follow its own mappings, which are dense themselves
            res = judge_screen(own, own_control, s, supplied_t=s.treatment_mapping, supplied_s=s.sample_mapping)
            for what, ids, floor in (("treatment", s.treatment_mapping[2], 1), ("sample", s.sample_mapping[1], 0)):
                got = _int_list(ids)
                nonctl = sorted(set(t for t in (got or []) if t != CTL or not floor))
                if got is None or nonctl != list(range(len(nonctl))):
                    res.append((f"C01|mapping|{what}-not-dense", f"the {what} mapping of the returned screen carries ids {got}"))
            head = f"{_describe(spec, control)} -> {op}[{which}] = {_describe(own, own_control)}"
            for sig, msg in res:
                col.violation(sig.replace("C01|", f"C01|derived|{op}|", 1), f"{head}: {msg}", dict(case, ops=[op]))
            if verbose:
                print(head, "->", res or "ok")


def run_merge_item(item, col):
    names = sorted(set(MERGE_LAYOUTS[item["layout"]]))
    pairs = [(a, b) for a in names for b in names if a != b]
    seqs = [[p] for p in pairs] + [[p, q] for p in pairs for q in pairs]
    if len(names) <= 3:
        seqs += [[p, q, r] for p in pairs for q in pairs for r in pairs]
    for seq in seqs:
        for stale in (False, True):
            col.states += 1
            run_merge_case({"kind": "merge", "layout": item["layout"], "merges": [list(x) for x in seq], "stale_handles": stale}, col)
    # ... and with one or two plates already observed (sequences of <= 2 merges, fresh handles)
    for obs in ([names[0]], [names[-1]], names[:2]):
        for seq in seqs:
            if len(seq) <= 2:
                col.states += 1
                run_merge_case({"kind": "merge", "layout": item["layout"], "merges": [list(x) for x in seq], "stale_handles": False, "observed": obs}, col)


def run_case(case, col, verbose=False):
    kind = case["kind"]
    if kind == "merge":
        return run_merge_case(case, col, verbose)
    if kind == "manyids":
        return run_manyids_case(case, col, verbose)
    if kind == "derived":
        return run_derived_case(case, col, verbose)
    control = case.get("control", "")
    if kind == "enc1d":
        names = case["names"]
        sup = None
        col.evaluations += 1
        col.transitions += 1
        try:
            if case.get("superset") is not None:
                _, mnames, mids = encode_1d_array_to_0_indexed_ids(np.array(case["superset"], dtype=str))
                col.evaluations += 1
                sup = (mnames, mids)
            ids, rn, ri = encode_1d_array_to_0_indexed_ids(np.array(names, dtype=str), existing_mapping=sup)
        except Exception as exc:  # noqa: BLE001
            if case.get("expect") == "reject":
                col.outcome("enc1d", "rejected")
                return
            if sup is not None:
                col.violation("C01|mapping|valid-rejected", f"1-D encoder refused a covering mapping: {short_exc(exc)}", case)
                return
            col.refused += 1
            col.outcome("enc1d", "refused", type(exc).__name__)
            return
        if case.get("expect") == "reject":
            col.violation("C01|mapping|uncovered-accepted",
                          f"1-D encoder accepted names {names} with a mapping for {case['superset']} and returned ids {np.asarray(ids).tolist()}", case)
            return
        col.outcome("enc1d", tuple(np.asarray(ids).tolist()))
        res = judge_1d(names, ids, "sample", sup, (rn, ri) if sup is not None else None)
        _flag(col, case, res, f"encode_1d_array_to_0_indexed_ids({names}, mapping of {case.get('superset')})")
        return

    if kind == "enct":
        cells = [tuple(c) for c in case["cells"]]
        col.evaluations += 1
        col.transitions += 1
        try:
            ids, mn, md, mi = encode_treatment_arrays_to_0_indexed_ids(
                np.array([c[0] for c in cells], dtype=str), np.array([c[1] for c in cells], dtype=float), control
            )
        except Exception as exc:  # noqa: BLE001
            col.refused += 1
            col.outcome("enct", "refused", type(exc).__name__)
            return
        col.outcome("enct", tuple(np.asarray(ids).tolist()))
        if is_nontrivial(cells, control):
            col.nontriv("enct", len(cells), pattern(cells, control))
        res = judge_treatments(cells, ids, (mn, md, mi), control, None, need_dense=True)
        _flag(col, case, res, f"encode_treatment_arrays_to_0_indexed_ids({cells}, control={control!r})")
        return

    # ---- screens
    spec = case["spec"]
    cells = _cells_of(spec)
    arity = len(spec["tn"][0])
    mp = case.get("mapping")
    if mp is None:
        col.evaluations += 1
        col.transitions += 1
        try:
            s = build(spec, control, memory=case.get("memory"))
        except Exception as exc:  # noqa: BLE001
            col.refused += 1
            col.outcome("screen", "refused", type(exc).__name__)
            return
        col.outcome("screen", tuple(np.asarray(s.treatment_ids).ravel().tolist()),
                    tuple(np.asarray(s.sample_ids).tolist()), tuple(np.asarray(s.plate_ids).tolist()))
        if is_nontrivial(cells, control):
            col.nontriv("screen", arity, len(spec["tn"]), None, pattern(cells, control))
        res = judge_screen(spec, control, s)
        if verbose:
            print("treatment_ids", np.asarray(s.treatment_ids).tolist(), "mapping", [np.asarray(x).tolist() for x in s.treatment_mapping])
            print("sample_ids", np.asarray(s.sample_ids).tolist(), "plate_ids", np.asarray(s.plate_ids).tolist())
        _flag(col, case, res, _describe(spec, control))
        # the same rows handed over as column-major / strided arrays must be encoded identically
        if case.get("memory") is None:
            mems = (("F", "strided") if _TIER["tier"] == "thorough" else ("F",)) if arity >= 2 and len(spec["tn"]) >= 2 else ()
            # ... and as read-only arrays / arrays in non-native byte order
            # (quick tier: on the deterministic third of the cases whose digest is divisible by 3; thorough: on all)
            extra = ("readonly", "bigendian") if _TIER["tier"] == "thorough" or int(digest(spec, control)[:6], 16) % 3 == 0 else ()
            for mem in mems + extra:
                col.evaluations += 1
                try:
                    s2 = build(spec, control, memory=mem)
                except Exception as exc:  # noqa: BLE001
                    col.violation("C01|layout|raised", f"{_describe(spec, control)} given as {mem} arrays: constructor raised {short_exc(exc)}", dict(case, memory=mem))
                    continue
                _flag(col, dict(case, memory=mem), judge_screen(spec, control, s2), _describe(spec, control) + f" (arrays in {mem} layout)")
        return

    # mapping cases: the mapping source is a real screen built by batchie
    src_spec = mp["source"]
    src = build(src_spec, control)  # refusal here cannot happen inside the quantifier; an exception is reported by the runner
    col.evaluations += 1
    tm, sm = src.treatment_mapping, src.sample_mapping
    mtype = mp["type"]
    if mp.get("source_other") is not None:
        other = build(mp["source_other"], control)
        col.evaluations += 1
        if mp["which"] == "treatment":
            sm = other.sample_mapping
        else:
            tm = other.treatment_mapping
    head = f"{_describe(spec, control)} with the {mtype} mapping of {_describe(src_spec, control)}"
    if mtype == "nondense":
        how, which = mp["how"], mp["which"]
        if which == "treatment":
            tm = (tm[0], tm[1], nondense_variant(tm[2], how))
        else:
            sm = (sm[0], nondense_variant(sm[1], how))
        head += f" ({which} ids {how}: {np.asarray(tm[2] if which == 'treatment' else sm[1]).tolist()})"
    if mp.get("alone"):
        if mp["which"] == "treatment":
            sm = None
        else:
            tm = None
        head += " (supplied without the other mapping)"
    col.evaluations += 1
    col.transitions += 1
    try:
        s = build(spec, control, treatment_mapping=tm, sample_mapping=sm)
    except Exception as exc:  # noqa: BLE001
        if mtype == "superset":
            col.violation("C01|mapping|valid-rejected",
                          f"{head}: a dense mapping that covers the data was rejected: {short_exc(exc)}", case)
            return
        col.outcome("mapping", mtype, mp.get("how"), "rejected")
        col.nontriv("screen", arity, len(spec["tn"]), (mtype, mp.get("which"), mp.get("how"), "rejected"), pattern(cells, control))
        # the same mapping supplied the way every command line step supplies it: stored in an archive next to the rows.  What
        # the constructor refuses, the loader refuses too (quick tier: the deterministic third of the cases, digest % 3 == 0).
        if (_TIER["tier"] == "thorough" or int(digest(spec, control, repr(mp))[:6], 16) % 3 == 0) and not (mtype == "nondense" and mp["how"] == "float"):
            _archive_variant(spec, control, tm, sm, mtype, mp, head, case, col)
        return
    if verbose:
        print("treatment_ids", np.asarray(s.treatment_ids).tolist(), "mapping", [np.asarray(x).tolist() for x in s.treatment_mapping])
        print("sample_ids", np.asarray(s.sample_ids).tolist(), "sample mapping", [np.asarray(x).tolist() for x in s.sample_mapping])
    col.nontriv("screen", arity, len(spec["tn"]), (mtype, mp.get("which"), mp.get("how"), "accepted"), pattern(cells, control))
    if mtype == "uncovered":
        col.violation(f"C01|mapping|uncovered-accepted|{mp['which']}",
                      f"{head}: the {mp['which']} mapping does not cover the data, yet the screen was constructed "
                      f"(treatment_ids shape {np.asarray(s.treatment_ids).shape}, sample_ids shape {np.asarray(s.sample_ids).shape})", case)
        return
    if mtype == "nondense":
        if mp["how"] == "float":
            col.outcome("mapping", "nondense", "float", "accepted")  # don't-care
            return
        col.violation(f"C01|mapping|nondense-accepted|{mp['which']}|{mp['how']}",
                      f"{head}: a mapping whose ids are not the dense range was accepted", case)
        return
    col.outcome("mapping", "superset", tuple(np.asarray(s.treatment_ids).ravel().tolist()), tuple(np.asarray(s.sample_ids).tolist()))
    res = judge_screen(spec, control, s, supplied_t=tm, supplied_s=sm)
    _flag(col, case, res, head)
    if res:
        return
    # history: the caller keeps using ITS arrays (renumbers its registry, renames an entry) after the screen was built from
    # private, writable copies of them; the screen's own mapping - and with it the decoding of its ids - must not follow
    tm2 = None if tm is None else tuple(np.array(a, copy=True) for a in tm)
    sm2 = None if sm is None else tuple(np.array(a, copy=True) for a in sm)
    try:
        s2 = build(spec, control, treatment_mapping=tm2, sample_mapping=sm2)
    except Exception:  # noqa: BLE001
        return
    snap = [np.array(a, copy=True) for a in tuple(s2.treatment_mapping) + tuple(s2.sample_mapping)]
    for a in (tm2 or ()) + (sm2 or ()):
        if a.dtype.kind in "iu":
            a += 1
        elif a.dtype.kind == "f":
            a *= 3.0
        elif a.size:
            a[...] = "zz"
    col.evaluations += 1
    now = list(tuple(s2.treatment_mapping) + tuple(s2.sample_mapping))
    if any(x.shape != y.shape or x.tolist() != y.tolist() for x, y in zip(snap, now)):
        col.violation("C01|mapping|follows-callers-arrays", f"{head}: after the caller edited the arrays it had supplied, the screen's own mappings changed "
                                                            f"(its ids no longer decode to its experiments)", case)


def _archive_variant(spec, control, tm, sm, mtype, mp, head, case, col):
    import h5py
    import tempfile

    enc = lambda a: np.char.encode(np.asarray(a).astype(str), "utf-8")  # noqa: E731
    try:
        good = build(spec, control)
    except Exception:  # noqa: BLE001
        return
    fd, path = tempfile.mkstemp(prefix="c01arch-", suffix=".h5", dir=env.SCRATCH_ROOT)
    os.close(fd)
    try:
        good.save_h5(path)
        with h5py.File(path, "r+") as f:
            if tm is not None:
                for name, data in (("treatment_mapping_names", enc(tm[0])), ("treatment_mapping_doses", np.asarray(tm[1])), ("treatment_mapping_ids", np.asarray(tm[2]))):
                    del f[name]
                    f.create_dataset(name, data=data)
            if sm is not None:
                for name, data in (("sample_mapping_names", enc(sm[0])), ("sample_mapping_ids", np.asarray(sm[1]))):
                    del f[name]
                    f.create_dataset(name, data=data)
        col.evaluations += 1
        col.transitions += 1
        try:
            Screen.load_h5(path)
        except Exception:  # noqa: BLE001
            col.outcome("mapping", mtype, mp.get("how"), "rejected-from-archive")
            return
        col.violation(f"C01|mapping|{mtype}-accepted-from-archive|{mp['which']}",
                      f"{head}: the constructor rejects this {mp['which']} mapping, but Screen.load_h5 accepts an archive that stores it next to the same rows", case)
    finally:
        if os.path.exists(path):
            os.remove(path)


# ------------------------------------------------------------------ work items
def _mapping_cases(spec, control):
    """All supplied-mapping cases derived from one source screen S."""
    n = len(spec["tn"])
    for k in range(1, n + 1):
        for idx in itertools.combinations(range(n), k):
            yield {"kind": "screen", "control": control, "spec": sub_spec(spec, idx),
                   "mapping": {"type": "superset", "source": spec}}
    if n >= 2:
        for j in range(n):
            rest = [r for r in range(n) if r != j]
            for which in ("treatment", "sample"):
                if uncovered_by_drop(spec, control, j, which):
                    # the other dimension's mapping is S's own, so that only `which` is uncovered
                    yield {"kind": "screen", "control": control, "spec": spec,
                           "mapping": {"type": "uncovered", "which": which, "source": sub_spec(spec, rest),
                                       "source_other": spec}}


def _nondense_cases(spec, control, tm_ids, sm_ids):
    for which, ids in (("treatment", tm_ids), ("sample", sm_ids)):
        for how in ("shift", "gap", "half", "float"):
            if nondense_applicable(ids, how):
                yield {"kind": "screen", "control": control, "spec": spec,
                       "mapping": {"type": "nondense", "which": which, "how": how, "source": spec}}
                # the same non-dense mapping supplied on its own (the other mapping left to be derived)
                yield {"kind": "screen", "control": control, "spec": spec,
                       "mapping": {"type": "nondense", "which": which, "how": how, "source": spec, "alone": True}}


_TIER = {"tier": "quick"}


def run_item(item, col, tier):
    _TIER["tier"] = tier
    k = item["k"]
    if k == "merge":
        return run_merge_item(item, col)
    if k == "manyids":
        for n in item["ns"]:
            run_manyids_case({"kind": "manyids", "n": n}, col)
        return
    if k == "enc1d":
        first = True
        NAMES4 = globals()["NAMES4"] if item.get("names") != "NUM4" else NUM4  # noqa: N806  (the alphabet of this item)
        for n in (1, 2, 3, 4):
            for names in itertools.product(NAMES4, repeat=n):
                col.states += 1
                case = {"kind": "enc1d", "names": list(names)}
                if len(set(names)) < n:
                    col.nontriv("enc1d", n, tuple(sorted(set(names)).index(x) for x in names))
                run_case(case, col)
                if first:
                    col.sample(case)
                    first = False
        for n in (1, 2, 3):
            for sup in itertools.product(NAMES4, repeat=n):
                for m in range(1, n + 1):
                    for idx in itertools.combinations(range(n), m):
                        col.states += 1
                        col.nontriv("enc1d-mapping", n, idx, tuple(sorted(set(sup)).index(x) for x in sup))
                        run_case({"kind": "enc1d", "names": [sup[i] for i in idx], "superset": list(sup)}, col)
                # a name the mapping does not know must be refused
                for extra in NAMES4:
                    if extra not in sup:
                        col.states += 1
                        run_case({"kind": "enc1d", "names": [sup[0], extra], "superset": list(sup), "expect": "reject"}, col)
        return

    control = item["control"]
    if k == "enct":
        cells = ALPHA[item["alpha"]]
        for i in range(item["lo"], item["hi"]):
            d = _digits(i, len(cells), item["len"])
            case = {"kind": "enct", "control": control, "cells": [list(cells[x]) for x in d]}
            col.states += 1
            run_case(case, col)
            if i == item["lo"]:
                col.sample(case)
        return

    if k == "screen":
        for i in range(item["lo"], item["hi"]):
            case = {"kind": "screen", "control": control,
                    "spec": screen_spec(item["alpha"], item["arity"], item["rows"], i), "mapping": None}
            col.states += 1
            run_case(case, col)
            if i == item["lo"]:
                col.sample(case)
        return

    if k == "ctlname":
        control, look = CONTROL_LOOKALIKES[item["pair"]]
        cells = [(n_, d_) for n_ in (control, look, "z") for d_ in (0.0, 1.0)]
        first = True
        for arity, n in ((1, 1), (1, 2), (2, 1)):
            for i in range(len(cells) ** (arity * n)):
                d = _digits(i, len(cells), n * arity)
                spec = {"tn": [[cells[d[r * arity + c]][0] for c in range(arity)] for r in range(n)],
                        "td": [[cells[d[r * arity + c]][1] for c in range(arity)] for r in range(n)]}
                spec["sn"], spec["pn"] = _names_for(i, n)
                case = {"kind": "screen", "control": control, "spec": spec, "mapping": None}
                col.states += 1
                run_case(case, col)
                if first:
                    col.sample(case)
                    first = False
        return

    if k == "derived":
        for i in range(item["lo"], item["hi"]):
            spec = screen_spec(item["alpha"], item["arity"], item["rows"], i)
            n = item["rows"]
            spec["sn"] = [DERIVED_NAMES[(i // 3 ** r) % 3] for r in range(n)]
            spec["pn"] = ["p" if r < (n + 1) // 2 else "p " for r in range(n)]
            case = {"kind": "derived", "control": control, "spec": spec}
            col.states += 1
            run_derived_case(case, col)
            if i == item["lo"]:
                col.sample(case)
        return

    if k == "screen3":
        cells = ALPHA["A9"]
        kinds = list(itertools.product(range(9), repeat=2))
        it = itertools.islice(itertools.combinations_with_replacement(range(81), 3), item["lo"], item["hi"])
        for off, combo in enumerate(it):
            i = item["lo"] + off
            if item["order"] == "reversed":
                combo = combo[::-1]
            sn, pn = _names_for(i, 3)
            spec = {"tn": [[cells[c][0] for c in kinds[r]] for r in combo],
                    "td": [[cells[c][1] for c in kinds[r]] for r in combo], "sn": sn, "pn": pn}
            if item["order"] == "reversed" and len(set(combo)) == 1:
                continue  # identical to the given order
            case = {"kind": "screen", "control": control, "spec": spec, "mapping": None}
            col.states += 1
            run_case(case, col)
            if off == 0:
                col.sample(case)
        return

    if k == "mapping":
        for i in range(item["lo"], item["hi"]):
            spec = screen_spec(item["alpha"], item["arity"], item["rows"], i)
            for case in _mapping_cases(spec, control):
                col.states += 1
                col.count("mapping:" + case["mapping"]["type"])
                run_case(case, col)
                if i == item["lo"]:
                    col.sample(case)
            src = build(spec, control)
            col.evaluations += 1
            for case in _nondense_cases(spec, control, src.treatment_mapping[2], src.sample_mapping[1]):
                col.states += 1
                col.count("mapping:nondense-" + case["mapping"]["how"])
                run_case(case, col)
        return
    raise KeyError(k)


def replay(case, col):
    print("case:", case)
    run_case(case, col, verbose=True)
