"""C03  Identifiers stay stable through the whole simulation lifecycle.

E2 (every outcome of the plate-balanced hold-out split) x E3 (BFS over
reveal / mask / unmask / save+load / reveal CLI histories on both halves)."""
import itertools
import os
import shutil

import numpy as np

from .. import env

env.setup()

from ..bfs import bfs  # noqa: E402
from ..cli import run_cli  # noqa: E402
from ..core import digest, exception_origin_in_repo, short_exc  # noqa: E402
from ..explore import Chooser, ScriptedGenerator, explore  # noqa: E402
from ..screens import make_screen, snapshot, describe  # noqa: E402

from batchie import retrospective as R  # noqa: E402
from batchie.data import Screen, ExperimentSpace  # noqa: E402
from batchie.models.sparse_combo import SparseDrugComboMCMCSample  # noqa: E402
from batchie.models.sparse_combo_interaction import SparseDrugComboInteractionMCMCSample  # noqa: E402

PROP = "C03"
EPILOGUE_ITEMS = 2  # items are heavy (whole BFS each)
LEVEL = "model_checking"
ENGINE = "E2-choice-tree+E3-state-bfs"
TECHNIQUE = "explicit-state BFS over lifecycle histories on real Screens, from every outcome of the hold-out split (full answer tree)"
LEVEL_TEXT = (
    "From every (training, hold-out) pair the plate-balanced split can produce for a family of parents in which "
    "some sample / (treatment,dose) occurs only once, all histories of reveal(any plate subset) / mask / unmask / "
    "save+load / reveal-CLI are explored breadth-first (fixpoint in the thorough tier); in every reached screen the "
    "name->id and (name,dose)->id relations must equal the prepared simulation's, embedding sizes must not shrink "
    "along any transition, and two hand-built posterior samples must predict identically for the same experiments."
)
RULE = (
    "parents x hold-out fraction x every ordered answer of the split's rng.choice x BFS over operation histories; "
    "a state is non-trivial when its rows omit at least one condition or sample of the parent's mapping "
    "(the situation in which a rebuild without mappings renumbers); distinct = distinct canonical screen"
)
BOUNDS = {
    "quick": {"parents": 8, "fractions": [0.5, 1.0], "bfs_depth": 3, "cli_prepared": "4 CLI configurations x 2 parents, random answers with <= 1 deviation, <= 12 leaves each", "reveal_sets": "every non-empty subset of unobserved plates",
              "cli": "singletons"},
    "thorough": {"parents": 16, "fractions": [0.25, 0.5, 0.75, 1.0], "bfs_depth": "fixpoint", "cli_prepared": "4 CLI configurations x 6 parents, <= 2 deviations, <= 150 leaves each", "reveal_sets": "every non-empty subset",
                 "cli": "singletons and the full set"},
}
ASSUMPTIONS = [
    "observation values are non-zero and finite so reveal never refuses for data reasons",
    "predictions compared with 1e-12 tolerance (identical ids give identical arithmetic)",
    "an empty half (fraction 0) is not used as a BFS root; its embedding sizes are judged directly and after save/load, mask, unmask",
]


# ------------------------------------------------------------------ parents
def _parent_rows(variant):
    """variant: (control name, name map, sample map).  The base structure has a unique
    treatment-dose ('U', 1), a unique dose of a shared drug ('c', 2) and a unique sample
    'SU', each in exactly one row of an unobserved plate."""
    ctl, tmap, smap, extra_plate = variant
    t = lambda n: ctl if n == "CTL" else tmap.get(n, n)  # noqa: E731
    s = lambda n: smap.get(n, n)  # noqa: E731
    dm = tmap.get("__doses__", {})  # optional re-scaling of the two dose levels (molar units, nearly equal doses)
    rows = _parent_rows_base(t, s, extra_plate)
    if tmap.get("__zero__"):
        # further spellings of "nothing added": a real drug at dose 0 and (with a named control) the control at a positive dose,
        # so that the treatment mapping carries the control sentinel on several rows
        rows.insert(2, (s("s0"), "p0", ((t("b"), 1.0), (t("a"), 0.0)), 0.2, True))
        rows.append((s("s1"), "p3", ((t("CTL"), 1.0), (t("c"), 0.0)), 0.36, False))
    return [(r[0], r[1], tuple((n, dm.get(repr(float(d)), d) if d else d) for n, d in r[2]), r[3], r[4]) for r in rows]


def _parent_rows_base(t, s, extra_plate):
    rows = [
        (s("s0"), "p0", ((t("a"), 1.0), (t("b"), 1.0)), 0.31, True),
        (s("s1"), "p0", ((t("a"), 1.0), (t("CTL"), 0.0)), 0.42, True),
        (s("s0"), "p1", ((t("a"), 1.0), (t("c"), 1.0)), 0.53, False),
        (s("s0"), "p1", ((t("b"), 1.0), (t("c"), 2.0)), 0.64, False),
        (s("s1"), "p2", ((t("b"), 1.0), (t("c"), 1.0)), 0.75, False),
        (s("SU"), "p2", ((t("a"), 1.0), (t("b"), 1.0)), 0.86, False),
        (s("s1"), "p3", ((t("U"), 1.0), (t("a"), 1.0)), 0.97, False),
    ]
    if extra_plate:
        rows.append((s("s0"), "p4", ((t("b"), 1.0), (t("a"), 1.0)), 0.18, False))
        rows.append((s("s1"), "p4", ((t("CTL"), 0.0), (t("b"), 1.0)), 0.29, False))
    return rows


def parents(tier):
    out = []
    tmaps = [{"U": "0first"}, {"U": "bm"}, {"U": "zlast"}, {"U": "0first", "c": "zc"}]
    smaps = [{"SU": "0s"}, {"SU": "s00"}, {"SU": "zs"}]
    ctls = ["", "ctl"]
    combos = list(itertools.product(ctls, range(len(tmaps)), range(len(smaps)), (False, True)))
    # deterministic spread: quick takes 8 variants covering every tmap / smap / control
    pick = combos if tier == "thorough" else [combos[i] for i in (0, 9, 14, 19, 24, 31, 36, 47)]
    if tier == "thorough":
        pick = combos[::3]
    for ctl, ti, si, extra in pick:
        out.append((ctl, tmaps[ti], smaps[si], extra))
    # dose levels a float join can trip over: molar units (1e-8, 2e-8) and two doses of one drug that agree to 7 digits
    out.append(("", {"U": "0first", "__doses__": {"1.0": 1e-8, "2.0": 2e-8}}, smaps[0], False))
    out.append(("ctl", {"U": "zlast", "__doses__": {"1.0": 1.0, "2.0": 1.0000001}}, smaps[2], True))
    # names that are equal up to a trailing / leading blank are different samples / drugs (a loader that trims collides them)
    out.append(("", {"U": "a "}, {"SU": "s0 "}, False))
    out.append(("ctl", {"U": " b", "c": "c "}, {"SU": " s1"}, True))
    # non-ASCII names among the LONGEST of their array (more utf-8 bytes than characters; equal up to the last character)
    out.append(("", {"U": "dr\u00e6g-1", "c": "dr\u00e6g-2"}, {"SU": "Zo\u00eb-1", "s0": "Zo\u00eb-2"}, False))
    # several control spellings in one mapping
    out.append(("ctl", {"U": "zlast", "__zero__": True}, smaps[1], False))
    out.append(("", {"U": "0first", "__zero__": True}, smaps[2], False))
    return out


def COST(item):
    """Rough relative running time of a work item (scheduling hint only)."""
    if item.get("large") or item.get("cli_train"):
        return 0.5
    v = item.get("variant") or ["", {}, {}, False]
    c = 4.0 if v[3] else 1.0
    c *= 2.0 if item.get("fraction") == 0.5 else 1.0
    c *= 1.5 if item.get("debug") or item.get("cli") == "segregate" else 1.0
    c *= 2.0 if isinstance(v[1], dict) and v[1].get("__zero__") else 1.0
    return c


def plan(tier, seed):
    fr = BOUNDS[tier]["fractions"]
    items = []
    for pi, v in enumerate(parents(tier)):
        for f in fr:
            items.append({"variant": [v[0], v[1], v[2], v[3]], "fraction": f})
    for v in parents(tier)[:2] + parents(tier)[-1:]:
        items.append({"variant": [v[0], v[1], v[2], v[3]], "fraction": 0.0})  # the test half is empty
    for n in (130, 200, 257, 300):
        items.append({"large": n, "fraction": 0.25})
    for v in parents(tier)[:3]:
        items.append({"variant": [v[0], v[1], v[2], v[3]], "fraction": 0.5, "supplied": True})
    for v in parents(tier)[1:3]:
        items.append({"variant": [v[0], v[1], v[2], v[3]], "fraction": 0.5, "supplied": "permuted"})
    for v in parents(tier)[:4]:
        items.append({"variant": [v[0], v[1], v[2], v[3]], "cli_train": True})
    # environment dimension: the whole lifecycle with the package logger at DEBUG (what --verbose sets)
    for v in (parents(tier)[1], parents(tier)[-1]):
        for f in fr[:2]:
            items.append({"variant": [v[0], v[1], v[2], v[3]], "fraction": f, "debug": True})
    ps = parents(tier)
    for ci, cfg in enumerate(CLI_CONFIGS):
        for pi in range(2 if tier == "quick" else 6):
            v = ps[(ci + 3 * pi) % len(ps)]
            items.append({"variant": [v[0], v[1], v[2], v[3]], "fraction": 0.5, "cli": cfg})
    return items


# ------------------------------------------------------------------ oracle helpers
def base_maps(parent):
    smap = {str(n): int(i) for n, i in zip(parent.sample_mapping[0], parent.sample_mapping[1])}
    tmap = {(str(n), float(d)): int(i) for n, d, i in zip(*parent.treatment_mapping)}
    return smap, tmap


def make_thetas(parent):
    es = ExperimentSpace.from_screen(parent)
    ns, nt, D = es.n_unique_samples, es.n_unique_treatments, 2
    g = lambda shape, off: (np.arange(int(np.prod(shape)), dtype=float).reshape(shape) * 0.07 + off)  # noqa: E731
    t1 = SparseDrugComboMCMCSample(
        W=g((ns, D), 0.11), W0=g((ns,), -0.3), V2=g((nt, D), 0.05), V1=g((nt, D), -0.2), V0=g((nt,), 0.4),
        alpha=0.123, precision=2.0,
    )
    lookup = {}
    for c in range(ns):
        lookup[(c, -1)] = 1.0
        for t in range(nt):
            lookup[(c, t)] = 0.3 + 0.6 * ((c * 7 + t * 3) % 10) / 10.0
    t2 = SparseDrugComboInteractionMCMCSample(W=g((ns, D), 0.02), V2=g((nt, D), -0.1), precision=3.0, single_effect_lookup=lookup)
    return [t1, t2], (ns, nt)


def row_keys(screen):
    return [
        (str(screen.sample_names[i]), tuple(str(x) for x in screen.treatment_names[i]), tuple(float(x) for x in screen.treatment_doses[i]))
        for i in range(screen.size)
    ]


def reference_predictions(parent, thetas):
    ref = {}
    keys = row_keys(parent)
    for ti, th in enumerate(thetas):
        m = th.predict_conditional_mean(parent)
        v = th.predict_viability(parent)
        for k, a, b in zip(keys, m, v):
            ref[(ti, k)] = (float(a), float(b))
    return ref


def check_screen(screen, ctx, label):
    """Returns list of (sig_suffix, message)."""
    smap, tmap, thetas, ref, sizes0 = ctx
    lens = {"sample_names": len(screen.sample_names), "sample_ids": len(screen.sample_ids), "treatment_names": len(screen.treatment_names),
            "treatment_ids": len(screen.treatment_ids), "treatment_doses": len(screen.treatment_doses), "observations": len(screen.observations)}
    if len(set(lens.values())) != 1:
        return [("inconsistent-stage", f"the per-experiment arrays of this stage have different lengths: {lens}")]
    bad = _check_ids(screen, smap, tmap, "")
    if bad and bad[0][0].startswith("unknown"):
        return bad
    if screen.size:
        keys = row_keys(screen)
        for ti, th in enumerate(thetas):
            try:
                m = th.predict_conditional_mean(screen)
                v = th.predict_viability(screen)
            except Exception as exc:  # noqa: BLE001
                bad.append(("predict-raises", f"posterior sample {ti} cannot predict on this stage: {short_exc(exc)}"))
                continue
            for k, a, b in zip(keys, m, v):
                ra, rb = ref[(ti, k)]
                if abs(a - ra) > 1e-12 or abs(b - rb) > 1e-12:
                    bad.append(("prediction", f"posterior sample {ti} predicts {a:.6g} for {k}, stage 0 predicted {ra:.6g}"))
                    break
        # the stage still assigns the same ids after it has been used for prediction (it will be used again)
        if not bad:
            bad += _check_ids(screen, smap, tmap, "-after-prediction")
    return bad


def _check_ids(screen, smap, tmap, suffix):
    bad = []
    for i in range(screen.size):
        sn = str(screen.sample_names[i])
        if sn not in smap:
            return [("unknown-sample" + suffix, f"this stage has a sample {sn!r} that the prepared simulation does not know (samples {sorted(smap)})")]
        if int(screen.sample_ids[i]) != smap[sn]:
            bad.append(("sample-id" + suffix, f"sample {sn!r} has id {int(screen.sample_ids[i])}, prepared simulation assigns {smap[sn]}"))
            break
    done = False
    for i in range(screen.size):
        for j in range(screen.treatment_arity):
            key = (str(screen.treatment_names[i, j]), float(screen.treatment_doses[i, j]))
            if key not in tmap:
                return bad + [("unknown-treatment" + suffix, f"this stage has a treatment {key} that the prepared simulation does not know")]
            if int(screen.treatment_ids[i, j]) != tmap[key]:
                bad.append(("treatment-id" + suffix, f"treatment {key} has id {int(screen.treatment_ids[i, j])}{' after the stage was used for prediction' if suffix else ''}, prepared simulation assigns {tmap[key]}"))
                done = True
                break
        if done:
            break
    return bad


def sizes(screen):
    es = ExperimentSpace.from_screen(screen)
    return (int(es.n_unique_samples), int(es.n_unique_treatments))


def canon(screen):
    return tuple(sorted(snapshot(screen).items()))


# ------------------------------------------------------------------ transitions
def unobserved_plate_ids(screen):
    return [int(p.plate_id) for p in screen.plates if not p.is_observed]


def apply_op(screen, op, tmpdir):
    kind = op[0]
    if kind == "reveal":
        return R.reveal_plates(screen, list(op[1]))
    if kind == "mask":
        return R.mask_screen(screen)
    if kind == "unmask":
        return R.unmask_screen(screen)
    if kind == "saveload":
        p = os.path.join(tmpdir, "s.h5")
        screen.save_h5(p)
        return Screen.load_h5(p)
    if kind == "cli-reveal":
        a, b = os.path.join(tmpdir, "in.h5"), os.path.join(tmpdir, "out.h5")
        screen.save_h5(a)
        run_cli("reveal_plate", ["--screen", a, "--output", b, "--plate-id"] + [str(x) for x in op[1]])
        return Screen.load_h5(b)
    raise KeyError(kind)


def enabled_ops(screen, tier):
    un = unobserved_plate_ids(screen)
    ops = []
    for k in range(1, len(un) + 1):
        for S in itertools.combinations(un, k):
            ops.append(("reveal", list(S)))
    ops += [("mask",), ("unmask",), ("saveload",)]
    for p in un:
        ops.append(("cli-reveal", [p]))
    if tier == "thorough" and len(un) > 1:
        ops.append(("cli-reveal", list(un)))
    return ops


def op_name(op):
    return op[0] if len(op) == 1 else f"{op[0]}:{','.join(map(str, op[1]))}"


# ------------------------------------------------------------------ item
CLI_CONFIGS = {
    # the real preparation path of a retrospective simulation (prepare_retrospective_simulation.main):
    # filter -> mask / initial cover -> plate generator -> reveal of a first plate -> smoother -> hold-out
    "plain": [],
    "segregate": ["--plate-generator", "SampleSegregatingPermutationPlateGenerator", "--plate-generator-param", "max_plate_size=2"],
    "cover+segregate": ["--initial-plate-generator", "SparseCoverPlateGenerator", "--initial-plate-generator-param",
                        "reveal_single_treatment_experiments=false",
                        "--plate-generator", "SampleSegregatingPermutationPlateGenerator", "--plate-generator-param", "max_plate_size=2"],
    "segregate+fixed": ["--plate-generator", "SampleSegregatingPermutationPlateGenerator", "--plate-generator-param", "max_plate_size=2",
                        "--plate-smoother", "FixedSizeSmoother", "--plate-smoother-param", "plate_size=1"],
    # smoothers that throw wells away (a whole sample or a drug-dose can disappear from the smoothed screen)
    "segregate+fixed2": ["--plate-generator", "SampleSegregatingPermutationPlateGenerator", "--plate-generator-param", "max_plate_size=2",
                         "--plate-smoother", "FixedSizeSmoother", "--plate-smoother-param", "plate_size=2"],
    "segregate+nper": ["--plate-generator", "SampleSegregatingPermutationPlateGenerator", "--plate-generator-param", "max_plate_size=2",
                       "--plate-smoother", "NPlatePerCellLineSmoother", "--plate-smoother-param", "n_plates_per_cell_line=2"],
}
CLI_LEAF_CAP = {"quick": 12, "thorough": 150}


class PairDisagreement(Exception):
    pass


def prepare_cli(item, chooser, tmpdir):
    """Run the real CLI with its generator replaced by the scripted one: every random answer of
    the whole preparation is a choice point.  The 'parent' used as reference is the union of the
    two written halves under the training half's mappings."""
    import batchie.cli.prepare_retrospective_simulation as prep

    v = item["variant"]
    full = make_screen([(r[0], r[1], r[2], r[3], True) for r in _parent_rows((v[0], v[1], v[2], v[3]))], control=v[0])
    a, tr, te = (os.path.join(tmpdir, x) for x in ("cli_in.h5", "cli_train.h5", "cli_test.h5"))
    full.save_h5(a)
    saved = prep.get_prng_from_seed_argument
    prep.get_prng_from_seed_argument = lambda args: ScriptedGenerator(chooser)
    try:
        run_cli("prepare_retrospective_simulation", ["--data", a, "--training-output", tr, "--test-output", te,
                                                     "--holdout-fraction", item["fraction"], "--seed", 0] + CLI_CONFIGS[item["cli"]])
    finally:
        prep.get_prng_from_seed_argument = saved
    train, test = Screen.load_h5(tr), Screen.load_h5(te)
    # the two written halves are screens of ONE prepared simulation: a name known to both must carry one id
    problems = []
    maps = []
    for half in (train, test):
        sm = {str(n): int(i) for n, i in zip(half.sample_mapping[0], half.sample_mapping[1])}
        sm.update({str(n): int(i) for n, i in zip(half.sample_names, half.sample_ids)})
        tm = {(str(n), float(d)): int(i) for n, d, i in zip(*half.treatment_mapping)}
        tm.update({(str(n), float(d)): int(i) for n, d, i in zip(half.treatment_names.ravel(), half.treatment_doses.ravel(), half.treatment_ids.ravel())})
        maps.append((sm, tm))
    for what, a_, b_ in (("sample", maps[0][0], maps[1][0]), ("treatment", maps[0][1], maps[1][1])):
        for k in sorted(set(a_) & set(b_), key=repr):
            if a_[k] != b_[k]:
                problems.append(f"{what} {k!r} has id {a_[k]} in the training screen and id {b_[k]} in the test screen")
    if problems:
        raise PairDisagreement("; ".join(problems[:4]))
    if set(maps[1][0]) - set(maps[0][0]) or set(maps[1][1]) - set(maps[0][1]):
        # the training screen does not know every condition of the test screen: reference = union of the (consistent) mappings
        sm = dict(maps[0][0]); sm.update(maps[1][0])
        tm = dict(maps[0][1]); tm.update(maps[1][1])
        skeys, tkeys = sorted(sm, key=lambda k: sm[k]), sorted(tm, key=lambda k: tm[k])
        s_mapping = (np.array(skeys, dtype=str), np.array([sm[k] for k in skeys]))
        t_mapping = (np.array([k[0] for k in tkeys], dtype=str), np.array([k[1] for k in tkeys], dtype=float), np.array([tm[k] for k in tkeys]))
    else:
        s_mapping, t_mapping = train.sample_mapping, train.treatment_mapping
    parent = Screen(
        treatment_names=np.concatenate([train.treatment_names, test.treatment_names]),
        treatment_doses=np.concatenate([train.treatment_doses, test.treatment_doses]),
        sample_names=np.concatenate([train.sample_names, test.sample_names]),
        plate_names=np.concatenate([train.plate_names, test.plate_names]),
        observations=np.concatenate([train.observations, test.observations]),
        control_treatment_name=train.control_treatment_name,
        treatment_mapping=t_mapping, sample_mapping=s_mapping,
    )
    return parent, train, test


def prepare(item, chooser, tmpdir=None):
    if item.get("cli"):
        own = tmpdir is None
        tmpdir = tmpdir or env.scratch_dir("c03p")
        try:
            return prepare_cli(item, chooser, tmpdir)
        finally:
            if own:
                shutil.rmtree(tmpdir, ignore_errors=True)
    v = item["variant"]
    parent = make_screen(_parent_rows((v[0], v[1], v[2], v[3])), control=v[0])
    rng = ScriptedGenerator(chooser)
    if item.get("supplied") == "permuted":
        # the caller's registry numbers samples and conditions in its own order (ids reversed against the sorted names): a valid
        # mapping; every stage, in memory and after save / load, keeps exactly that numbering
        sn_, si_ = (np.asarray(a) for a in parent.sample_mapping)
        tn_, td_, ti_ = (np.asarray(a) for a in parent.treatment_mapping)
        roll = lambda a: np.roll(a, 1)  # noqa: E731  (the listing is not in sorted order either)
        sm_p = (roll(sn_), roll(int(si_.max()) - si_))
        tm_p = (roll(tn_), roll(td_), roll(np.where(ti_ == -1, -1, int(ti_.max()) - ti_)))
        parent = make_screen(_parent_rows((v[0], v[1], v[2], v[3])), control=v[0], treatment_mapping=tm_p, sample_mapping=sm_p)
        train, test = R.create_plate_balanced_holdout_set_among_masked_plates(parent, item["fraction"], rng)
        return parent, train, test
    if item.get("supplied"):
        # the prepared screen was built from mapping arrays the CALLER owns (its registry of samples / conditions); after the
        # split the caller goes on using them - renumbers, renames.  Every later stage still assigns the original ids.
        tm2 = tuple(np.array(a, copy=True) for a in parent.treatment_mapping)
        sm2 = tuple(np.array(a, copy=True) for a in parent.sample_mapping)
        owned = make_screen(_parent_rows((v[0], v[1], v[2], v[3])), control=v[0], treatment_mapping=tm2, sample_mapping=sm2)
        train, test = R.create_plate_balanced_holdout_set_among_masked_plates(owned, item["fraction"], rng)
        for a in tm2 + sm2:
            if a.dtype.kind in "iu":
                a[...] = a[::-1].copy()
            elif a.dtype.kind == "f":
                a *= 2.0
            elif a.size:
                a[...] = np.roll(a, 1)
        return parent, train, test
    train, test = R.create_plate_balanced_holdout_set_among_masked_plates(parent, item["fraction"], rng)
    return parent, train, test


def context(parent):
    smap, tmap = base_maps(parent)
    thetas, sizes0 = make_thetas(parent)
    return (smap, tmap, thetas, reference_predictions(parent, thetas), sizes0)


def run_large_item(item, col, tier):
    """Sparse probe: a prepared simulation with n samples and n (drug, dose) conditions (n around 128 / 256), hold-out split
    with the default answers, then one step of every kind from each half.  A stage that contains few names but large ids is
    exactly what the test half is."""
    n = item["n"]
    rows = []
    for i in range(n):
        plate = "pobs" if i % 7 == 0 else ("pu1" if i % 2 else "pu2")
        rows.append((f"s{n - 1 - i:04d}", plate, ((f"d{(i + n // 3) % n:04d}", 1.0 + (i % 3)), ("", 0.0) if i % 4 == 0 else (f"d{i:04d}", 1.0 + (i % 3))), round(0.05 + 0.9 * ((i * 37) % 101) / 101.0, 4), plate == "pobs"))
    parent = make_screen(rows, control="")
    ctx = context(parent)
    train, test = R.create_plate_balanced_holdout_set_among_masked_plates(parent, item["fraction"], ScriptedGenerator(Chooser()))
    tmpdir = env.scratch_dir("c03L")
    try:
        for half_name, root in (("train", train), ("test", test)):
            if root.size == 0:
                continue
            stages = [([], root)]
            for op in [("mask",), ("unmask",), ("saveload",)] + [("reveal", [p]) for p in unobserved_plate_ids(root)[:1]]:
                try:
                    stages.append(([list(op)], apply_op(root, op, tmpdir)))
                except Exception as exc:  # noqa: BLE001
                    if not exception_origin_in_repo(exc):
                        raise
                    col.refused += 1
            for hist, st in stages:
                col.evaluations += 1
                col.states += 1
                col.transitions += 1
                case = {"large": n, "fraction": item["fraction"], "half": half_name, "history": hist}
                res = check_screen(st, ctx, hist[0][0] if hist else "holdout")
                if any(a < b for a, b in zip(sizes(st), ctx[4])):
                    res.append(("sizes", f"embedding sizes {sizes(st)} are below the prepared simulation's {ctx[4]}"))
                for suffix, msg in res[:2]:
                    col.violation(f"C03|{suffix}|large-{hist[0][0] if hist else 'holdout-' + half_name}", f"{n} samples / conditions, {half_name} half, history {hist}: {msg}", case)
                col.outcome("large", n, half_name, tuple(map(tuple, hist)), digest(snapshot(st)))
                col.nontriv("large", n, half_name, str(hist))
    finally:
        shutil.rmtree(tmpdir, ignore_errors=True)


def run_cli_train_item(item, col, tier):
    """Posterior samples are learned through the command line (train_model on the training screen of the split) and through
    the library on the same screen with the same seed: they are the same samples - in particular they index the embedding
    rows by the ids of the prepared simulation, also when a sample or a condition occurs in no observed row."""
    from batchie import sampling
    from batchie.core import ThetaHolder
    from batchie.models.sparse_combo import SparseDrugCombo

    v = item["variant"]
    parent = make_screen(_parent_rows((v[0], v[1], v[2], v[3])), control=v[0])
    train, test = R.create_plate_balanced_holdout_set_among_masked_plates(parent, 0.5, ScriptedGenerator(Chooser()))
    tmp = env.scratch_dir("c03t")
    try:
        for label, stage in (("training screen", train), ("training screen after revealing its first unobserved plate", None)):
            if stage is None:
                un = unobserved_plate_ids(train)
                if not un:
                    continue
                stage = R.reveal_plates(train, un[:1])
            case = {"cli_train": True, "variant": item["variant"], "stage": label}
            col.evaluations += 1
            col.states += 1
            col.transitions += 2
            a, out = os.path.join(tmp, "stage.h5"), os.path.join(tmp, "thetas.h5")
            stage.save_h5(a)
            if os.path.exists(out):
                os.remove(out)
            run_cli("train_model", ["--data", a, "--output", out, "--model", "SparseDrugCombo", "--model-param", "n_embedding_dimensions=2",
                                    "--n-samples", 2, "--n-burnin", 1, "--thin", 1, "--n-chains", 1, "--chain-index", 0, "--seed", 5])
            got = ThetaHolder.load_h5(out)
            loaded = Screen.load_h5(a)
            m = SparseDrugCombo(experiment_space=ExperimentSpace.from_screen(loaded), n_embedding_dimensions=2)
            ob = loaded.subset_observed()
            if ob is not None:
                m.add_observations(ob)
            want = sampling.sample(m, ThetaHolder(n_thetas=2), seed=5, n_chains=1, chain_index=0, n_burnin=1, thin=1, progress_bar=False)
            same = all(np.array_equal(np.asarray(getattr(x, n_)), np.asarray(getattr(y, n_))) for x, y in zip(got.thetas, want.thetas) for n_ in ("W", "W0", "V2", "V1", "V0"))
            col.outcome("cli-train", label, same)
            col.nontriv("cli-train", tuple(map(str, item["variant"])), label)
            if not same:
                col.violation("C03|cli-train|samples-differ", f"parent {item['variant']}, {label}: train_model --seed 5 and the library (same screen, same seed) learn different posterior samples: "
                                                              f"the command line does not hand the model the screen's own ids", case)
    finally:
        shutil.rmtree(tmp, ignore_errors=True)


def run_history(root, history, tmpdir):
    s = root
    for op in history:
        s = apply_op(s, op, tmpdir)
    return s


def run_item(item, col, tier):
    if item.get("debug"):
        from ..logctx import package_logger_at_debug

        with package_logger_at_debug():
            return _run_item(dict(item, debug=False, was_debug=True), col, tier)
    return _run_item(item, col, tier)


def _run_item(item, col, tier):
    if item.get("large"):
        return run_large_item({"n": item["large"], "fraction": item["fraction"]}, col, tier)
    if item.get("cli_train"):
        return run_cli_train_item(item, col, tier)
    depth = None if tier == "thorough" else BOUNDS["quick"]["bfs_depth"]
    tmpdir = env.scratch_dir("c03")
    try:
        info = {}
        cli_cap = (CLI_LEAF_CAP[tier], info) if item.get("cli") else None

        def _prep(c):
            try:
                return prepare(item, c, tmpdir)
            except BaseException as exc:  # noqa: BLE001  (argparse exits, refusals of generators)
                from ..explore import NondeterminismError
                if isinstance(exc, (NondeterminismError, KeyboardInterrupt)):
                    raise
                if isinstance(exc, PairDisagreement):
                    return ("pair", exc, None)
                return ("refused", exc, None)

        for ch, (parent, train, test) in explore(_prep, bound=(1 if item.get("cli") and tier == "quick" else (2 if item.get("cli") else None)), max_leaves=cli_cap):
            if isinstance(parent, str) and parent == "pair":
                col.evaluations += 1
                col.violation("C03|ids|cli-pair", f"prepare_retrospective_simulation {item.get('cli')} (answers {ch.choices}): {train}",
                              {"item": item, "choices": ch.choices, "half": "train", "history": []})
                continue
            if isinstance(parent, str):
                col.refused += 1
                col.outcome("prepare-refused", type(train).__name__)
                continue
            if item.get("cli"):
                col.count("cli-prepared pairs")
            ctx = context(parent)
            full_s, full_t = set(ctx[0]), set(ctx[1])
            for half_name, root in (("train", train), ("test", test)):
                col.evaluations += 1
                case0 = {"item": item, "choices": ch.choices, "half": half_name, "history": []}
                if root.size == 0:
                    # an empty half (hold-out fraction 0, or everything held out) is a stage too: it knows the same samples and
                    # conditions as its sibling, also after mask / unmask / save / load (a model sized by it predicts the other half)
                    col.count("empty-half")
                    stage = root
                    for op in (None, ("saveload",), ("mask",), ("unmask",), ("saveload",)):
                        try:
                            stage = stage if op is None else apply_op(stage, op, tmpdir)
                            got_sizes = sizes(stage)
                        except Exception as exc:  # noqa: BLE001
                            col.refused += 1
                            col.outcome("refused-empty", type(exc).__name__)
                            break
                        col.transitions += 1
                        if any(a < b for a, b in zip(got_sizes, ctx[4])):
                            col.violation(f"C03|sizes|empty-{half_name}", f"the empty {half_name} half (answers {ch.choices}){'' if op is None else ' after ' + op[0]} implies embedding "
                                                                          f"sizes {got_sizes}, the prepared simulation has {ctx[4]}", case0)
                            break
                    continue
                for suffix, msg in check_screen(root, ctx, "holdout"):
                    col.violation(f"C03|{suffix}|holdout-{half_name}", f"{half_name} half of the split (answers {ch.choices}): {msg}", case0)
                if sizes(root) < ctx[4] or any(a < b for a, b in zip(sizes(root), ctx[4])):
                    col.violation(f"C03|sizes|holdout-{half_name}", f"embedding sizes {sizes(root)} of the {half_name} half are below the parent's {ctx[4]}", case0)

                def successors(state, d, _root=root, _half=half_name, _ch=ch):
                    out = []
                    if canon(state) in bad_states:
                        return out  # do not explore beyond a violating state (first breaking step only)
                    s_before = sizes(state)
                    for op in enabled_ops(state, tier):
                        try:
                            nxt = apply_op(state, op, tmpdir)
                        except Exception as exc:  # noqa: BLE001
                            col.refused += 1
                            col.outcome("refused", op[0], type(exc).__name__)
                            # a stage whose conditions / samples the mapping it CARRIES can no longer number ("Mapping of
                            # ... to ids failed" from the Screen constructor) has lost a condition it knew: the mapping
                            # shrank on the way (reported once per state; other refusals are no statement about ids)
                            if "Mapping of" in str(exc) and exception_origin_in_repo(exc) and canon(state) not in bad_states:
                                bad_states.add(canon(state))
                                hist = histories.get(canon(state), []) + [list(op)]
                                case = {"item": item, "choices": _ch.choices, "half": _half, "history": hist}
                                col.violation(f"C03|mapping-lost-a-condition|{op[0]}", f"{_half} half, answers {_ch.choices}, history {[op_name(tuple(o)) for o in hist]}: "
                                              f"the next stage cannot be built from the mapping the stage carries: {type(exc).__name__}: {exc}", case)
                            continue
                        col.transitions += 1
                        col.count("op:" + op[0])
                        hist = None
                        res = check_screen(nxt, ctx, op[0])
                        s_after = sizes(nxt)
                        if any(a < b for a, b in zip(s_after, s_before)):
                            res.append(("sizes", f"embedding sizes shrank {s_before} -> {s_after}"))
                        if res:
                            bad_states.add(canon(nxt))
                            hist = histories.get(canon(state), []) + [list(op)]
                            case = {"item": item, "choices": _ch.choices, "half": _half, "history": hist}
                            for suffix, msg in res:
                                col.violation(f"C03|{suffix}|{op[0]}", f"{_half} half, answers {_ch.choices}, history {[op_name(tuple(o)) for o in hist]}: {msg}", case)
                        out.append((list(op), nxt))
                    return out

                histories = {}
                bad_states = set()

                def on_state(state, hist):
                    histories[canon(state)] = hist
                    col.states += 1
                    col.outcome(canon(state))
                    present_s = {str(x) for x in state.sample_names}
                    present_t = {(str(n), float(d)) for n, d in zip(state.treatment_names.ravel(), state.treatment_doses.ravel())}
                    if present_s != full_s or present_t != full_t:
                        col.nontriv(canon(state))

                stats = bfs([root], successors, canon, max_depth=depth, check_state=on_state)
                col.count("max_depth", 0)
                col.counters["max_depth"] = max(col.counters.get("max_depth", 0), stats["max_depth"])
                if col.evaluations <= 2:
                    col.sample({"variant": item["variant"], "fraction": item["fraction"], "split_answers": ch.choices, "half": half_name,
                                "root_rows": describe(root), "bfs_states": stats["states"], "bfs_transitions": stats["transitions"]})
        if info.get("cap_hit"):
            col.cap(f"CLI-prepared pairs: answer tree cut at {CLI_LEAF_CAP[tier]} leaves per (configuration, parent), deviation-bounded")
    finally:
        shutil.rmtree(tmpdir, ignore_errors=True)


def finish(total, tier):
    # max_depth is merged by addition in the collector; report it as informational only
    pass


def replay(case, col):
    if case.get("large"):
        return run_large_item({"n": case["large"], "fraction": case["fraction"]}, col, "quick")
    if case.get("cli_train"):
        return run_cli_train_item({"variant": case["variant"], "cli_train": True}, col, "quick")
    item = case["item"]
    if item.get("was_debug"):
        from ..logctx import package_logger_at_debug

        with package_logger_at_debug():
            return replay(dict(case, item=dict(item, was_debug=False)), col)
    try:
        parent, train, test = prepare(item, Chooser(case["choices"]))
    except PairDisagreement as exc:
        col.evaluations += 1
        col.violation("C03|ids|cli-pair", str(exc), case)
        return
    ctx = context(parent)
    root = train if case["half"] == "train" else test
    tmpdir = env.scratch_dir("c03r")
    try:
        s = root
        prev = sizes(s)
        print("parent mapping:", ctx[1], ctx[0])
        ops = [tuple(o) for o in case["history"]]
        for suffix, msg in check_screen(s, ctx, "holdout"):
            col.violation(f"C03|{suffix}|holdout-{case['half']}", msg, case)
        for op in ops:
            s = apply_op(s, op, tmpdir)
            print("after", op_name(op), "ids:", s.treatment_ids.tolist(), s.sample_ids.tolist())
            for suffix, msg in check_screen(s, ctx, op[0]):
                col.violation(f"C03|{suffix}|{op[0]}", msg, case)
            if any(a < b for a, b in zip(sizes(s), prev)):
                col.violation(f"C03|sizes|{op[0]}", f"embedding sizes shrank {prev} -> {sizes(s)}", case)
            prev = sizes(s)
        col.evaluations += 1
    finally:
        shutil.rmtree(tmpdir, ignore_errors=True)
