"""C14  Subset and plate views are exact row selections with set-algebra semantics.

State space of one parent screen with k rows: the parent itself plus every
(view class, selection bit-vector) pair, materialised as real ScreenSubset / Plate
objects of that parent.  A unary BFS (mc.bfs) runs subset(inner) for every inner mask,
invert, the unique-condition filter, to_screen, subset_observed / subset_unobserved,
get_plate and plates to a fixpoint; an n-ary closure pass then runs combine on every
ordered pair and ScreenSubset.concat on every list (length 0..L) of reachable views and
checks that nothing outside the reachable set appears (otherwise the BFS is resumed).
to_screen leads to a new, smaller parent: the plan enumerates every row subset S of each
top-level parent and explores the materialised screen  parent.subset(S).to_screen()  as
a parent in its own right (equal content => equal state, so this is the same fixpoint,
cut into work items).

Reference: python ints used as bitsets (bit i = row i of the parent), and the parent's
attribute arrays copied to python lists when the parent was built.
"""
import itertools

import numpy as np

from .. import env

env.setup()

from ..bfs import bfs  # noqa: E402
from ..core import exception_origin_in_repo, short_exc  # noqa: E402
from ..screens import make_screen  # noqa: E402

from batchie.data import Screen, ScreenSubset, filter_dataset_to_unique_treatments  # noqa: E402

PROP = "C14"
EPILOGUE_ITEMS = 2
LEVEL = "model_checking"
ENGINE = "E3-state-bfs"
TECHNIQUE = "explicit-state BFS + n-ary closure over real view objects vs integer bitsets"
LEVEL_TEXT = (
    "for every listed parent screen and every screen materialised from a row subset of it, every view state "
    "(class x selection) reachable by subset / invert / combine / concat / unique filter / observed split / "
    "get_plate / plates is built as a real object, every operation of the alphabet is executed on every reachable "
    "state (combine: all ordered pairs, concat: all lists up to the bound) and compared with a bitset reference; "
    "operands are re-read after every call to expose aliasing"
)
RULE = (
    "parents: fixed screens of <= N rows (arity 1 and 2, duplicate and column-swapped conditions, control rows, "
    "1-4 plates, mixed plate-uniform masks) and every sub-screen parent.subset(S).to_screen(); per parent with k "
    "rows: subset(inner) for all 2^k (2^|view|) inner masks on the parent and on every view, invert, unique "
    "filter, to_screen, observed/unobserved split, get_plate(every id + one unknown), plates, combine on every "
    "ordered pair of reachable views, concat on every list of <= L reachable views, combine/concat with a view of "
    "an equal-content twin parent. Non-trivial: the result selects a proper non-empty subset of the parent rows, "
    "or a refusal was required (key: parent, sub-screen, operation, operand states, result)."
)
BOUNDS = {
    "quick": {"parents": ["A4", "B4", "C4", "D4", "E3", "F2", "G4", "H3", "A4p"], "max_rows": 4, "concat_list_len": 3,
              "sub_screens": "all 2^N row subsets of each parent",
              "sparse_probes": "screens of 300 / 771 / 1500 / 4200 / 2048 rows with 300 / 257 / 3 / 7 / 4 plates: every plates[] entry, and 9 compositions (complement of an interior block, prefix, suffix, stride, observed)",
              "held_views": "every view recipe (observed / unobserved / inverse / each plate / all 2^N subsets) x every non-empty union of unobserved plates filled in by set_observed afterwards"},
    "thorough": {"parents": ["A4", "B4", "C4", "D4", "E3", "F2", "G4", "H3", "A4p", "B4p", "D4p", "A5", "B5"], "max_rows": 5, "concat_list_len": 3,
                 "sub_screens": "all 2^N row subsets of each parent", "held_views": "as quick, on all six parents"},
}
ASSUMPTIONS = [
    "'the parent's values' are the parent's attribute arrays as read when the parent was built; an operation that "
    "changes the parent's arrays afterwards is reported (it would silently change every other view)",
    "the class of the returned view (ScreenSubset or Plate) is not judged; it is part of the state only",
    "unique-condition filter: which duplicate is kept is free; a result is accepted if it keeps exactly one row per "
    "class under the ordered reading of the treatment-id tuple OR under the unordered reading",
    "order of the list returned by Screen.plates is free; get_plate(unknown id) may raise or return the empty view",
    "subset_observed / subset_unobserved may return None instead of an empty view",
    "concat([]) may raise; to_screen of an empty selection may raise; to_screen of a non-empty selection must succeed",
    "combine / concat (list length >= 2) whose operands belong to different parent objects must raise (any exception)",
    "single_treatment_effects is compared only where reading it on the parent does not raise",
    "ids / mappings of a materialised screen are not compared (C03); its rows are",
    "Plate.merge (documented to mutate the parent) is outside the statement and not explored",
    "parents above 5 rows and arity above 2 are not covered",
]

CTL = ""
PARENTS = {
    # arity 2, two interleaved plates, mixed mask, duplicate and column-swapped conditions
    "A4": [
        ("s0", "pB", (("a", 1.0), ("b", 1.0)), 0.11, True),
        ("s0", "pA", (("a", 1.0), ("b", 1.0)), 0.23, False),
        ("s1", "pB", (("b", 1.0), ("a", 1.0)), 0.37, True),
        ("s0", "pA", (("b", 1.0), ("a", 1.0)), 0.41, False),
    ],
    # arity 1, three plates, duplicates
    "B4": [
        ("s0", "p2", (("a", 1.0),), 0.15, True),
        ("s0", "p0", (("a", 1.0),), 0.25, False),
        ("s1", "p0", (("b", 2.0),), 0.35, False),
        ("s0", "p1", (("a", 1.0),), 0.45, True),
    ],
    # arity 2 with single-agent (control) rows, one unobserved plate, exact duplicate pair
    "C4": [
        ("s0", "p", (("a", 1.0), (CTL, 0.0)), 0.9, False),
        ("s0", "p", ((CTL, 0.0), ("b", 2.0)), 0.8, False),
        ("s0", "p", (("a", 1.0), ("b", 2.0)), 0.5, False),
        ("s0", "p", (("a", 1.0), ("b", 2.0)), 0.6, False),
    ],
    # arity 2, four plates all observed, same name different dose, duplicate across plates
    "D4": [
        ("s1", "p3", (("a", 1.0), ("b", 1.0)), 0.12, True),
        ("s0", "p1", (("a", 2.0), ("b", 1.0)), 0.22, True),
        ("s1", "p2", (("a", 1.0), ("b", 1.0)), 0.32, True),
        ("s0", "p0", (("c", 1.0), ("a", 1.0)), 0.42, True),
    ],
    # observed rows whose stored value is not finite (a failed well): the mask, not the value, says what is observed
    "E3": [
        ("s0", "p0", (("a", 1.0), ("b", 1.0)), float("nan"), True),
        ("s1", "p0", (("a", 1.0), ("b", 1.0)), 0.4, True),
        ("s0", "p1", (("b", 1.0), ("a", 1.0)), float("inf"), False),
    ],
    "F2": [
        ("s0", "p0", (("a", 1.0),), float("nan"), True),
        ("s0", "p1", (("a", 1.0),), float("-inf"), True),
    ],
    # one condition spelled three ways (control by name at dose 0, a drug at dose 0, the control name at a positive dose): the ids agree
    "G4": [
        ("s0", "p0", (("a", 0.037), (CTL, 0.0)), 0.21, True),
        ("s0", "p1", (("a", 0.037), ("b", 0.0)), 0.31, False),
        ("s1", "p0", (("a", 0.037), ("b", 0.0)), 0.41, True),
        ("s0", "p1", (("a", 0.037), (CTL, 1.0)), 0.51, False),
    ],
    # the repeats of one sample's condition are separated by another sample's well with the same treatment
    # (doses that no binary32 number equals: 0.1, 0.037 - a view reports the parent's float64 values)
    "H3": [
        ("s0", "p0", (("a", 0.1),), 0.2, False),
        ("s1", "p0", (("a", 0.1),), 0.3, False),
        ("s0", "p1", (("a", 0.1),), 0.4, True),
    ],
    "A5": [
        ("s0", "pB", (("a", 1.0), ("b", 1.0)), 0.11, True),
        ("s0", "pA", (("a", 1.0), ("b", 1.0)), 0.23, False),
        ("s1", "pB", (("b", 1.0), ("a", 1.0)), 0.37, True),
        ("s0", "pA", (("b", 1.0), ("a", 1.0)), 0.41, False),
        ("s1", "pC", (("a", 1.0), (CTL, 0.0)), 0.53, False),
    ],
    "B5": [
        ("s0", "q1", (("a", 1.0),), 0.1, False),
        ("s1", "q0", (("a", 1.0),), 0.2, True),
        ("s0", "q1", (("a", 1.0),), 0.3, False),
        ("s1", "q0", (("b", 1.0),), 0.4, True),
        ("s0", "q1", (("a", 2.0),), 0.5, False),
    ],
}
# the same rows on a parent that was built with SUPPLIED id mappings whose ids do not follow the listing order (ids reversed,
# listing rotated): a view must report the parent's values, whatever the numbering
PERMUTED = {"A4p": "A4", "B4p": "B4", "D4p": "D4"}
for _k, _v in PERMUTED.items():
    PARENTS[_k] = PARENTS[_v]


def permuted_mappings(plain):
    """Valid mappings for the rows of `plain` (a screen batchie numbered itself) with another numbering."""
    sn, si = (np.asarray(a) for a in plain.sample_mapping)
    tn, td, ti = (np.asarray(a) for a in plain.treatment_mapping)
    si2 = (int(si.max()) - si) if si.size else si
    top = int(ti.max()) if ti.size else -1
    ti2 = np.where(ti == -1, -1, top - ti)
    roll = lambda a: np.roll(a, 1)  # noqa: E731
    return (sn, si2), (roll(tn), roll(td), roll(ti2))  # (samples: ids reversed against the listing; treatments: reversed and rotated)


ATTRS = ("plate_ids", "sample_ids", "treatment_ids", "sample_names", "treatment_names", "treatment_doses",
         "observations", "observation_mask")
ROW_ATTRS = ("sample_names", "treatment_names", "treatment_doses", "observations", "observation_mask", "plate_names")
BIN_BUDGET = 40000


# ------------------------------------------------------------------ small helpers
def vec(bits, n):
    return np.array([bool(bits >> i & 1) for i in range(n)], dtype=bool)


def bits_of(sv):
    return sum(1 << i for i, b in enumerate(sv.tolist()) if b)


def popcount(b):
    return bin(b).count("1")


def scatter(outer, inner):
    """Compose: the j-th selected row of `outer` is kept iff bit j of `inner`."""
    out, j, i = 0, 0, 0
    while outer >> i:
        if outer >> i & 1:
            if inner >> j & 1:
                out |= 1 << i
            j += 1
        i += 1
    return out


def _nan_safe(x):
    if isinstance(x, list):
        return [_nan_safe(y) for y in x]
    if isinstance(x, float) and x != x:
        return "nan"
    return x


def tolist(a):
    return _nan_safe(np.asarray(a).tolist())


def well_formed(v, n):
    sv = getattr(v, "selection_vector", None)
    return isinstance(sv, np.ndarray) and sv.dtype == bool and sv.shape == (n,)


# ------------------------------------------------------------------ context = one parent screen
class Ctx:
    def __init__(self, pname, sub):
        self.pname = pname
        self.sub = sub
        self.screen = self._make()
        self.twin = None
        if self.screen is None:
            return
        self.twin = self._make()
        s = self.screen
        self.n = int(s.observation_mask.shape[0])
        self.full = (1 << self.n) - 1
        self.ref = {a: tolist(getattr(s, a)) for a in ATTRS}
        self.ref["plate_names"] = tolist(s.plate_names)
        try:
            ste = s.single_treatment_effects
            self.ref_ste = None if ste is None else tolist(ste)
            self.ste_ok = True
        except Exception:  # noqa: BLE001  (arity 1: the parent itself cannot report it)
            self.ste_ok = False
        self.arity = int(np.asarray(s.treatment_ids).shape[1])
        self.fp0 = self.fingerprint()

    def _make(self):
        rows = PARENTS[self.pname]
        top = make_screen(rows, control=CTL)
        if self.pname in PERMUTED:
            sm, tm = permuted_mappings(top)
            top = make_screen(rows, control=CTL, sample_mapping=sm, treatment_mapping=tm)
        full = (1 << len(rows)) - 1
        if self.sub == full:
            return top
        try:
            return top.subset(vec(self.sub, len(rows))).to_screen()
        except Exception as exc:  # noqa: BLE001
            if not exception_origin_in_repo(exc):
                raise
            return None

    def fingerprint(self):
        s = self.screen
        return tuple(repr(tolist(getattr(s, a))) for a in ATTRS) + (repr(tolist(s.plate_names)),)

    def at(self, attr, bits):
        r = self.ref[attr]
        return [r[i] for i in range(self.n) if bits >> i & 1]


def operand_bits(ctx, x):
    return ctx.full if isinstance(x, Screen) else bits_of(x.selection_vector)


# ------------------------------------------------------------------ plain operations (shared with replay)
def execute(ctx, label, operands):
    kind = label[0]
    if kind == "subset":
        x = operands[0]
        k = ctx.n if isinstance(x, Screen) else popcount(bits_of(x.selection_vector))
        return x.subset(vec(label[1], k))
    if kind == "invert":
        return operands[0].invert()
    if kind == "combine":
        return operands[0].combine(operands[1])
    if kind == "concat":
        return ScreenSubset.concat(list(operands))
    if kind == "to_screen":
        return operands[0].to_screen()
    if kind == "subset_observed":
        return operands[0].subset_observed()
    if kind == "subset_unobserved":
        return operands[0].subset_unobserved()
    if kind == "get_plate":
        return operands[0].get_plate(label[1])
    if kind == "plates":
        return operands[0].plates
    if kind == "plates_item":
        return operands[0].plates[label[1]]
    if kind == "unique":
        return filter_dataset_to_unique_treatments(operands[0])
    if kind == "twin_subset":
        return ctx.twin.subset(vec(label[1], ctx.n))
    raise KeyError(kind)


def build(ctx, recipe):
    """recipe = ["root"] | [label, [operand recipes]]"""
    if recipe == ["root"]:
        return ctx.screen
    label, ops = recipe
    return execute(ctx, label, [build(ctx, r) for r in ops])


def guarded(ctx, label, operands):
    try:
        return execute(ctx, label, operands), None
    except Exception as exc:  # noqa: BLE001
        if not exception_origin_in_repo(exc):
            raise
        return None, exc


# ------------------------------------------------------------------ oracle
def judge_view(ctx, v, want, kind, what):
    """The returned object must be a view of ctx.screen selecting exactly `want`."""
    if not isinstance(v, ScreenSubset):
        return [(f"C14|{kind}|not-a-view", f"{what} returned {type(v).__name__}")]
    if v.screen is not ctx.screen:
        return [(f"C14|{kind}|wrong-parent", f"{what} returned a view of another screen object")]
    if not well_formed(v, ctx.n):
        return [(f"C14|{kind}|malformed-selection", f"{what}: selection_vector is {getattr(v, 'selection_vector', None)!r}")]
    got = bits_of(v.selection_vector)
    if got != want:
        return [(f"C14|{kind}|selection", f"{what} selects rows {rows_of_bits(got)}, reference {rows_of_bits(want)}")]
    return []


def rows_of_bits(b):
    return [i for i in range(b.bit_length()) if b >> i & 1]


def unique_ok(ctx, xb, rb):
    if rb & ~xb:
        return False
    sid, tid = ctx.ref["sample_ids"], ctx.ref["treatment_ids"]
    for reading in (lambda t: tuple(t), lambda t: tuple(sorted(t))):
        classes = {}
        for i in rows_of_bits(xb):
            classes.setdefault((sid[i], reading(tid[i])), []).append(i)
        if all(sum(1 for i in idx if rb >> i & 1) == 1 for idx in classes.values()):
            return True
    return False


def check_attributes(ctx, v, bits, kind="attributes"):
    bad = []
    for a in ATTRS:
        got = tolist(getattr(v, a))
        want = ctx.at(a, bits)
        if got != want:
            bad.append((f"C14|{kind}|{a}", f"view of rows {rows_of_bits(bits)} reports {a}={got}, parent rows give {want}"))
    if v.size != popcount(bits):
        bad.append((f"C14|{kind}|size", f"view of rows {rows_of_bits(bits)} reports size {v.size}"))
    if ctx.ste_ok:
        got = v.single_treatment_effects
        if ctx.ref_ste is None:
            if got is not None:
                bad.append((f"C14|{kind}|single_treatment_effects", "view reports single effects the parent does not have"))
        else:
            want = [ctx.ref_ste[i] for i in rows_of_bits(bits)]
            if got is None or tolist(got) != want:
                bad.append((f"C14|{kind}|single_treatment_effects",
                            f"view of rows {rows_of_bits(bits)} reports single effects {None if got is None else tolist(got)}, parent rows give {want}"))
    return bad


def judge(ctx, label, operands, pre, result, exc):
    """pre: selection_vector bytes of every view operand before the call (None for screens).
    Returns (verdicts, info) with info = {outcome, nontrivial, refused, results: [(view, bits)]}."""
    kind = label[0]
    bad = []
    info = {"refused": exc is not None, "nontrivial": False, "results": []}
    obits = [operand_bits(ctx, x) if pre_i is None else int.from_bytes(pre_i[1], "little") for x, pre_i in zip(operands, pre)]
    what = f"{kind}{label[1:]} on {[('screen' if p is None else p[0]) + str(rows_of_bits(b)) for p, b in zip(pre, obits)]}"

    # operands must be untouched (aliasing)
    for j, (x, p) in enumerate(zip(operands, pre)):
        if p is None:
            continue
        sv = getattr(x, "selection_vector", None)
        now = sv.tobytes() if isinstance(sv, np.ndarray) else None
        if now != p[2]:
            bad.append((f"C14|{kind}|operand-mutated",
                        f"{what}: operand {j} selected rows {rows_of_bits(obits[j])} before the call and "
                        f"{None if now is None else rows_of_bits(bits_of(sv))} after it"))
        if x.screen is not p[3]:
            bad.append((f"C14|{kind}|operand-mutated", f"{what}: operand {j} now belongs to another parent"))

    parents = {id(x if isinstance(x, Screen) else x.screen) for x in operands}
    foreign = kind in ("combine", "concat") and len(operands) >= 2 and len(parents) > 1
    if foreign:
        if exc is None:
            bad.append((f"C14|{kind}|foreign-parent-accepted", f"{what}: views of two different parent objects were combined"))
        else:
            info["nontrivial"] = True
        info["outcome"] = (kind, "foreign", "refused" if exc is not None else "returned")
        return bad, info

    if exc is not None:
        info["outcome"] = (kind, "raised", type(exc).__name__)
        free = (kind == "concat" and not operands) or (kind == "to_screen" and obits[0] == 0) or \
               (kind == "get_plate" and label[1] not in ctx.ref["plate_ids"])
        if not free:
            bad.append((f"C14|{kind}|raised", f"{what} raised: {short_exc(exc)}"))
        return bad, info

    if kind == "subset":
        want = scatter(obits[0], label[1])
    elif kind == "invert":
        want = ctx.full & ~obits[0]
    elif kind in ("combine", "concat"):
        want = 0
        for b in obits:
            want |= b
    elif kind in ("subset_observed", "subset_unobserved"):
        m = sum(1 << i for i, x in enumerate(ctx.ref["observation_mask"]) if x)
        want = m if kind == "subset_observed" else ctx.full & ~m
    elif kind == "get_plate":
        want = sum(1 << i for i, x in enumerate(ctx.ref["plate_ids"]) if x == label[1])
    else:
        want = None

    if kind == "concat" and not operands:
        info["outcome"] = (kind, "empty-list-returned")
        return bad, info
    if kind in ("subset", "invert", "combine", "concat", "get_plate"):
        v = judge_view(ctx, result, want, kind, what)
        bad.extend(v)
        if not v:
            info["results"].append((result, want))
    elif kind in ("subset_observed", "subset_unobserved"):
        if result is None:
            if want != 0:
                bad.append((f"C14|{kind}|selection", f"{kind} returned None although rows {rows_of_bits(want)} qualify"))
        else:
            v = judge_view(ctx, result, want, kind, what)
            bad.extend(v)
            if not v:
                info["results"].append((result, want))
    elif kind == "plates":
        by_id = {}
        for i, x in enumerate(ctx.ref["plate_ids"]):
            by_id[x] = by_id.get(x, 0) | 1 << i
        ok = isinstance(result, list) and all(isinstance(p, ScreenSubset) and p.screen is ctx.screen and well_formed(p, ctx.n) for p in result)
        if not ok:
            bad.append(("C14|plates|malformed", f"plates returned {result!r}"))
        else:
            got = sorted(bits_of(p.selection_vector) for p in result)
            if got != sorted(by_id.values()):
                bad.append(("C14|plates|selection", f"plates select {[rows_of_bits(b) for b in got]}, "
                            f"the plate ids partition the rows as {[rows_of_bits(b) for b in sorted(by_id.values())]}"))
            else:
                info["results"] = [(p, bits_of(p.selection_vector)) for p in result]
        want = tuple(sorted(by_id.values()))
    elif kind == "unique":
        v = judge_view(ctx, result, bits_of(result.selection_vector) if well_formed(result, ctx.n) else -1, kind, what)
        bad.extend(v)
        if not v:
            rb = bits_of(result.selection_vector)
            if not unique_ok(ctx, obits[0], rb):
                keys = [(ctx.ref["sample_ids"][i], ctx.ref["treatment_ids"][i]) for i in rows_of_bits(obits[0])]
                bad.append(("C14|unique|one-per-condition",
                            f"unique filter on rows {rows_of_bits(obits[0])} with (sample id, treatment ids) {keys} keeps rows {rows_of_bits(rb)}"))
            else:
                info["results"].append((result, rb))
            want = rb
    elif kind == "to_screen":
        if not isinstance(result, Screen):
            bad.append(("C14|to_screen|not-a-screen", f"{what} returned {type(result).__name__}"))
        else:
            for a in ROW_ATTRS:
                got = tolist(getattr(result, a))
                exp = ctx.at(a, obits[0])
                if got != exp:
                    bad.append((f"C14|to_screen|{a}", f"{what}: materialised {a}={got}, selected parent rows give {exp}"))
        want = obits[0]
    info["outcome"] = (kind, type(result).__name__, want if not isinstance(want, tuple) else want)
    if isinstance(want, tuple):
        info["nontrivial"] = len(want) > 1
    elif want is not None:
        info["nontrivial"] = 0 < want < ctx.full
    return bad, info


# ------------------------------------------------------------------ exploration of one parent
class Node:
    __slots__ = ("obj", "recipe", "key")

    def __init__(self, obj, recipe, key):
        self.obj = obj
        self.recipe = recipe
        self.key = key


def view_key(v):
    return ("V", type(v).__name__, bits_of(v.selection_vector))


def snapshot_operands(operands):
    pre = []
    for x in operands:
        if isinstance(x, Screen):
            pre.append(None)
        else:
            sv = x.selection_vector
            b = bits_of(sv)
            pre.append((type(x).__name__, b.to_bytes(2, "little"), sv.tobytes(), x.screen))
    return pre


def explore_ctx(ctx, col, concat_len):
    base = {"parent": ctx.pname, "sub": ctx.sub}
    ckey = (ctx.pname, ctx.sub)
    nodes = {}

    def run(label, opnodes, check_parent=True):
        """Execute + judge one operation; returns the well-formed result views [(obj, bits)]."""
        operands = [nd.obj for nd in opnodes]
        pre = snapshot_operands(operands)
        result, exc = guarded(ctx, label, operands)
        col.evaluations += 1
        col.transitions += 1
        col.count("op:" + label[0])
        bad, info = judge(ctx, label, operands, pre, result, exc)
        if check_parent and ctx.fingerprint() != ctx.fp0:
            bad.append((f"C14|{label[0]}|parent-changed", f"{label} changed the parent screen's own arrays"))
        col.outcome(ctx.n, *info["outcome"])
        if info["refused"]:
            col.refused += 1
        if info["nontrivial"]:
            col.nontriv(ckey, label, tuple(nd.key for nd in opnodes), info["outcome"])
        if bad:
            case = dict(base, op=label, operands=[nd.recipe for nd in opnodes])
            for sig, msg in bad:
                col.violation(sig, f"parent {ctx.pname} rows {rows_of_bits(ctx.sub)}: {msg}", case)
        return info["results"]

    def successors(node, depth):
        x = node.obj
        if node.key == ("S",):
            labels = [["subset", i] for i in range(1 << ctx.n)]
            labels += [["subset_observed"], ["subset_unobserved"], ["unique"]]
            ids = sorted(set(ctx.ref["plate_ids"]))
            labels += [["get_plate", p] for p in ids + [(max(ids) + 1 if ids else 0)]]
            for label in labels:
                for v, _ in run(label, [node]):
                    yield label, Node(v, [label, [node.recipe]], view_key(v))
            for j, (v, _) in enumerate(run(["plates"], [node])):
                yield ["plates_item", j], Node(v, [["plates_item", j], [node.recipe]], view_key(v))
            return
        k = popcount(node.key[2])
        labels = [["subset", i] for i in range(1 << k)] + [["invert"], ["unique"]]
        for label in labels:
            for v, _ in run(label, [node]):
                child = Node(v, [label, [node.recipe]], view_key(v))
                yield label, child
                # Histories, not only states: a view with this selection may have been reached before by a shorter recipe, and
                # the search would then never look at THIS object again (anything it remembers about how it was made - its
                # outer view, a cache - is not part of the state key).  Every freshly produced view is therefore taken one
                # step further here, whatever the search does with it: complement, materialisation, attributes.
                run(["invert"], [child])
                run(["to_screen"], [child])
                for sig, msg in check_attributes(ctx, child.obj, bits_of(child.obj.selection_vector), kind="attributes-of-nested-view"):
                    col.violation(sig, f"parent {ctx.pname} rows {rows_of_bits(ctx.sub)}: {msg}", dict(base, op=["attributes"], operands=[child.recipe]))
        run(["to_screen"], [node])
        # equal-content twin parent: must refuse
        bits = node.key[2]
        twins = [Node(execute(ctx, ["twin_subset", b], []), [["twin_subset", b], []], ("T", b)) for b in (bits, ctx.full)]
        run(["combine"], [node, twins[0]])
        run(["combine"], [twins[0], node])
        run(["concat"], [node, twins[0]])
        run(["concat"], [twins[1], node])
        if concat_len >= 3:
            run(["concat"], [node, node, twins[0]])
            run(["concat"], [node, twins[1], node])
            run(["concat"], [twins[0], node, node])

    def check_state(node, hist):
        nodes[node.key] = node
        if node.key == ("S",):
            return
        bad = check_attributes(ctx, node.obj, node.key[2])
        col.evaluations += 1
        for sig, msg in bad:
            col.violation(sig, f"parent {ctx.pname} rows {rows_of_bits(ctx.sub)}: {msg}",
                          dict(base, op=["attributes"], operands=[node.recipe]))

    root = Node(ctx.screen, ["root"], ("S",))
    bfs([root], successors, lambda nd: nd.key, check_state=check_state)

    # n-ary closure
    for _round in range(4):
        views = [nodes[k] for k in sorted(k for k in nodes if k[0] == "V")]
        fresh = []

        def note(results, label, opnodes):
            for v, _ in results:
                key = view_key(v)
                if key not in nodes and all(key != f.key for f in fresh):
                    fresh.append(Node(v, [label, [nd.recipe for nd in opnodes]], key))

        for a in views:
            for b in views:
                note(run(["combine"], [a, b], check_parent=False), ["combine"], [a, b])
            if ctx.fingerprint() != ctx.fp0:
                col.violation("C14|combine|parent-changed", f"parent {ctx.pname} rows {rows_of_bits(ctx.sub)}: combine changed the parent screen",
                              dict(base, op=["combine"], operands=[a.recipe, a.recipe]))
        for ln in range(0, concat_len + 1):
            for tup in itertools.product(views, repeat=ln):
                note(run(["concat"], list(tup), check_parent=False), ["concat"], list(tup))
        if ctx.fingerprint() != ctx.fp0:
            col.violation("C14|concat|parent-changed", f"parent {ctx.pname} rows {rows_of_bits(ctx.sub)}: concat changed the parent screen",
                          dict(base, op=["concat"], operands=[]))
        if not fresh:
            break
        bfs(fresh, successors, lambda nd: nd.key, check_state=check_state)
    else:
        col.cap(f"n-ary closure did not converge in 4 rounds for parent {ctx.pname} rows {rows_of_bits(ctx.sub)}")
    col.states += len(nodes)
    col.count("view_states", len(nodes) - 1)
    return len(nodes)


# ------------------------------------------------------------------ contract
def plan(tier, seed):
    names = BOUNDS[tier]["parents"]
    L = BOUNDS[tier]["concat_list_len"]
    items = []
    for p in names:
        n = len(PARENTS[p])
        subs = sorted(range(1 << n), key=lambda s: (-popcount(s), s))
        cur, cost = [], 0
        for s in subs:
            c = (2 ** (popcount(s) + 1)) ** L
            if cur and cost + c > BIN_BUDGET:
                items.append({"parent": p, "subs": cur, "concat_len": L})
                cur, cost = [], 0
            cur.append(s)
            cost += c
        if cur:
            items.append({"parent": p, "subs": cur, "concat_len": L})
    for p in names:
        if any(not r[4] for r in PARENTS[p]):
            items.append({"held": True, "parent": p})
    # sparse probes far above the enumerated sizes: hundreds of plates, thousands of rows, plates blocked and interleaved
    for rows, plates, blocked in ((300, 300, True), (771, 257, False), (1500, 3, True), (4200, 7, True), (2048, 4, False)):
        items.append({"large": True, "rows": rows, "plates": plates, "blocked": blocked})
    return items


# ------------------------------------------------------------------ views held while results are recorded
def held_recipes(n, plate_ids):
    out = [("subset_observed",), ("subset_unobserved",), ("invert_observed",)]
    out += [("get_plate", int(p)) for p in plate_ids] + [("plates_item", k) for k in range(len(plate_ids))]
    out += [("subset", b) for b in range(1 << n)]
    return out


def held_build(screen, recipe, n):
    k = recipe[0]
    if k == "subset_observed":
        return screen.subset_observed()
    if k == "subset_unobserved":
        return screen.subset_unobserved()
    if k == "invert_observed":
        v = screen.subset_observed()
        return None if v is None else v.invert()
    if k == "get_plate":
        return screen.get_plate(recipe[1])
    if k == "plates_item":
        return screen.plates[recipe[1]]
    return screen.subset(vec(recipe[1], n))


def held_check(screen, v, n, ste_ok):
    """A view reports the parent's (current) values at the rows its selection_vector names, and materialises to those rows."""
    bad = []
    if not well_formed(v, n):
        return [("C14|held|malformed-selection", f"selection_vector is {getattr(v, 'selection_vector', None)!r}")]
    sv = np.array(v.selection_vector, dtype=bool, copy=True)
    rows = np.flatnonzero(sv).tolist()
    for a in ATTRS:
        got, want = tolist(getattr(v, a)), tolist(np.asarray(getattr(screen, a))[sv])
        if got != want:
            bad.append((f"C14|held|{a}", f"view selecting rows {rows} reports {a}={got}, the parent's rows give {want}"))
    if v.size != len(rows):
        bad.append(("C14|held|size", f"view selecting rows {rows} reports size {v.size}"))
    if ste_ok and screen.single_treatment_effects is not None:
        got, want = v.single_treatment_effects, tolist(np.asarray(screen.single_treatment_effects)[sv])
        if got is None or tolist(got) != want:
            bad.append(("C14|held|single_treatment_effects", f"view selecting rows {rows} reports single effects {None if got is None else tolist(got)}, parent rows give {want}"))
    if rows:
        try:
            m = v.to_screen()
        except Exception as exc:  # noqa: BLE001
            if not exception_origin_in_repo(exc):
                raise
            bad.append(("C14|held|to_screen-raised", f"to_screen of rows {rows} raised {short_exc(exc)}"))
        else:
            for a in ROW_ATTRS:
                got, want = tolist(getattr(m, a)), tolist(np.asarray(getattr(screen, a))[sv])
                if got != want:
                    bad.append((f"C14|held|to_screen|{a}", f"materialised view of rows {rows} has {a}={got}, parent rows give {want}"))
    return bad


def run_held(item, col):
    """History: take a view, then record results on the parent (Screen.set_observed, the documented way to fill in a plate),
    then read the view.  Which rows an observed/unobserved view selects afterwards is free; that its attributes, size and
    materialisation agree with the rows it says it selects is not."""
    pname = item["parent"]
    rows = PARENTS[pname]
    n = len(rows)
    probe = make_screen(rows, control=CTL)
    masked = [i for i, r in enumerate(rows) if not r[4]]
    plate_ids = sorted(int(p) for p in np.unique(probe.plate_ids))
    try:
        probe.single_treatment_effects
        ste_ok = True
    except Exception:  # noqa: BLE001
        ste_ok = False
    recipes = held_recipes(n, plate_ids)
    # results arrive plate by plate (a screen with a part-observed plate is not a legal screen): every non-empty union of unobserved plates
    by_plate = {}
    for i in masked:
        by_plate.setdefault(rows[i][1], []).append(i)
    groups = list(by_plate.values())
    # history on the plates that are observed already: each is recorded once more (same values), round after round; the mask
    # stays what it was and the fresh views keep splitting the screen by it
    obs_by_plate = {}
    for i, r in enumerate(rows):
        if r[4]:
            obs_by_plate.setdefault(r[1], []).append(i)
    if obs_by_plate:
        screen = make_screen(rows, control=CTL)
        mask0 = sum(1 << i for i, r in enumerate(rows) if r[4])
        case = {"held": True, "parent": pname, "recipe": ["re-record"], "fill": []}
        done = []
        for rnd in range(n + 1):
            for pl, idxs in sorted(obs_by_plate.items()):
                col.transitions += 1
                screen.set_observed(vec(sum(1 << i for i in idxs), n), np.array([rows[i][3] for i in idxs], dtype=float))
                done.append(pl)
                m_now = bits_of(np.asarray(screen.observation_mask, dtype=bool))
                bad_here = False
                if m_now != mask0:
                    col.violation("C14|held|mask-after-repeat", f"parent {pname}: recording the observed plates {done} once more changed the mask to {rows_of_bits(m_now)}", case)
                    bad_here = True
                for name, want in (("subset_observed", m_now), ("subset_unobserved", ((1 << n) - 1) & ~m_now)):
                    f = getattr(screen, name)()
                    got = 0 if f is None else bits_of(f.selection_vector)
                    if got != want:
                        col.violation(f"C14|held|{name}|repeat", f"parent {pname} after the observed plates {done} were recorded once more: {name}() selects {rows_of_bits(got)}, mask says {rows_of_bits(want)}", case)
                        bad_here = True
                if bad_here:
                    break
            else:
                continue
            break
        col.outcome("held", "re-record", len(done))
        col.nontriv("held", pname, "re-record")
    for k in range(1, len(groups) + 1):
        for chosen in itertools.combinations(groups, k):
            fill = tuple(sorted(i for g in chosen for i in g))
            fbits = sum(1 << i for i in fill)
            for recipe in recipes:
                case = {"held": True, "parent": pname, "recipe": list(recipe), "fill": list(fill)}
                col.evaluations += 1
                col.states += 1
                col.transitions += 2
                screen = make_screen(rows, control=CTL)
                try:
                    v = held_build(screen, recipe, n)
                except Exception as exc:  # noqa: BLE001
                    if not exception_origin_in_repo(exc):
                        raise
                    col.refused += 1
                    continue
                if v is None:
                    col.outcome("held", "none")
                    continue
                before = bits_of(v.selection_vector)
                screen.set_observed(vec(fbits, n), np.array([0.9 - 0.05 * i for i in fill], dtype=float))
                for sig, msg in held_check(screen, v, n, ste_ok):
                    col.violation(sig, f"parent {pname}, view {recipe} taken, then set_observed(rows {list(fill)}): {msg}", case)
                after = bits_of(v.selection_vector) if well_formed(v, n) else -1
                col.outcome("held", recipe[0], before == after)
                col.nontriv("held", pname, recipe, fill)
                # fresh views split the screen by its (new) mask
                new_mask = sum(1 << i for i, r in enumerate(rows) if r[4]) | fbits
                for name, want in (("subset_observed", new_mask), ("subset_unobserved", ((1 << n) - 1) & ~new_mask)):
                    f = getattr(screen, name)()
                    got = 0 if f is None else bits_of(f.selection_vector)
                    if got != want:
                        col.violation(f"C14|held|{name}", f"parent {pname} after set_observed(rows {list(fill)}): {name}() selects {rows_of_bits(got)}, mask says {rows_of_bits(want)}", case)
                # longer history (first recipe only): the same results are recorded again and again (a plate read a second
                # time; set_observed does not refuse rows that are already observed) - the mask does not change, and the
                # fresh views still split the screen by the mask the screen itself reports
                if recipe == recipes[0]:
                    for rep in range(1, -(-n // len(fill)) + 2):  # often enough that a running count of recorded rows passes n
                        col.transitions += 1
                        screen.set_observed(vec(fbits, n), np.array([0.9 - 0.05 * i for i in fill], dtype=float))
                        m_now = bits_of(np.asarray(screen.observation_mask, dtype=bool))
                        if m_now != new_mask:
                            col.violation("C14|held|mask-after-repeat", f"parent {pname}: recording rows {list(fill)} a {rep + 1}. time changed the mask to {rows_of_bits(m_now)}", case)
                            break
                        for name, want in (("subset_observed", m_now), ("subset_unobserved", ((1 << n) - 1) & ~m_now)):
                            f = getattr(screen, name)()
                            got = 0 if f is None else bits_of(f.selection_vector)
                            if got != want:
                                col.violation(f"C14|held|{name}|repeat", f"parent {pname} after set_observed(rows {list(fill)}) was called {rep + 1} times: {name}() selects {rows_of_bits(got)}, mask says {rows_of_bits(want)}", case)
                    col.outcome("held", "repeat", len(groups))


# ------------------------------------------------------------------ sparse probes: many plates, many rows
def _large_screen(n_rows, n_plates, blocked):
    rows = []
    for i in range(n_rows):
        p = (i * n_plates // n_rows) if blocked else (i % n_plates)
        rows.append((f"s{i % 3}", f"pl{p:04d}", (("a", 1.0 + (i % 4)), ("b", 1.0) if i % 5 else (CTL, 0.0)), round(0.001 * (i % 977) + 0.01, 5), p % 2 == 0))
    return make_screen(rows, control=CTL)


def _view_matches(screen, v, sel, what, col, case):
    """attributes, size and materialisation of view v against the parent's rows at boolean selection sel"""
    sel = np.asarray(sel, dtype=bool)
    if not well_formed(v, len(sel)) or not np.array_equal(np.asarray(v.selection_vector, dtype=bool), sel):
        got = np.flatnonzero(np.asarray(getattr(v, "selection_vector", []), dtype=bool)).tolist()
        col.violation("C14|large|selection", f"{what}: selects {len(got)} rows (first {got[:6]}), reference selects {int(sel.sum())} rows (first {np.flatnonzero(sel)[:6].tolist()})", case)
        return
    for a in ATTRS:
        if tolist(getattr(v, a)) != tolist(np.asarray(getattr(screen, a))[sel]):
            col.violation(f"C14|large|{a}", f"{what}: attribute {a} differs from the parent's values at the selected rows", case)
            return
    if sel.any():
        m = v.to_screen()
        for a in ROW_ATTRS:
            got, want = tolist(getattr(m, a)), tolist(np.asarray(getattr(screen, a))[sel])
            if got != want:
                k = next((i for i, (x, y) in enumerate(zip(got, want)) if x != y), min(len(got), len(want)))
                col.violation(f"C14|large|to_screen|{a}", f"{what}: the materialised screen has {len(got)} rows, the view {len(want)}; first difference in {a} at row {k}", case)
                return


def run_large(item, col):
    n_rows, n_plates, blocked = item["rows"], item["plates"], item["blocked"]
    screen = _large_screen(n_rows, n_plates, blocked)
    case = {"large": True, "rows": n_rows, "plates": n_plates, "blocked": blocked}
    ids = np.asarray(screen.plate_ids)
    plates = screen.plates
    col.evaluations += 1
    col.states += 1
    if len(plates) != n_plates:
        col.violation("C14|large|plates-count", f"{n_plates} plates, Screen.plates lists {len(plates)}", case)
    seen = []
    for p in plates:
        col.transitions += 1
        pid = int(p.plate_id)
        seen.append(pid)
        _view_matches(screen, p, ids == pid, f"{n_plates} plates / {n_rows} rows: plates[] entry with id {pid}", col, case)
        if col.n_violations:
            break
    if sorted(seen) != sorted(set(ids.tolist())) and not col.n_violations:
        col.violation("C14|large|plates-ids", f"Screen.plates lists ids {sorted(seen)[:8]}..., the screen has {sorted(set(ids.tolist()))[:8]}...", case)
    # compositions whose selection is the complement of an interior block, a prefix, a suffix, a stride
    uniq = sorted(set(ids.tolist()))
    first, mid, last = uniq[0], uniq[len(uniq) // 2], uniq[-1]
    gp = screen.get_plate
    probes = [
        ("interior plate inverted", lambda: gp(mid).invert(), ids != mid),
        ("first plate combined with last", lambda: gp(first).combine(gp(last)), (ids == first) | (ids == last)),
        ("all rows but one interior row", lambda: screen.subset(np.arange(n_rows) != n_rows // 2), np.arange(n_rows) != n_rows // 2),
        ("concat of every plate but an interior one", lambda: ScreenSubset.concat([gp(u) for u in uniq if u != mid]), ids != mid),
        ("prefix", lambda: screen.subset(np.arange(n_rows) < n_rows // 3), np.arange(n_rows) < n_rows // 3),
        ("suffix", lambda: screen.subset(np.arange(n_rows) >= n_rows // 3), np.arange(n_rows) >= n_rows // 3),
        ("every third row", lambda: screen.subset(np.arange(n_rows) % 3 == 1), np.arange(n_rows) % 3 == 1),
        ("observed view", lambda: screen.subset_observed(), np.asarray(screen.observation_mask, dtype=bool).copy()),
        ("unobserved view inverted", lambda: screen.subset_unobserved().invert(), np.asarray(screen.observation_mask, dtype=bool).copy()),
    ]
    for label, make, sel in probes:
        col.evaluations += 1
        col.transitions += 1
        _view_matches(screen, make(), sel, f"{n_plates} plates / {n_rows} rows: {label}", col, case)
        col.nontriv("large", n_rows, n_plates, blocked, label)
    col.outcome("large", n_rows, n_plates, blocked)


def run_item(item, col, tier):
    if item.get("large"):
        return run_large(item, col)
    if item.get("held"):
        return run_held(item, col)
    for sub in item["subs"]:
        ctx = Ctx(item["parent"], sub)
        col.evaluations += 1
        if ctx.screen is None:
            col.refused += 1
            col.outcome("sub-screen", "refused", popcount(sub))
            continue
        n_states = explore_ctx(ctx, col, item["concat_len"])
        col.sample({"parent": item["parent"], "rows": PARENTS[item["parent"]], "sub_screen_rows": rows_of_bits(sub),
                    "states": n_states})


def replay(case, col):
    if case.get("large"):
        return run_large(case, col)
    if case.get("held"):
        return run_held({"held": True, "parent": case["parent"]}, col)
    ctx = Ctx(case["parent"], case["sub"])
    print("parent", case["parent"], "rows:")
    for i, r in enumerate(PARENTS[case["parent"]]):
        print("   ", i, r, "" if case["sub"] >> i & 1 else "(not in this sub-screen)")
    label = case["op"]
    operands = [build(ctx, r) for r in case["operands"]]
    col.evaluations += 1
    if label[0] == "attributes":
        v = operands[0]
        bits = bits_of(v.selection_vector)
        print("view built by", case["operands"][0], "selects rows", rows_of_bits(bits))
        for sig, msg in check_attributes(ctx, v, bits):
            col.violation(sig, msg, case)
        return
    pre = snapshot_operands(operands)
    print("operation", label, "on operands built by", case["operands"])
    for x in operands:
        if not isinstance(x, Screen):
            print("   operand", type(x).__name__, "rows", rows_of_bits(bits_of(x.selection_vector)))
    result, exc = guarded(ctx, label, operands)
    if exc is not None:
        print("raised:", short_exc(exc))
    elif isinstance(result, ScreenSubset):
        print("result", type(result).__name__, "selection_vector", tolist(result.selection_vector))
    else:
        print("result", result)
    bad, _ = judge(ctx, label, operands, pre, result, exc)
    if ctx.fingerprint() != ctx.fp0:
        bad.append((f"C14|{label[0]}|parent-changed", f"{label} changed the parent screen's own arrays"))
    for sig, msg in bad:
        col.violation(sig, msg, case)
