"""C16  The k-per-sample policy yields batches with zero or exactly k plates per sample.

Explicit-state BFS to a fixpoint.  A state is (sorted batch plate names, sorted revealed
plate names); one real Screen per (configuration, revealed set).  In every reachable state
the real `select_next_plate` is driven with the real `KPerSamplePlatePolicy` (wrapped by a
recorder that only copies the list the policy returns) and a real `ChunkedScoresHolder`:
once to learn which plates are allowed, then once for every allowed plate with scores that
make that plate the best *allowed* one (every disallowed remaining plate scores better
still), so that every selection order consistent with the policy is followed.
"""
import itertools
import os
import math

import numpy as np

from .. import env

env.setup()

from ..bfs import bfs  # noqa: E402
from ..core import exception_origin_in_repo, short_exc  # noqa: E402
from ..screens import make_screen  # noqa: E402

from batchie import retrospective as R  # noqa: E402
from batchie.core import PlatePolicy  # noqa: E402
from batchie.policies.k_per_sample import KPerSamplePlatePolicy  # noqa: E402
from batchie.scoring.main import ChunkedScoresHolder, select_next_plate  # noqa: E402

PROP = "C16"
EPILOGUE_ITEMS = 2
LEVEL = "model_checking"
ENGINE = "E3-state-bfs"
TECHNIQUE = (
    "explicit-state BFS to a fixpoint over every batch reachable through the real select_next_plate + "
    "KPerSamplePlatePolicy, every allowed plate in turn being given the best allowed score"
)
LEVEL_TEXT = (
    "Every batch state reachable from the empty batch (and, in the multi-batch variant, from every set of "
    "previously revealed batches) is visited for every configuration inside the bounds; in each state the list "
    "returned by the real policy inside the real select_next_plate is compared with the statement's rules, and "
    "every allowed plate is actually selected once. Exhaustive inside the bounds; nothing is claimed for more "
    "samples / plates per sample / larger k."
)
RULE = (
    "configurations = k x ordered tuple of samples (u unobserved + o pre-observed one-sample plates each, plate ids "
    "interleaved across samples or blocked) x variant (single batch grown until nothing is allowed | multi-batch: a "
    "batch of m*k plates may be closed, its plates revealed with the real reveal_plates, and a new batch started); "
    "states = distinct (batch, revealed) sets reached by BFS; transitions = real selections (one per allowed plate per "
    "state) and batch closures; plus every placement of a two-sample plate (remaining / in the batch / first, middle, "
    "last id) which must be refused.  A state is non-trivial (counted once per distinct configuration+state) when the "
    "policy's restriction bites: at least one plate is allowed and at least one remaining unobserved plate is not"
)
BOUNDS = {
    "quick": {
        "k": [1, 2, 3], "samples": [1, 2, 3], "unobserved_plates_per_sample": [0, 4],
        "pre_observed_plates_per_sample": [0, 1], "pre_observed_plates_per_screen": [0, 1], "layouts": ["interleaved"],
        "multi_batch_variant": {"k": [1, 2, 3], "samples": [1, 2, 3], "unobserved_plates_per_sample": [0, 3],
                                "max_reference_states_per_configuration": 2500},
        "immediate_reveal_variant": "as the multi-batch variant, every selected plate revealed at once and kept in the batch ids (<= 2 samples, or <= 2 unobserved plates per sample)",
        "multi_sample_plates": "2 wells (s0,s1) at 3 name positions x remaining/batch/observed; every arrangement of 3-4 wells over two samples, contiguous and spread over the screen",
        "depth": "fixpoint (no depth bound)", "max_states_per_configuration": 200000,
        "batch_as_the_pipeline_builds_it": "the -1 placeholder of an empty slot among the batch ids in every state where nothing is eligible; the orchestration script's "
                                           "read-back of the running iteration's selections for 0..14 finished steps x 3 directory layouts",
    },
    "thorough": {
        "k": [1, 2, 3, 4], "samples": [1, 2, 3], "unobserved_plates_per_sample": [0, 5],
        "pre_observed_plates_per_sample": [0, 1], "pre_observed_plates_per_screen": [0, 3],
        "layouts": ["interleaved", "blocked"],
        "multi_batch_variant": {"k": [1, 2, 3, 4], "samples": [1, 2, 3], "unobserved_plates_per_sample": [0, 4],
                                "max_reference_states_per_configuration": 30000},
        "immediate_reveal_variant": "as quick with the thorough sizes", "multi_sample_plates": "as quick, more base screens",
        "depth": "fixpoint (no depth bound)", "max_states_per_configuration": 200000,
    },
}
ASSUMPTIONS = [
    "the allowed list is observed through a pass-through wrapper around the real policy object (it copies the returned list, nothing else)",
    "'unobserved' is read from the Screen itself (a plate all of whose rows are observed is observed); plates are followed by name, so the check does not depend on plate ids staying stable across reveal_plates",
    "a batch is explored beyond k plates: the policy is always asked with the whole batch so far; in the multi-batch variant a batch may be closed whenever it holds m*k >= k plates",
    "the statement is silent on liveness outside a sample in progress (the policy may allow nothing), on duplicates in the allowed list, on the exception type of the refusal and on a two-sample plate that is already observed (never shown to the policy): all don't-care",
    "select_next_plate returning the best-scoring *allowed* plate is taken from the quantifier ('every allowed plate may be the one with the best score'); disallowed remaining plates are given better scores than the target, so a selection that ignores the policy is visible",
    "sizes above the bounds rest on the small-scope argument only",
]

MAX_STATES = 200000
TREAT = (("a", 1.0), ("b", 1.0))


# ------------------------------------------------------------------ configurations
def _plate_name(layout, s, j):
    return f"p{j}{s}" if layout == "interleaved" else f"p{s}{j}"


def build_rows(cfg):
    """cfg['samples'] = [[u, o], ...]: u unobserved and o observed one-sample plates of sample s.
    The observed plates sit at positions s, s+1, ... (mod u+o) of the sample's plate list."""
    rows = []
    g = 0
    for s, (u, o) in enumerate(cfg["samples"]):
        n = u + o
        obs_pos = {(s + i) % n for i in range(o)} if n else set()
        for j in range(n):
            size = 2 if (j + s) % 3 == 0 else 1
            for _ in range(size):
                rows.append((f"s{s}", _plate_name(cfg["layout"], s, j), TREAT, round(0.11 + 0.01 * g, 4), j in obs_pos))
                g += 1
    if cfg.get("rows") == "wells-interleaved":
        # the same experiments listed in another row order: the first wells of all plates, then the second wells (a two-well
        # plate then spans the rows of other plates; nothing in the statement depends on the order of the rows)
        seen, first, rest = set(), [], []
        for r in rows:
            (rest if r[1] in seen else first).append(r)
            seen.add(r[1])
        rows = first + rest
    m = cfg.get("mplate")
    if m:
        # the wells of the multi-sample plate: sample indices in row order (default s0, s1); "spread": its first well is the
        # first row of the screen, the others the last rows
        extra = []
        for s in m.get("pattern", (0, 1)):
            extra.append((f"s{s}", m["name"], TREAT, round(0.11 + 0.01 * g, 4), m["where"] == "observed"))
            g += 1
        rows = (extra[:1] + rows + extra[1:]) if m.get("spread") else rows + extra
    return rows


def _sample_opts(max_u, max_o):
    return [[u, o] for u in range(max_u + 1) for o in range(max_o + 1) if u + o >= 1]


def _tuples(opts, max_samples):
    out = []

    def rec(prefix):
        if prefix:
            out.append([list(x) for x in prefix])
        if len(prefix) == max_samples:
            return
        for o in opts:
            rec(prefix + [o])

    rec([])
    return out


def _batch_states(us, k):
    """Number of batches reachable in one configuration (reference count, used for packing)."""
    whole = [1 + math.comb(u, k) for u in us]
    total = math.prod(whole)
    for i, u in enumerate(us):
        if u >= k:
            part = sum(math.comb(u, j) for j in range(1, k))
            total += part * math.prod(w for j, w in enumerate(whole) if j != i)
    return total


def _est(cfg):
    """Expected number of BFS states of a configuration."""
    k = cfg["k"]
    us = [u for u, _ in cfg["samples"]]
    if cfg["variant"] not in ("retrospective", "retrospective-immediate"):
        return _batch_states(us, k)
    total = 0

    def rec(i, ways, rest):
        nonlocal total
        if i == len(us):
            total += ways * _batch_states(rest, k)
            return
        for r in range(0, us[i] + 1, k):
            rec(i + 1, ways * math.comb(us[i], r), rest + [us[i] - r])

    rec(0, 1, [])
    return total


def configurations(tier):
    b = BOUNDS[tier]
    out = []
    for layout in b["layouts"]:
        for samples in _tuples(_sample_opts(b["unobserved_plates_per_sample"][1], b["pre_observed_plates_per_sample"][1]),
                               b["samples"][-1]):
            if sum(o for _, o in samples) > b["pre_observed_plates_per_screen"][1]:
                continue
            for k in b["k"]:
                out.append({"variant": "prospective", "k": k, "samples": samples, "layout": layout})
                if layout == b["layouts"][0] and len(samples) <= 2 and sum(o for _, o in samples) >= 1:
                    out.append({"variant": "prospective", "k": k, "samples": samples, "layout": layout, "rows": "wells-interleaved"})
    mb = b["multi_batch_variant"]
    for samples in _tuples(_sample_opts(mb["unobserved_plates_per_sample"][1], 0), mb["samples"][-1]):
        for k in mb["k"]:
            c = {"variant": "retrospective", "k": k, "samples": samples, "layout": "interleaved"}
            if _est(c) <= mb["max_reference_states_per_configuration"]:
                out.append(c)
                # the retrospective workflow proper: every selected plate is revealed AT ONCE (select -> reveal -> select ...),
                # while its id stays in the batch list handed to the next selection of the same batch
                if max(u for u, _ in samples) <= mb["unobserved_plates_per_sample"][1] - 1 or len(samples) <= 2:
                    out.append(dict(c, variant="retrospective-immediate"))
    return out


def multi_sample_cases(tier):
    """A plate holding rows of s0 and s1 next to ordinary plates."""
    out = []
    ks = BOUNDS[tier]["k"]
    bases = [[[2, 0], [2, 0]], [[3, 1], [1, 0]], [[2, 0], [2, 1], [3, 0]]]
    if tier == "thorough":
        bases += [[[1, 0], [1, 0]], [[4, 0], [4, 0], [1, 1]], [[0, 1], [0, 1]]]
    for samples in bases:
        for k in ks:
            for name in ("a_m", "p1_m", "z_m"):
                for where in ("remaining", "batch", "observed"):
                    for nb in (0, 1, 2):
                        out.append({"variant": "multi", "k": k, "samples": samples, "layout": "interleaved",
                                    "mplate": {"name": name, "where": where}, "n_batch": nb})
    # every arrangement of 2..4 wells over two samples that uses both (a,b,a / a,a,b,a / b,a,b ...), contiguous and spread
    patterns = [p for n in (3, 4) for p in itertools.product((0, 1), repeat=n) if len(set(p)) == 2] + [(1, 0), (0, 1, 2), (2, 0, 2)]
    for samples in bases[:3]:
        for k in ks[:2]:
            for pat in patterns:
                if max(pat) >= len(samples):
                    continue
                for where in ("remaining", "batch"):
                    for spread in (False, True):
                        out.append({"variant": "multi", "k": k, "samples": samples, "layout": "interleaved",
                                    "mplate": {"name": "p1_m", "where": where, "pattern": list(pat), "spread": spread}, "n_batch": 1})
    return out


def plan(tier, seed):
    cfgs = configurations(tier)
    cfgs.sort(key=lambda c: -_est(c))
    budget = 2500 if tier == "quick" else 8000  # BFS states per work item (about 2 ms each)
    items, cur, acc = [], [], 0
    for c in cfgs:
        cur.append(c)
        acc += 3 + _est(c)
        if acc >= budget:
            items.append({"kind": "bfs", "configs": cur})
            cur, acc = [], 0
    if cur:
        items.append({"kind": "bfs", "configs": cur})
    for k in BOUNDS[tier]["k"][:3]:
        for samples in ([[2, 0], [2, 0]], [[3, 0], [1, 0], [2, 0]], [[1, 0], [2, 1]]):
            items.append({"kind": "held", "case": {"variant": "held", "k": k, "samples": samples, "layout": "interleaved"}})
    items.append({"kind": "script-batch"})
    ms = multi_sample_cases(tier)
    for i in range(0, len(ms), 60):
        items.append({"kind": "multi", "cases": ms[i:i + 60]})
    return items


# ------------------------------------------------------------------ the real code, driven
class _Recorder(PlatePolicy):
    """Pass-through around the real policy: remembers what it returned."""

    def __init__(self, inner):
        self.inner = inner
        self.returned = []

    def filter_eligible_plates(self, *args, **kwargs):
        res = self.inner.filter_eligible_plates(*args, **kwargs)
        self.returned.append(list(res))
        return res


def _name_of(plate):
    try:
        return str(plate.plate_name)
    except Exception:  # noqa: BLE001
        return "?" + repr(plate)[:40]


class _Info:
    """What the harness reads off a Screen: plate name -> id, samples, observed."""

    def __init__(self, screen):
        self.screen = screen
        self.id_of, self.samples_of, self.observed = {}, {}, set()
        names = np.asarray(screen.plate_names).astype(str)
        ids = np.asarray(screen.plate_ids)
        mask = np.asarray(screen.observation_mask).astype(bool)
        snames = np.asarray(screen.sample_names).astype(str)
        for name in sorted(set(names.tolist())):
            sel = names == name
            self.id_of[name] = int(ids[sel][0])
            self.samples_of[name] = tuple(sorted(set(snames[sel].tolist())))
            if mask[sel].all():
                self.observed.add(name)
        self.unobserved = set(self.id_of) - self.observed


def ask(info, k, batch, scores_by_name, col, policy=None, placeholder=False):
    """One real select_next_plate call.  Returns (allowed names | None if the policy was
    not consulted, returned plate name | None).  Exceptions propagate.  `policy`: a
    long-lived policy object to use instead of a fresh one."""
    holder = ChunkedScoresHolder(len(scores_by_name))
    for name, sc in scores_by_name.items():
        holder.add_score(info.id_of[name], sc)
    rec = _Recorder(policy if policy is not None else KPerSamplePlatePolicy(k))
    col.evaluations += 1
    # a caller's work list: it took screen.plates earlier and has been popping the plates it dealt with.  What the caller does
    # to the list it was handed is its own business and must not change what the next selection sees.
    try:
        handed = info.screen.plates
        if isinstance(handed, list):
            del handed[:]
    except Exception:  # noqa: BLE001
        pass
    got = select_next_plate(
        scores=holder,
        screen=info.screen,
        policy=rec,
        # placeholder: the select_next_plate command records -1 when a slot found no eligible plate, and the orchestration
        # script hands every recorded selection of the batch (that -1 included) to the next slot
        batch_plate_ids=[info.id_of[n] for n in batch] + ([-1] if placeholder else []),
        rng=np.random.default_rng(0),
    )
    allowed = [_name_of(p) for p in rec.returned[-1]] if rec.returned else None
    return allowed, (None if got is None else _name_of(got))


class Ctx:
    def __init__(self, cfg):
        self.cfg = cfg
        self.k = int(cfg["k"])
        self.retro = cfg["variant"] in ("retrospective", "retrospective-immediate")
        self.immediate = cfg["variant"] == "retrospective-immediate"
        self.infos = {(): _Info(make_screen(build_rows(cfg)))}
        self.hist = {}
        self.two_call = True

    def info(self, revealed, parent=None, newly=None, col=None):
        key = tuple(revealed)
        if key not in self.infos:
            pinfo = self.infos[tuple(parent)]
            if col is not None:
                col.count("reveal_plates calls")
            self.infos[key] = _Info(R.reveal_plates(pinfo.screen, [pinfo.id_of[n] for n in newly]))
        return self.infos[key]


def _case(ctx, state, extra=None):
    c = {"config": ctx.cfg, "history": list(ctx.hist.get(state, [])), "batch": list(state[0]), "revealed": list(state[1])}
    if extra:
        c.update(extra)
    return c


def judge_allowed(ctx, info, state, allowed, col, note):
    """The statement's rules for one list returned by the policy in one state."""
    k = ctx.k
    batch = set(state[0])
    remaining = info.unobserved - batch
    sample = lambda n: info.samples_of[n][0]  # noqa: E731  (single-sample plates only here)
    in_batch = {}
    for n in batch:
        in_batch[sample(n)] = in_batch.get(sample(n), 0) + 1
    left = {}
    for n in remaining:
        left[sample(n)] = left.get(sample(n), 0) + 1
    ok = True
    for n in allowed:
        if n in remaining:
            continue
        ok = False
        if n in batch:
            col.violation("C16|allowed|plate-already-in-batch", f"k={k}: plate {n} is allowed although it is already in the batch {sorted(batch)}",
                          _case(ctx, state, note))
        elif n in info.observed:
            col.violation("C16|allowed|observed-plate", f"k={k}: observed plate {n} is allowed", _case(ctx, state, note))
        else:
            col.violation("C16|allowed|unknown-plate", f"k={k}: the policy returned {n}, not a plate of the screen", _case(ctx, state, note))
    incomplete = sorted(s for s, v in in_batch.items() if 1 <= v <= k - 1)
    if len(incomplete) > 1:
        col.violation("C16|prefix|two-incomplete-samples",
                      f"k={k}: batch {sorted(batch)} has {len(incomplete)} samples with 1..k-1 plates: {incomplete}", _case(ctx, state, note))
        ok = False
    elif len(incomplete) == 1:
        s0 = incomplete[0]
        legit = [n for n in allowed if n in remaining]
        if not legit:
            col.violation("C16|in-progress|nothing-allowed",
                          f"k={k}: sample {s0} has {in_batch[s0]} plate(s) in the batch {sorted(batch)} but no plate is allowed", _case(ctx, state, note))
            ok = False
        other = sorted(n for n in legit if sample(n) != s0)
        if other:
            col.violation("C16|in-progress|other-sample-allowed",
                          f"k={k}: sample {s0} has {in_batch[s0]} of {k} plates in the batch {sorted(batch)} yet {other} (other samples) are allowed",
                          _case(ctx, state, note))
            ok = False
    for n in allowed:
        if n in remaining and in_batch.get(sample(n), 0) == 0 and left[sample(n)] < k:
            col.violation("C16|open|fewer-than-k-remain",
                          f"k={k}: plate {n} would open sample {sample(n)} of which only {left[sample(n)]} plate(s) remain", _case(ctx, state, note))
            ok = False
            break
    return ok


def judge_state(ctx, info, state, col):
    """Consequences for the batch itself: at m*k plates every sample has 0 or exactly k."""
    k = ctx.k
    batch = state[0]
    if batch and len(batch) % k == 0:
        cnt = {}
        for n in batch:
            s = info.samples_of[n][0]
            cnt[s] = cnt.get(s, 0) + 1
        bad = {s: v for s, v in cnt.items() if v != k}
        if bad:
            col.violation("C16|batch-of-m-times-k|sample-count-not-0-or-k",
                          f"k={k}: the batch {list(batch)} has {len(batch)} = {len(batch) // k}*k plates but per-sample counts {dict(sorted(cnt.items()))}",
                          _case(ctx, state))


def expand(ctx, state, col):
    """All checks and all real transitions of one state.  Returns [(label, next_state)]."""
    k = ctx.k
    batch, revealed = state
    info = ctx.infos[tuple(revealed)]
    judge_state(ctx, info, state, col)
    remaining = sorted(info.unobserved - set(batch))
    out = []

    def call(scores, note):
        try:
            return ask(info, k, batch, scores, col)
        except Exception as exc:  # noqa: BLE001
            if not exception_origin_in_repo(exc):
                raise
            col.violation("C16|raised|single-sample-plates",
                          f"k={k}: select_next_plate raised on a screen of one-sample plates: {short_exc(exc)}", _case(ctx, state, note))
            return "raised", None

    # first call: learn the allowed list (scores: the highest remaining id is best)
    scores = {n: float(len(remaining) - i) for i, n in enumerate(remaining)}
    allowed, got = call(scores, {"target": None})
    if allowed == "raised":
        return out
    if allowed is None:
        col.count("policy not consulted")
        allowed = [] if got is None else [got]
    judge_allowed(ctx, info, state, allowed, col, {"target": None})
    legit = [n for n in dict.fromkeys(allowed) if n in scores]
    in_batch_counts = {}
    for n in batch:
        s = info.samples_of[n][0]
        in_batch_counts[s] = in_batch_counts.get(s, 0) + 1
    col.outcome(k, tuple(sorted(in_batch_counts.values())), len(legit), len(remaining))
    if legit and len(legit) < len(remaining):
        col.nontriv(ctx.cfg["variant"], k, ctx.cfg["layout"], ctx.cfg["samples"], state)
    if legit and len(ctx.hist.get(state, [])) >= 2:
        col.sample({"config": ctx.cfg, "batch": list(batch), "revealed": list(revealed), "allowed": legit})

    def verdict(target, allowed_now, got_now, note):
        if got_now == target:
            return True
        if got_now is None:
            col.violation("C16|select|nothing-returned-though-allowed",
                          f"k={k}: {allowed_now} are allowed in batch {list(batch)} but select_next_plate returned nothing", _case(ctx, state, note))
        elif got_now not in allowed_now:
            col.violation("C16|select|returned-plate-not-allowed",
                          f"k={k}: select_next_plate returned {got_now}, which the policy did not allow ({allowed_now}) in batch {list(batch)}",
                          _case(ctx, state, note))
        else:
            col.violation("C16|select|not-the-best-allowed-plate",
                          f"k={k}: {target} has the best score among the allowed {allowed_now} but {got_now} was returned", _case(ctx, state, note))
        return False

    # The same rules along the whole history with ONE long-lived policy object (what a
    # long-running simulation does): replay the shortest history reaching this state on a
    # fresh object - one real call per earlier state - then ask it here.
    hist_labels = ctx.hist.get(state, [])
    if hist_labels and (ctx.retro or len(hist_labels) <= 3):
        try:
            pol = KPerSamplePlatePolicy(k)
            b_, r_ = (), ()
            for lab in hist_labels:
                inf_ = ctx.infos[tuple(r_)]
                rem_ = sorted(inf_.unobserved - set(b_))
                if rem_:
                    ask(inf_, k, b_, {n: float(len(rem_) - i) for i, n in enumerate(rem_)}, col, policy=pol)
                if lab == "close":
                    r_ = tuple(sorted(set(r_) | set(b_)))
                    b_ = ()
                else:
                    b_ = tuple(sorted(b_ + (lab,)))
                    if ctx.immediate:
                        r_ = tuple(sorted(set(r_) | {lab}))
            assert (b_, r_) == (tuple(batch), tuple(revealed)), "history replay does not reach the state"
            allowed_l, _got_l = ask(info, k, batch, scores, col, policy=pol)
            col.count("long-lived policy replays")
            if allowed_l is not None:
                judge_allowed(ctx, info, state, allowed_l, col, {"long_lived_policy_object": True, "target": None})
        except AssertionError:
            raise
        except Exception as exc:  # noqa: BLE001
            if not exception_origin_in_repo(exc):
                raise
            col.violation("C16|raised|long-lived-policy",
                          f"k={k}: a policy object reused along the history {hist_labels} raised: {short_exc(exc)}", _case(ctx, state))

    # ... and a policy object that was created, and asked once, at the very start of the
    # simulation (empty batch, nothing revealed yet) and is now asked about this state: a
    # resumed / pre-seeded batch.  The statement characterises the allowed plates by the
    # current batch and the remaining plates alone, so the earlier call must not matter.
    if ctx.two_call and state != ((), ()):
        try:
            pol2 = KPerSamplePlatePolicy(k)
            root_info = ctx.infos[()]
            rem0 = sorted(root_info.unobserved)
            if rem0:
                ask(root_info, k, (), {n: float(len(rem0) - i) for i, n in enumerate(rem0)}, col, policy=pol2)
            allowed_s, _ = ask(info, k, batch, scores, col, policy=pol2)
            col.count("two-call histories (start of simulation, then this state)")
            if allowed_s is not None:
                judge_allowed(ctx, info, state, allowed_s, col, {"two_call_history": True, "target": None})
        except Exception as exc:  # noqa: BLE001
            if not exception_origin_in_repo(exc):
                raise
            col.violation("C16|raised|reused-policy-object", f"k={k}: a policy object asked at the start of the simulation and again here raised: {short_exc(exc)}",
                          _case(ctx, state, {"two_call_history": True}))

    # a slot that finds nothing eligible is recorded as -1 and the batch goes on: the next slot, handed that placeholder among the
    # batch ids, sees the same batch and the same remaining plates and therefore still has nothing eligible
    if not legit and remaining:
        note_p = {"target": None, "placeholder_in_batch_ids": True}
        try:
            allowed_p, got_p = ask(info, k, batch, scores, col, placeholder=True)
            col.count("calls with the -1 placeholder of an empty slot among the batch ids")
            allowed_p = ([] if got_p is None else [got_p]) if allowed_p is None else allowed_p
            judge_allowed(ctx, info, state, allowed_p, col, note_p)
            if got_p is not None and got_p not in allowed_p:
                col.violation("C16|select|returned-plate-not-allowed", f"k={k}: select_next_plate returned {got_p} for batch {list(batch)} + placeholder -1, "
                                                                       f"the policy allowed {allowed_p}", _case(ctx, state, note_p))
        except Exception as exc:  # noqa: BLE001
            if not exception_origin_in_repo(exc):
                raise
            col.violation("C16|raised|placeholder-in-batch", f"k={k}: select_next_plate raised with the placeholder -1 among the batch ids: {short_exc(exc)}",
                          _case(ctx, state, note_p))

    first_target = min(legit, key=lambda n: scores[n]) if legit else None
    if not legit:
        if got is not None and set(allowed) <= set(scores):
            verdict(None, allowed, got, {"target": None})
    done = set()
    if legit and set(allowed) <= set(scores):
        if verdict(first_target, allowed, got, {"target": None}):
            done.add(first_target)
            out.append((first_target, (tuple(sorted(batch + (first_target,))), revealed)))
    for target in legit:
        if target in done:
            continue
        sc = {}
        for i, n in enumerate(remaining):
            if n == target:
                sc[n] = 0.0
            elif n in legit:
                sc[n] = 1.0 + i
            else:
                sc[n] = -1.0 - i  # disallowed plates score better than the target
        note = {"target": target}
        allowed2, got2 = call(sc, note)
        if allowed2 == "raised":
            continue
        if allowed2 is None:
            allowed2 = [] if got2 is None else [got2]
        if sorted(allowed2) != sorted(allowed):
            col.count("allowed list changed between two calls in one state")
            judge_allowed(ctx, info, state, allowed2, col, note)
        if verdict(target, allowed2, got2, note):
            out.append((target, (tuple(sorted(batch + (target,))), revealed)))
    # a scores holder that was filled when the batch was started: it still holds (excellent) scores for plates that are in
    # the batch or observed by now; the selection must still be an allowed plate
    stale = sorted(set(batch) | info.observed)
    if legit and stale:
        sc = dict(scores)
        sc.update({n: -100.0 - i for i, n in enumerate(stale)})
        note = {"target": None, "stale_scores_for": stale}
        allowed4, got4 = call(sc, note)
        if allowed4 != "raised":
            col.count("calls with stale scores for batch / observed plates")
            if allowed4 is None:
                allowed4 = [] if got4 is None else [got4]
            if got4 is None:
                col.violation("C16|select|nothing-returned-though-allowed",
                              f"k={k}: {allowed4} are allowed in batch {list(batch)} but select_next_plate returned nothing", _case(ctx, state, note))
            elif got4 not in allowed4 or got4 in stale:
                col.violation("C16|select|returned-plate-not-allowed",
                              f"k={k}: select_next_plate returned {got4}, which the policy did not allow ({allowed4}) in batch {list(batch)} "
                              f"(the holder also carries scores for the batch / observed plates {stale})", _case(ctx, state, note))
    # every allowed plate carries the WORST score of all remaining plates (ties among them): the minimum over the
    # allowed plates then equals the global maximum; the selection must still be an allowed plate
    if legit and len(legit) < len(remaining):
        sc = {n: (9.0 if n in legit else 1.0 + 0.5 * i) for i, n in enumerate(remaining)}
        note = {"target": "any allowed plate; all of them tie at the worst score"}
        allowed3, got3 = call(sc, note)
        if allowed3 != "raised":
            if allowed3 is None:
                allowed3 = [] if got3 is None else [got3]
            if got3 is None:
                col.violation("C16|select|nothing-returned-though-allowed",
                              f"k={k}: {allowed3} are allowed in batch {list(batch)} but select_next_plate returned nothing", _case(ctx, state, note))
            elif got3 not in allowed3:
                col.violation("C16|select|returned-plate-not-allowed",
                              f"k={k}: select_next_plate returned {got3}, which the policy did not allow ({allowed3}) in batch {list(batch)} "
                              f"(allowed plates all carry the worst score)", _case(ctx, state, note))
    if ctx.immediate:
        # the selected plate is revealed straight away; it stays in the batch
        moved = []
        for label, (nb, _rev) in out:
            new_rev = tuple(sorted(set(revealed) | {label}))
            ctx.info(new_rev, parent=revealed, newly=[label], col=col)
            moved.append((label, (nb, new_rev)))
        out = moved
        if batch and len(batch) % k == 0:
            out.append(("close", ((), revealed)))
    elif ctx.retro and batch and len(batch) % k == 0:
        new_rev = tuple(sorted(set(revealed) | set(batch)))
        ctx.info(new_rev, parent=revealed, newly=list(batch), col=col)
        out.append(("close", ((), new_rev)))
    for label, nxt in out:
        ctx.hist.setdefault(nxt, ctx.hist.get(state, []) + [label])
    return out


def run_config(cfg, col):
    ctx = Ctx(cfg)
    init = ((), ())
    ctx.hist[init] = []
    res = bfs([init], lambda st, depth: expand(ctx, st, col), canon=lambda st: st, max_states=MAX_STATES)
    col.states += res["states"]
    col.transitions += res["transitions"]
    col.count("configurations")
    col.count("configurations: " + cfg["variant"])
    if res["states"] != _est(cfg):  # informational, never a verdict
        col.count("configurations whose reachable-state count differs from the closed-form count")
    if res["cap_hit"]:
        col.cap(f"max_states={MAX_STATES} in one configuration")


# ------------------------------------------------------------------ two-sample plates
def run_multi(case, col):
    k = int(case["k"])
    info = _Info(make_screen(build_rows(case)))
    m = case["mplate"]
    ordinary = sorted(n for n in info.unobserved if n != m["name"])
    # an ordinary batch prefix the policy itself could have produced: <= k plates of the
    # sample with the most unobserved plates, provided it has at least k of them
    by_sample = {}
    for n in ordinary:
        by_sample.setdefault(info.samples_of[n], []).append(n)
    best = max(by_sample.values(), key=lambda v: (len(v), v), default=[])
    batch = best[: min(int(case["n_batch"]), k)] if len(best) >= k else []
    if m["where"] == "batch":
        batch = batch + [m["name"]]
    remaining = sorted(info.unobserved - set(batch))
    scores = {n: float(i) for i, n in enumerate(remaining)}
    col.states += 1
    col.transitions += 1
    try:
        allowed, got = ask(info, k, tuple(batch), scores, col)
    except Exception as exc:  # noqa: BLE001
        if not exception_origin_in_repo(exc):
            raise
        col.refused += 1
        col.outcome("multi", m["where"], "refused", type(exc).__name__)
        if m["where"] != "observed":
            col.nontriv("multi", k, case["samples"], m, batch)
        return
    col.outcome("multi", m["where"], "answered")
    if m["where"] == "observed":
        col.count("two-sample plate already observed: answered (don't-care)")
        return
    col.violation(f"C16|multi-sample|not-refused|{m['where']}",
                  f"k={k}: a plate with samples {info.samples_of[m['name']]} is {'in the batch' if m['where'] == 'batch' else 'among the remaining plates'} "
                  f"(batch {batch}) but the policy answered {allowed} and {got} was selected instead of refusing",
                  {"multi": case})


def run_held_plates(case, col):
    """The policy asked directly with Plate objects the caller keeps: ask -> merge a plate of ANOTHER sample into one of them
    (Plate.merge, in place) -> ask again with the same objects.  The second call sees a plate with two samples and must refuse."""
    k = int(case["k"])
    info = _Info(make_screen(build_rows(case)))
    plates = {str(p.plate_name): p for p in info.screen.plates if not p.is_observed}
    names = sorted(plates)
    col.evaluations += 1
    col.states += 1
    col.transitions += 3
    pol = KPerSamplePlatePolicy(k)
    try:
        first = pol.filter_eligible_plates(batch_plates=[], unobserved_plates=[plates[n] for n in names], rng=np.random.default_rng(0))
    except Exception as exc:  # noqa: BLE001
        if not exception_origin_in_repo(exc):
            raise
        col.violation("C16|raised|single-sample-plates", f"k={k}: the policy raised on one-sample plates: {short_exc(exc)}", {"held": case})
        return
    by_sample = {}
    for n in names:
        by_sample.setdefault(info.samples_of[n][0], []).append(n)
    samples = sorted(by_sample)
    if len(samples) < 2:
        return
    a, b = by_sample[samples[0]][0], by_sample[samples[1]][0]
    plates[a].merge(plates[b])  # plate a now holds wells of two samples; plate b's name is gone from the screen
    rest = [plates[n] for n in names if n != b]
    for where, batch, remaining in (("remaining", [], rest), ("batch", [plates[a]], [p for p in rest if p is not plates[a]])):
        try:
            allowed = pol.filter_eligible_plates(batch_plates=batch, unobserved_plates=remaining, rng=np.random.default_rng(0))
        except Exception as exc:  # noqa: BLE001
            if not exception_origin_in_repo(exc):
                raise
            col.refused += 1
            col.outcome("held-plates", where, "refused")
            col.nontriv("held-plates", k, case["samples"], where)
            continue
        col.outcome("held-plates", where, "answered")
        col.violation(f"C16|multi-sample|not-refused|{where}|after-merge",
                      f"k={k}: plate {a} absorbed plate {b} of another sample (Plate.merge) after the policy had been asked once; asked again with the same "
                      f"Plate objects ({where}) the policy answered {[_name_of(p) for p in allowed]} instead of refusing", {"held": case})


# ------------------------------------------------------------------ contract
def run_script_batch(item, col):
    """'The batch' of a step in the shipped pipeline is what the orchestration script reads back from the plate directories of
    the running iteration (nextflow/scripts/batchie.py: get_selected_plates) and hands to select_next_plate as --batch-plate-ids:
    for every number of finished steps 0..14 (two-digit plate directories included) it is exactly the recorded selections."""
    import shutil
    import types
    from collections import Counter

    path = os.path.join(env.REPO, "nextflow", "scripts", "batchie.py")
    mod = types.ModuleType("batchie_orchestration_script_c16")
    mod.__file__ = path
    with open(path) as f:
        exec(compile(f.read(), path, "exec"), mod.__dict__)
    mod.logger.handlers = []
    mod.logger.disabled = True
    tmp = env.scratch_dir("c16s")
    try:
        for layout in ("flat", "nested", "unordered"):
            for n in range(0, 15):
                it = os.path.join(tmp, f"{layout}_{n}", "iter_3")
                os.makedirs(it)
                order = list(range(n)) if layout != "unordered" else sorted(range(n), key=lambda j: (j * 7) % max(n, 1))
                recorded = []
                for j in order:
                    d = os.path.join(it, f"plate_{j}", "batchie" if layout != "nested" else f"run_{j}")
                    os.makedirs(d)
                    sel = (5 * j + 3) % 17 if j != 4 else 0  # (plate id 0 is a selection like any other)
                    with open(os.path.join(d, "selected_plate"), "w") as f:
                        f.write(f"{sel}\n" if j % 2 else str(sel))
                    recorded.append(str(sel))
                col.evaluations += 1
                col.states += 1
                col.transitions += 1
                case = {"script_batch": {"layout": layout, "finished_steps": n}}
                try:
                    got = mod.get_selected_plates(it)
                except Exception as exc:  # noqa: BLE001
                    col.violation("C16|script-batch|raised", f"get_selected_plates raised with {n} finished step(s): {short_exc(exc)}", case)
                    continue
                got_list = [] if got is None else [str(x).strip() for x in got]
                col.outcome("script-batch", layout, n, tuple(sorted(got_list)))
                col.nontriv("script-batch", layout, n)
                if Counter(got_list) != Counter(recorded):
                    col.violation("C16|script-batch|not-the-recorded-selections",
                                  f"{n} steps of the running iteration recorded the selections {recorded} (plate_0 .. plate_{n - 1}); the orchestration script reads back "
                                  f"{got_list} as the batch for the next step (missing: {sorted((Counter(recorded) - Counter(got_list)).elements())}, "
                                  f"extra: {sorted((Counter(got_list) - Counter(recorded)).elements())})", case)
    finally:
        shutil.rmtree(tmp, ignore_errors=True)


def run_item(item, col, tier):
    if item["kind"] == "script-batch":
        return run_script_batch(item, col)
    if item["kind"] == "bfs":
        for cfg in item["configs"]:
            run_config(cfg, col)
    elif item["kind"] == "held":
        run_held_plates(item["case"], col)
    else:
        for case in item["cases"]:
            run_multi(case, col)


def replay(case, col):
    """Re-execute one recorded history step by step through the real transitions (no BFS) and judge its end state."""
    if "held" in case:
        run_held_plates(case["held"], col)
        return
    if "multi" in case:
        run_multi(case["multi"], col)
        return
    if "script_batch" in case:
        run_script_batch({"kind": "script-batch"}, col)
        return
    ctx = Ctx(case["config"])
    state = ((), ())
    ctx.hist[state] = []
    for label in case["history"]:
        probe = type(col)(col.prop)  # earlier states: executed for real, judged only at the end state
        nxt = dict(expand(ctx, state, probe)).get(label)
        col.evaluations += probe.evaluations
        if nxt is None:
            return  # the code under test no longer makes this transition: the recorded state is unreachable
        state = nxt
    expand(ctx, state, col)
