"""C08  Each Gibbs block draws from the exact full conditional of the documented model.

The sampler is explored as a transition system whose transitions are block updates and
whose environment is the random source: every draw is intercepted (kind, block, the
distribution parameters handed to the primitive, a snapshot of the full sampler state at
draw time) and answered from a script; an independent float64 derivation of every full
conditional is evaluated on the snapshot and compared with the recorded parameters."""
import itertools
import math

import numpy as np

from .. import env

env.setup()

from ..core import short_exc  # noqa: E402

import batchie.models.sparse_combo as SC  # noqa: E402
from batchie import fast_mvn  # noqa: E402
from batchie.data import Screen, ExperimentSpace  # noqa: E402

PROP = "C08"
LEVEL = "model_checking"
ENGINE = "E3-state-bfs+E2-choice-tree"
TECHNIQUE = "exhaustive enumeration of small datasets x embedding sizes x scripted random answers (deviation-bounded), every block transition checked against an independent derivation of the full conditional"
LEVEL_TEXT = (
    "For every dataset of the bounded family (all multisets of row types over 2 samples x 4 treatment slots incl. control, inside a "
    "3x4 experiment space so that units without data exist) and every embedding size, three sampler steps are executed with a scripted "
    "random source (default answer pattern; thorough: every single draw additionally replaced by an extreme answer). At every draw the "
    "parameters handed to the primitive sampler are compared with the full conditional derived independently from the documented "
    "likelihood and priors on the *current* state; after every block the cached fitted values are compared with a from-scratch "
    "recomputation; block order, alpha, precision bounds, the exported posterior sample and the MVN sampler's affine map are checked."
)
RULE = (
    "datasets = multisets of <= R rows from 26 row types (sample in {0,1}, (d1,d2) in {-1,0,1,2}^2 minus same-treatment pairs) + the empty "
    "dataset, x embedding size D, x random-answer script (deviation bound 0 quick / 1 thorough on datasets of <= 1 row... see bounds); "
    "a dataset is non-trivial when it has >= 1 row (data branches of the conditionals are exercised); distinct = (dataset, D, script)"
)
BOUNDS = {
    "quick": {"max_rows": 2, "D": [1, 2], "sweeps": "3, then reset_model() and 1 more", "deviation_bound": 0, "deviation_datasets": 0,
              "whole_run_scripts": "default pattern; every gamma draw x0.002; every gamma draw x500 (precisions driven into both clipping bounds); far state: the second sweep started from an intercept of +14 / -14 (fitted values beyond +-10, a state a chain reaches only rarely)",
              "sparse_large_probes": "4097 and 5000 observations, D=2, 3 sweeps: fitted values vs parameters after every block, export",
              "failing_draws": "24 datasets (thorough 120), D=2: every multivariate-normal draw of the run in turn replaced by a LinAlgError",
              "incremental": "every dataset also with its observations handed over in two add_observations calls (every split point), default answer pattern"},
    "thorough": {"max_rows": 3, "D": [1, 2, 3], "sweeps": "3, then reset_model() and 1 more", "deviation_bound": 1, "deviation_datasets": "all datasets with <= 2 rows, D=2",
                 "whole_run_scripts": "as quick", "sparse_large_probes": "as quick", "incremental": "as quick"},
}
ASSUMPTIONS = [
    "numpy's Generator.normal / Generator.gamma are trusted to sample the distribution whose parameters they are given",
    "same-treatment pairs (d1 == d2 >= 0) are excluded: the model is not linear in V2 there, so 'full conditional' of a Gaussian block is undefined",
    "rates of gamma draws may exceed the derived rate by <= 1e-3 (the code's documented stability jitter)",
    "tolerance |a-b| <= 1e-3 (1+|b|) for everything that passes through the sampler's float32 state",
    "precision bounds are not demanded for the empty dataset (the code clips only on its data branch and no bound is documented there)",
    "the model's default options (fake intercept, multiplicative gamma process, local shrinkage)",
]
N_SAMPLES, N_TREAT = 3, 4
Y_MENU = [0.0, 0.3, 0.5, 0.8, 1.0]
BLOCKS = ["alpha", "W0", "V0", "W", "V2", "V1", "prec_W0", "prec_V0", "prec_obs", "prec_V2", "prec_V1", "prec_W"]
STEP_METHODS = {
    "alpha": "_alpha_step", "W0": "_W0_step", "V0": "_V0_step", "W": "_W_step", "V2": "_V2_step", "V1": "_V1_step",
    "prec_W0": "_prec_W0_step", "prec_V0": "_prec_V0_step", "prec_obs": "_prec_obs_step", "prec_V2": "_prec_V2_step",
    "prec_V1": "_prec_V1_step", "prec_W": "_prec_W_step",
}
TOL = 1e-3


def close(a, b, tol=TOL):
    a, b = np.asarray(a, dtype=float), np.asarray(b, dtype=float)
    if a.shape != b.shape:
        return False
    return bool(np.all(np.abs(a - b) <= tol * (1.0 + np.abs(b))))


# ------------------------------------------------------------------ datasets
def row_types():
    out = []
    for s in (0, 1):
        for d1 in (-1, 0, 1, 2):
            for d2 in (-1, 0, 1, 2):
                if d1 == d2 and d1 >= 0:
                    continue
                out.append((s, d1, d2))
    return out


def datasets(max_rows):
    rt = row_types()
    out = [()]
    for k in range(1, max_rows + 1):
        out.extend(itertools.combinations_with_replacement(range(len(rt)), k))
    return out


_SPACE = {}


def space():
    """Experiment space with 3 samples and 4 treatments, produced by batchie itself."""
    if "s" not in _SPACE:
        names = [f"t{i}" for i in range(N_TREAT)]
        rows_n = [[names[i], names[(i + 1) % N_TREAT]] for i in range(N_TREAT)] + [["", names[0]]]
        n = len(rows_n)
        sup = Screen(
            treatment_names=np.array(rows_n, dtype=str),
            treatment_doses=np.array([[1.0, 1.0]] * N_TREAT + [[0.0, 1.0]]),
            sample_names=np.array([f"c{i % N_SAMPLES}" for i in range(n)], dtype=str),
            plate_names=np.array(["p"] * n, dtype=str),
            observations=np.full(n, 0.5),
        )
        _SPACE["s"] = (sup.treatment_mapping, sup.sample_mapping, ExperimentSpace.from_screen(sup))
    return _SPACE["s"]


def build_screen(ds):
    rt = row_types()
    tm, sm, _ = space()
    rows = [rt[i] for i in ds]
    tn = np.array([["" if d < 0 else f"t{d}" for d in (r[1], r[2])] for r in rows], dtype=str).reshape(len(rows), 2)
    td = np.array([[0.0 if d < 0 else 1.0 for d in (r[1], r[2])] for r in rows], dtype=float).reshape(len(rows), 2)
    obs = np.array([Y_MENU[(k + 2 * ds[k]) % len(Y_MENU)] for k in range(len(rows))], dtype=float)
    return Screen(
        treatment_names=tn, treatment_doses=td,
        sample_names=np.array([f"c{r[0]}" for r in rows], dtype=str),
        plate_names=np.array(["p"] * len(rows), dtype=str),
        observations=obs, treatment_mapping=tm, sample_mapping=sm,
    )


# ------------------------------------------------------------------ scripted random source
def z_default(k):
    return 0.85 * math.sin(1.7 * k + 0.3) + 0.1


def g_default(k):
    return 0.55 + 0.9 * ((k * 0.6180339887498949) % 1.0)


class Recorder:
    """Owns every draw.  deviation = (call index, value) replaces the pattern for one call."""

    def __init__(self, wm, deviation=None):
        self.wm = wm
        self.block = None
        self.records = []
        self.n_calls = 0
        self.k = 0
        self.deviation = deviation if not (deviation and deviation[0] == "mvnfail") else None
        self.fail_mvn = deviation[1] if deviation and deviation[0] == "mvnfail" else None  # ordinal of the mvn draw that fails
        self.n_mvn = 0
        self.errors = []

    def snapshot(self):
        wm = self.wm
        g = lambda n: np.array(getattr(wm, n), dtype=float, copy=True)  # noqa: E731
        return {n: g(n) for n in ("W", "W0", "V0", "V1", "V2", "tau", "phi0", "phi1", "phi2", "eta1", "eta2", "gam", "Mu")} | {
            "alpha": float(wm.alpha), "prec": float(wm.prec), "tau0": float(wm.tau0), "eta0": float(wm.eta0)}

    def _answers(self, shape, fn, dev_kind):
        n = int(np.prod(shape)) if shape else 1
        call = self.n_calls
        self.n_calls += 1
        vals = []
        for _ in range(n):
            self.k += 1
            vals.append(fn(self.k))
        if self.deviation is not None and (self.deviation[0] == call or self.deviation[0] == "all") and dev_kind in self.deviation[1]:
            vals = [self.deviation[1][dev_kind]] * n
        return np.array(vals, dtype=float).reshape(shape if shape else ())

    def normal(self, loc=0.0, scale=1.0, size=None):
        loc_a, scale_a = np.asarray(loc, dtype=float), np.asarray(scale, dtype=float)
        shape = np.broadcast(loc_a, scale_a).shape if size is None else ((size,) if np.isscalar(size) else tuple(size))
        z = self._answers(shape, z_default, "z")
        val = loc_a + scale_a * z
        self.records.append({"kind": "normal", "block": self.block, "loc": loc_a.copy(), "scale": scale_a.copy(), "size": size,
                             "value": np.array(val, copy=True), "state": self.snapshot()})
        return float(val) if np.ndim(val) == 0 else val

    def gamma(self, shape, scale=1.0, size=None):
        sh_a, sc_a = np.asarray(shape, dtype=float), np.asarray(scale, dtype=float)
        bshape = np.broadcast(sh_a, sc_a).shape
        g = self._answers(bshape, g_default, "g")
        val = sh_a * sc_a * g
        self.records.append({"kind": "gamma", "block": self.block, "shape": sh_a.copy(), "scale": sc_a.copy(),
                             "value": np.array(val, copy=True), "state": self.snapshot()})
        return float(val) if np.ndim(val) == 0 else val

    def standard_normal(self, size=None):
        return self.normal(0.0, 1.0, size)

    def mvn(self, real, Q, mu=None, mu_part=None, chol_factor=False, rng=None, **kw):
        rec = {"kind": "mvn", "block": self.block, "Q": np.array(Q, dtype=float, copy=True),
               "b": None if mu_part is None else np.array(mu_part, dtype=float, copy=True),
               "mu": None if mu is None else np.array(mu, dtype=float, copy=True), "state": self.snapshot(), "failed": False}
        self.records.append(rec)
        D = np.asarray(Q).shape[0]
        z = self._answers((D,), z_default, "z")
        rec["z"] = z.copy()
        ordinal = self.n_mvn
        self.n_mvn += 1
        if self.fail_mvn is not None and ordinal == self.fail_mvn:
            # environment answer "this draw fails numerically" (what a precision matrix that is not positive definite in float32 gives)
            rec["failed"] = "injected"
            rec["injected"] = True
            raise np.linalg.LinAlgError("injected: matrix is not positive definite")
        try:
            val = real(Q, mu=mu, mu_part=mu_part, chol_factor=chol_factor, rng=_FixedZ(z), **kw)
        except Exception as exc:
            rec["failed"] = short_exc(exc)
            raise
        rec["value"] = np.array(val, dtype=float, copy=True)
        return val


class _FixedZ:
    def __init__(self, z):
        self.z = np.asarray(z, dtype=float)

    def normal(self, loc=0.0, scale=1.0, size=None):
        return self.z.copy()

    def standard_normal(self, size=None):
        return self.z.copy()


# ------------------------------------------------------------------ reference model (float64, plain loops)
class Data:
    def __init__(self, y, cl, d1, d2):
        self.y = [float(v) for v in y]
        self.cl = [int(v) for v in cl]
        self.d1 = [int(v) for v in d1]
        self.d2 = [int(v) for v in d2]
        self.n = len(self.y)


def vec(S, name, m):
    return np.zeros(S[name].shape[1:]) if m < 0 else S[name][m]


def fitted(S, dat, i):
    c, a, b = dat.cl[i], dat.d1[i], dat.d2[i]
    w = S["W"][c]
    return (S["alpha"] + S["W0"][c] + float(vec(S, "V0", a)) + float(vec(S, "V0", b))
            + float(w @ (vec(S, "V1", a) + vec(S, "V1", b))) + float(w @ (vec(S, "V2", a) * vec(S, "V2", b))))


def gaussian_conditional(S, dat, rows, X, current, prior_prec):
    """Full conditional of a (vector) coefficient beta with design rows X, prior N(0, diag(1/prior_prec)):
    Q = prec X'X + diag(prior_prec), b = prec X' r with r = y - (fitted - X beta_current)."""
    D = len(prior_prec)
    Q = np.diag(np.asarray(prior_prec, dtype=float))
    b = np.zeros(D)
    for i, x in zip(rows, X):
        x = np.asarray(x, dtype=float).reshape(D)
        r = dat.y[i] - (fitted(S, dat, i) - float(x @ current))
        Q = Q + S["prec"] * np.outer(x, x)
        b = b + S["prec"] * x * r
    return Q, b


def check_normal_scalar(rec, Q, b, what, out):
    mean, sd = float(b[0] / Q[0, 0]), float(1.0 / math.sqrt(Q[0, 0]))
    if rec["kind"] != "normal" or not close(rec["loc"], mean) or not close(rec["scale"], sd):
        out.append((what, f"{what}: drew N(mean={np.asarray(rec.get('loc')).tolist()}, sd={np.asarray(rec.get('scale')).tolist()}) "
                          f"but the full conditional is N({mean:.6g}, {sd:.6g})"))


def check_prior_vector(rec, prior_prec, what, out):
    sd = 1.0 / np.sqrt(np.asarray(prior_prec, dtype=float))
    if rec["kind"] != "normal" or not close(np.broadcast_to(rec["loc"], sd.shape), np.zeros_like(sd)) or not close(np.broadcast_to(rec["scale"], sd.shape), sd):
        out.append((what, f"{what}: no data for this unit, expected a prior draw N(0, {sd.tolist()}) but drew "
                          f"{rec['kind']} loc={np.asarray(rec.get('loc')).tolist()} scale={np.asarray(rec.get('scale')).tolist()}"))


def check_mvn(rec, Q, b, what, out):
    if rec["kind"] != "mvn":
        out.append((what, f"{what}: expected a multivariate normal draw, got {rec['kind']}"))
        return
    if rec.get("injected"):
        return  # (a failure the harness injected: no verdict on this draw; the clauses about the state after the block still apply)
    if rec["failed"]:
        out.append((what, f"{what}: the draw failed ({rec['failed']}) and the block kept its old value"))
        return
    if rec["b"] is None or not close(rec["Q"], Q) or not close(rec["b"], b):
        out.append((what, f"{what}: drew with Q={rec['Q'].tolist()} b={None if rec['b'] is None else rec['b'].tolist()} "
                          f"but the full conditional has Q={Q.tolist()} b={b.tolist()}"))


def rows_of_unit(dat, kind, idx):
    if kind == "sample":
        return [i for i in range(dat.n) if dat.cl[i] == idx]
    return [i for i in range(dat.n) if dat.d1[i] == idx or dat.d2[i] == idx]


def other(dat, i, m):
    return dat.d2[i] if dat.d1[i] == m else dat.d1[i]


def check_gamma(rec, shape, rate, what, out, jitter=True):
    """numpy gamma(shape, scale): scale must be 1/(rate [+ jitter in [0, 1e-3]])."""
    if rec["kind"] != "gamma":
        out.append((what, f"{what}: expected a gamma draw, got {rec['kind']}"))
        return
    shape = np.asarray(shape, dtype=float)
    rate = np.asarray(rate, dtype=float)
    try:
        got_shape = np.broadcast_to(rec["shape"], np.broadcast(shape, rate).shape)
        got_rate = 1.0 / np.broadcast_to(rec["scale"], np.broadcast(shape, rate).shape)
    except ValueError:
        out.append((what, f"{what}: gamma draw has shape {rec['scale'].shape}, expected {np.broadcast(shape, rate).shape}"))
        return
    ok_shape = close(got_shape, np.broadcast_to(shape, got_shape.shape), 1e-6)
    lo = rate - 1e-4 * (1 + np.abs(rate))
    hi = rate + (1e-3 if jitter else 0.0) + 1e-4 * (1 + np.abs(rate))
    ok_rate = bool(np.all((got_rate >= lo) & (got_rate <= hi)))
    if not (ok_shape and ok_rate):
        out.append((what, f"{what}: drew Gamma(shape={np.asarray(rec['shape']).tolist()}, rate={np.asarray(got_rate).tolist()}) "
                          f"but the full conditional is Gamma(shape={shape.tolist()}, rate={rate.tolist()})"))


def oracle_block(block, recs, dat, wm, post, out):
    """recs: draw records of this block (in order); post: snapshot after the block."""
    a0, b0 = float(wm.a0), float(wm.b0)
    nC, nT, D = wm.n_clines, wm.n_drugdoses, wm.D
    need = lambda n: (len(recs) == n) or out.append((f"{block}|draw-count", f"{block}: made {len(recs)} draws, expected {n}")) or False  # noqa: E731

    if block == "alpha":
        if recs:
            out.append(("alpha|draw-count", f"alpha: {len(recs)} random draws although the intercept is held at mean(y)"))
        if dat.n and not close(post["alpha"], sum(dat.y) / dat.n, 1e-5):
            out.append(("alpha|value", f"alpha={post['alpha']} but mean of the transformed observations is {sum(dat.y) / dat.n}"))
        return
    if block == "W0":
        if need(nC) is False:
            return
        for c, rec in enumerate(recs):
            S = rec["state"]
            rows = rows_of_unit(dat, "sample", c)
            if not rows:
                check_prior_vector(rec, [S["tau0"]], f"W0[{c}]|prior", out)
            else:
                Q, b = gaussian_conditional(S, dat, rows, [[1.0]] * len(rows), np.array([S["W0"][c]]), [S["tau0"]])
                check_normal_scalar(rec, Q, b, f"W0|conditional", out)
        return
    if block == "V0":
        if need(nT) is False:
            return
        for m, rec in enumerate(recs):
            S = rec["state"]
            rows = rows_of_unit(dat, "treatment", m)
            pp = [S["phi0"][m] * S["eta0"]]
            if not rows:
                check_prior_vector(rec, pp, f"V0[{m}]|prior", out)
            else:
                Q, b = gaussian_conditional(S, dat, rows, [[1.0]] * len(rows), np.array([S["V0"][m]]), pp)
                check_normal_scalar(rec, Q, b, "V0|conditional", out)
        return
    if block == "W":
        if need(nC) is False:
            return
        for c, rec in enumerate(recs):
            S = rec["state"]
            rows = rows_of_unit(dat, "sample", c)
            if not rows:
                check_prior_vector(rec, S["tau"], "W|prior", out)
            else:
                X = [vec(S, "V2", dat.d1[i]) * vec(S, "V2", dat.d2[i]) + vec(S, "V1", dat.d1[i]) + vec(S, "V1", dat.d2[i]) for i in rows]
                Q, b = gaussian_conditional(S, dat, rows, X, S["W"][c], S["tau"])
                check_mvn(rec, Q, b, "W|conditional", out)
        return
    if block in ("V2", "V1"):
        if need(nT) is False:
            return
        phi, eta = ("phi2", "eta2") if block == "V2" else ("phi1", "eta1")
        for m, rec in enumerate(recs):
            S = rec["state"]
            rows = rows_of_unit(dat, "treatment", m)
            pp = S[phi][m] * S[eta]
            if not rows:
                check_prior_vector(rec, pp, f"{block}|prior", out)
            else:
                if block == "V2":
                    X = [S["W"][dat.cl[i]] * vec(S, "V2", other(dat, i, m)) for i in rows]
                else:
                    X = [S["W"][dat.cl[i]] for i in rows]
                Q, b = gaussian_conditional(S, dat, rows, X, S[block][m], pp)
                check_mvn(rec, Q, b, f"{block}|conditional", out)
        return
    if block == "prec_W0":
        if need(1) is False:
            return
        S = recs[0]["state"]
        check_gamma(recs[0], a0 + 0.5 * nC, b0 + 0.5 * float(np.sum(S["W0"] ** 2)), "prec_W0|conditional", out)
        bound_check("tau0", post["tau0"], dat, out)
        return
    if block == "prec_obs":
        if need(1) is False:
            return
        S = recs[0]["state"]
        if dat.n == 0:
            check_gamma(recs[0], a0, b0, "prec_obs|prior", out)
        else:
            sse = sum((dat.y[i] - fitted(S, dat, i)) ** 2 for i in range(dat.n))
            check_gamma(recs[0], a0 + 0.5 * dat.n, b0 + 0.5 * sse, "prec_obs|conditional", out)
            bound_check("prec", post["prec"], dat, out)
        return
    if block in ("prec_V0", "prec_V1", "prec_V2"):
        if need(4) is False:
            return
        v, phi, eta = {"prec_V0": ("V0", "phi0", "eta0"), "prec_V1": ("V1", "phi1", "eta1"), "prec_V2": ("V2", "phi2", "eta2")}[block]
        S = recs[0]["state"]
        V = S[v]
        check_gamma(recs[0], 1.0, 1.0 + S[phi], f"{block}|phi-aux", out, jitter=False)
        aux = np.asarray(recs[0]["value"], dtype=float)
        check_gamma(recs[1], 1.0, aux + 0.5 * S[eta] * V ** 2, f"{block}|phi", out)
        S2 = recs[2]["state"]  # phi already updated (and clipped)
        check_gamma(recs[2], 1.0, 1.0 + S2[eta], f"{block}|eta-aux", out, jitter=False)
        aux2 = np.asarray(recs[2]["value"], dtype=float)
        s = (S2[phi] * V ** 2).sum(0) if V.ndim == 2 else float((S2[phi] * V ** 2).sum())
        check_gamma(recs[3], 0.5 * (1 + nT), aux2 + 0.5 * s, f"{block}|eta", out)
        # bounds
        cnt = np.array([len(rows_of_unit(dat, "treatment", m)) for m in range(nT)], dtype=float)
        if dat.n:
            lo = 1.0 / np.sqrt(1.0 + cnt)
            ph = post[phi]
            lo_b = lo[:, None] if ph.ndim == 2 else lo
            if not (np.all(ph >= lo_b * (1 - 1e-5)) and np.all(ph <= 1e6 * (1 + 1e-5))):
                out.append((f"{block}|bounds", f"{phi} left its bounds [1/sqrt(1+n_m), 1e6]: {ph.tolist()}"))
            bound_check(eta, post[eta], dat, out)
        return
    if block == "prec_W":
        if need(D) is False:
            return
        gam = None
        for d, rec in enumerate(recs):
            S = rec["state"]
            gam = S["gam"]
            tau_h = np.cumprod(gam)
            sq = (S["W"] ** 2).sum(0)
            if d == 0:
                shape = 2 + 0.5 * nC * D
                rate = 1 + 0.5 * float(np.sum(tau_h / gam[0] * sq))
            else:
                shape = 3 + 0.5 * nC * (D - d)
                rate = 1 + 0.5 * float(np.sum(tau_h[d:] / gam[d] * sq[d:]))
            check_gamma(rec, shape, rate, "prec_W|conditional", out)
        if dat.n:
            bound_check("tau", post["tau"], dat, out)
        exp_tau = np.clip(np.cumprod(post["gam"]), 1.0 / math.sqrt(1 + dat.n), 1e6) if dat.n else None
        if exp_tau is not None and not close(post["tau"], exp_tau, 1e-5):
            out.append(("prec_W|tau", f"tau={post['tau'].tolist()} is not the (clipped) cumulative product of the gamma process {post['gam'].tolist()}"))
        return


def bound_check(name, value, dat, out):
    if dat.n == 0:
        return
    lo = 1.0 / math.sqrt(1 + dat.n)
    v = np.asarray(value, dtype=float)
    if not (np.all(v >= lo * (1 - 1e-5)) and np.all(v <= 1e6 * (1 + 1e-5))):
        out.append((f"{name}|bounds", f"{name}={v.tolist()} outside its documented bounds [{lo:.4g}, 1e6]"))


# ------------------------------------------------------------------ execution of one (dataset, D, script)
class Patches:
    def __init__(self, rec):
        self.rec = rec
        self.saved = []

    def __enter__(self):
        rec = self.rec
        real_mvn = fast_mvn.sample_mvn_from_precision

        def mvn_wrapper(Q, mu=None, mu_part=None, chol_factor=False, rng=None, **kw):
            return rec.mvn(real_mvn, Q, mu=mu, mu_part=mu_part, chol_factor=chol_factor, rng=rng, **kw)

        for owner, name, new in ((SC, "sample_mvn_from_precision", mvn_wrapper), (np.random, "normal", rec.normal),
                                 (np.random, "gamma", rec.gamma), (np.random, "standard_normal", rec.standard_normal)):
            self.saved.append((owner, name, getattr(owner, name)))
            setattr(owner, name, new)
        return self

    def __exit__(self, *a):
        for owner, name, old in reversed(self.saved):
            setattr(owner, name, old)


def execute(ds, D, deviation, sweeps, split=None, inject=None):
    """Returns (violations [(sig, msg)], n_blocks, n_draws, outcome digest material).
    split=k: the observations reach the model in two add_observations calls (first k rows, then the rest)."""
    out = []
    screen = build_screen(ds)
    _, _, es = space()
    model = SC.SparseDrugCombo(experiment_space=es, n_embedding_dimensions=D)
    if screen.size and split:
        first = np.zeros(screen.size, dtype=bool)
        first[:split] = True
        model.add_observations(screen.subset(first))
        model.add_observations(screen.subset(~first))
    elif screen.size:
        model.add_observations(screen.subset_observed())
    wm = model.wrapped_model
    y, cl, d1, d2 = wm.encode_obs()
    dat = Data(y, cl, d1, d2)
    rec = Recorder(wm, deviation)
    model.set_rng(rec)
    wm.rng = rec  # whether or not set_rng forwards
    order = []

    # wrap the block methods on the instance
    for blk, meth in STEP_METHODS.items():
        real = getattr(wm, meth)

        def make(blk=blk, real=real):
            def wrapped(*a, **k):
                rec.block = blk
                start = len(rec.records)
                try:
                    return real(*a, **k)
                finally:
                    post = rec.snapshot()
                    order.append(blk)
                    try:
                        oracle_block(blk, rec.records[start:], dat, wm, post, out)
                        if dat.n:
                            mu = [fitted(post, dat, i) for i in range(dat.n)]
                            if not close(post["Mu"], mu):
                                out.append((f"{blk}|fitted-values", f"after block {blk} the running fitted values {post['Mu'].tolist()} "
                                                                      f"differ from those implied by the parameters {mu}"))
                    except Exception as exc:  # noqa: BLE001
                        rec.errors.append(exc)
                    rec.block = None
            return wrapped

        setattr(wm, meth, make())

    n_blocks = 0
    with Patches(rec):
        for s in range(sweeps + 1):
            if s == sweeps:
                # a second run on the same model object, as sampling.sample does it: reset, then step again.
                # Every clause must hold from the reset state too (nothing may survive the reset in a cache).
                model.reset_model()
            if inject is not None and s == 1:
                # far state: the sweep starts from parameters a chain reaches only rarely (fitted values beyond +-10)
                wm.alpha = type(wm.alpha)(inject) if not isinstance(wm.alpha, float) else float(inject)
            del order[:]
            n0 = len(rec.records)
            model.step()
            n_blocks += len(order)
            if order != BLOCKS:
                out.append(("order", f"sweep {s}: blocks visited {order}, documented order is {BLOCKS}"))
            stray = [r for r in rec.records[n0:] if r["block"] is None]
            if stray:
                out.append(("stray-draw", f"sweep {s}: {len(stray)} random draw(s) outside any block"))
            # exported posterior sample reproduces fitted values and noise precision
            th = model.get_model_state()
            if dat.n:
                view = screen.subset_observed()
                pm = np.asarray(th.predict_conditional_mean(view), dtype=float)
                if not close(pm, np.asarray(wm.Mu, dtype=float)):
                    out.append(("export|mean", f"sweep {s}: exported sample predicts {pm.tolist()} on the training experiments, sampler's fitted values are {np.asarray(wm.Mu).tolist()}"))
                pv = np.asarray(th.predict_conditional_variance(view), dtype=float)
                if not close(pv, np.full(dat.n, 1.0 / float(wm.prec)), 1e-6):
                    out.append(("export|variance", f"sweep {s}: exported variance {pv.tolist()} != 1/precision {1.0 / float(wm.prec)}"))
            # the export must be a copy: mutate nothing, but compare identity
            for nme in ("W", "W0", "V0", "V1", "V2"):
                if np.shares_memory(getattr(th, nme), getattr(wm, nme)):
                    out.append(("export|alias", f"exported sample shares memory with the sampler's {nme}"))
    if rec.errors:
        raise rec.errors[0]
    mvns = [r for r in rec.records if r["kind"] == "mvn" and not r["failed"]]
    return out, n_blocks, len(rec.records), rec, mvns


def fitted_vector(S, cl, d1, d2):
    """vectorised twin of fitted() for the large probe (index -1 = control = all-zero row)"""
    pad = lambda a: np.concatenate([np.asarray(a, dtype=float), np.zeros((1,) + np.asarray(a).shape[1:])])  # noqa: E731
    V0, V1, V2 = pad(S["V0"]), pad(S["V1"]), pad(S["V2"])
    W = np.asarray(S["W"], dtype=float)[cl]
    return (S["alpha"] + np.asarray(S["W0"], dtype=float)[cl] + V0[d1] + V0[d2] + np.sum(W * (V1[d1] + V1[d2]), -1)
            + np.sum(W * V2[d1] * V2[d2], -1))


def execute_large(n_rows, D, sweeps):
    """Sparse probe far outside the enumerated sizes: n_rows observations (row types cycled), scripted draws,
    only the two clauses that need no per-row derivation: fitted values == parameters after every block, and the export."""
    out = []
    rt = row_types()
    ds = tuple((7 * k + k // len(rt)) % len(rt) for k in range(n_rows))
    screen = build_screen(ds)
    _, _, es = space()
    model = SC.SparseDrugCombo(experiment_space=es, n_embedding_dimensions=D)
    model.add_observations(screen.subset_observed())
    wm = model.wrapped_model
    y, cl, d1, d2 = (np.asarray(a) for a in wm.encode_obs())
    cl, d1, d2 = cl.astype(int), d1.astype(int), d2.astype(int)
    rec = Recorder(wm, None)
    model.set_rng(rec)
    wm.rng = rec
    order = []
    for blk, meth in STEP_METHODS.items():
        real = getattr(wm, meth)

        def make(blk=blk, real=real):
            def wrapped(*a, **k):
                rec.block = blk
                try:
                    return real(*a, **k)
                finally:
                    post = rec.snapshot()
                    order.append(blk)
                    mu = fitted_vector(post, cl, d1, d2)
                    bad = np.flatnonzero(~(np.abs(post["Mu"] - mu) <= TOL * (1 + np.abs(mu))))
                    if len(bad) and not any(o[0].endswith("fitted-values") for o in out):
                        i = int(bad[0])
                        out.append((f"{blk}|fitted-values", f"{n_rows} observations: after block {blk} the running fitted value of observation {i} "
                                                              f"is {post['Mu'][i]}, the parameters imply {mu[i]} ({len(bad)} rows differ)"))
                    rec.block = None
            return wrapped

        setattr(wm, meth, make())
    with Patches(rec):
        for s_ in range(sweeps):
            del order[:]
            model.step()
            if order != BLOCKS:
                out.append(("order", f"sweep {s_}: blocks visited {order}, documented order is {BLOCKS}"))
            th = model.get_model_state()
            pm = np.asarray(th.predict_conditional_mean(screen.subset_observed()), dtype=float)
            if not close(pm, np.asarray(wm.Mu, dtype=float)) and not any(o[0] == "export|mean" for o in out):
                i = int(np.argmax(np.abs(pm - np.asarray(wm.Mu, dtype=float))))
                out.append(("export|mean", f"{n_rows} observations, sweep {s_}: exported sample predicts {pm[i]} for training experiment {i}, sampler's fitted value is {float(wm.Mu[i])}"))
    return out, len(BLOCKS) * sweeps, rec


def check_mvn_sampler(pairs, out):
    """z -> x is affine: x(0) = Q^-1 b and A A' = Q^-1 for A = [x(e_i) - x(0)]."""
    real = fast_mvn.sample_mvn_from_precision
    for Q, b in pairs:
        D = Q.shape[0]
        try:
            x0 = np.asarray(real(Q.copy(), mu_part=b.copy(), rng=_FixedZ(np.zeros(D))), dtype=float)
            A = np.stack([np.asarray(real(Q.copy(), mu_part=b.copy(), rng=_FixedZ(np.eye(D)[i])), dtype=float) - x0 for i in range(D)], axis=1)
        except Exception as exc:  # noqa: BLE001
            out.append(("mvn|raises", f"sample_mvn_from_precision raised {short_exc(exc)} for SPD Q={Q.tolist()}"))
            continue
        Qi = np.linalg.inv(Q)
        if not close(x0, Qi @ b, 1e-8):
            out.append(("mvn|mean", f"sample_mvn_from_precision(Q={Q.tolist()}, mu_part={b.tolist()}) at z=0 gives {x0.tolist()}, Q^-1 b = {(Qi @ b).tolist()}"))
        if not close(A @ A.T, Qi, 1e-8):
            out.append(("mvn|covariance", f"sample_mvn_from_precision(Q={Q.tolist()}): A A' = {(A @ A.T).tolist()} but Q^-1 = {Qi.tolist()}"))


def spd_family():
    fam = []
    for D in (1, 2, 3):
        for k in range(4):
            M = np.array([[math.sin(1.3 * (i + 1) * (j + 2) + k) for j in range(D)] for i in range(D)])
            Q = M @ M.T + (0.5 + k) * np.eye(D)
            b = np.array([math.cos(i + k) * (1 + k) for i in range(D)])
            fam.append((Q, b))
    fam.append((np.array([[1e-3]]), np.array([2.0])))
    fam.append((np.array([[1e6, 0.0], [0.0, 1e-2]]), np.array([1.0, -1.0])))
    fam.append((np.array([[2.0, 1.9], [1.9, 2.0]]), np.array([0.3, 0.7])))
    return fam


# ------------------------------------------------------------------ plan / run
def plan(tier, seed):
    b = BOUNDS[tier]
    dss = datasets(b["max_rows"])
    items = []
    chunk = 12 if tier == "quick" else 40
    for D in b["D"]:
        for c in range(0, len(dss), chunk):
            items.append({"kind": "default", "D": D, "lo": c, "hi": min(len(dss), c + chunk)})
    if b["deviation_bound"]:
        small = [i for i, ds in enumerate(datasets(b["max_rows"])) if len(ds) <= 2]
        for c in range(0, len(small), 4):
            items.append({"kind": "deviate", "D": 2, "ids": small[c:c + 4]})
    # environment answer "a multivariate-normal draw fails": every single draw of the run in turn (the sampler skips the update or
    # lets the error propagate; if it carries on, fitted values and export must still agree with the parameters)
    with_rows = [i for i, ds in enumerate(dss) if len(ds) >= 1]
    pick = with_rows[:: max(1, len(with_rows) // (24 if tier == "quick" else 120))]
    for c in range(0, len(pick), 6):
        items.append({"kind": "mvnfail", "D": 2, "ids": pick[c:c + 6]})
    items.append({"kind": "mvn"})
    for n in LARGE_PROBES:
        items.append({"kind": "large", "n": n, "D": 2})
    return items


# sparse probes (not part of the exhaustive claim): just above a power of two, and a round figure
LARGE_PROBES = [4097, 5000]
DEV_VALUES = [{"z": 3.0, "g": 0.01}, {"z": -3.0, "g": 100.0}]
# whole-run scripts (every gamma draw extreme): drive every precision into its lower / upper clipping bound
# ... and every normal draw far out in one tail: parameters (and fitted values well beyond +-10) that a chain reaches only rarely
GLOBAL_SCRIPTS = [("all", {"g": 0.002}), ("all", {"g": 500.0})]


def report(col, res, ds, D, deviation, sweeps, split=None, inject=None):
    case = {"dataset": list(ds), "D": D, "deviation": deviation, "sweeps": sweeps, "split": split, "inject": inject}
    for sig, msg in res:
        col.violation(f"C08|{sig.split('[')[0] if '|' not in sig else sig}", f"dataset {[row_types()[i] for i in ds]}, D={D}, script deviation {deviation}: {msg}", case)


def run_one(col, ds, D, deviation, sweeps, split=None, inject=None):
    if deviation is None:
        dv = None
    elif deviation[0] == "all":
        dv = GLOBAL_SCRIPTS[deviation[1]]
    elif deviation[0] == "mvnfail":
        dv = ("mvnfail", deviation[1])
    else:
        dv = (deviation[0], DEV_VALUES[deviation[1]])
    try:
        res, n_blocks, n_draws, rec, mvns = execute(ds, D, dv, sweeps, split=split, inject=inject)
    except np.linalg.LinAlgError as exc:
        if deviation is not None and deviation[0] == "mvnfail" and "injected" in str(exc):
            # the sampler lets the failure propagate: nothing further is promised about this model object
            col.refused += 1
            col.outcome("mvnfail-propagated", tuple(ds), D, deviation[1])
            return None, []
        raise
    col.evaluations += 1
    col.states += n_blocks + 1
    col.transitions += n_blocks
    col.count("draws", n_draws)
    col.outcome(tuple(ds), D, deviation, split, inject, np.asarray(rec.wm.W).tobytes(), float(rec.wm.prec))
    if ds:
        col.nontriv(tuple(ds), D, deviation, split, inject)
    # normalise signatures: 'W0[1]|prior' -> 'W0|prior'
    norm = []
    for sig, msg in res:
        head = sig.split("|")
        head[0] = head[0].split("[")[0]
        norm.append(("|".join(head), msg))
    report(col, [(sg + ("|two-add-calls" if split else ""), ms + (f" (observations added in two calls: {split} + {len(ds) - split})" if split else "")) for sg, ms in norm],
           ds, D, deviation, sweeps, split, inject)
    return rec, mvns


def run_item(item, col, tier):
    b = BOUNDS[tier]
    sweeps = 3
    if item["kind"] == "mvn":
        out = []
        fam = spd_family()
        check_mvn_sampler(fam, out)
        col.evaluations += len(fam)
        col.states += len(fam)
        col.transitions += len(fam) * 4
        col.outcome("mvn-family", len(out))
        col.nontriv("mvn-family")
        for sig, msg in out:
            col.violation(f"C08|{sig}", msg, {"mvn_family": True})
        return
    if item["kind"] == "large":
        res, n_blocks, rec = execute_large(item["n"], item["D"], 3)
        col.evaluations += 1
        col.states += n_blocks + 1
        col.transitions += n_blocks
        col.outcome("large", item["n"], float(rec.wm.prec))
        col.nontriv("large", item["n"])
        for sig, msg in res:
            head = sig.split("|")
            head[0] = head[0].split("[")[0]
            col.violation("C08|" + "|".join(head), msg, {"large": item["n"], "D": item["D"]})
        return
    dss = datasets(b["max_rows"])
    if item["kind"] == "default":
        seen_q = []
        for i in range(item["lo"], item["hi"]):
            rec, mvns = run_one(col, dss[i], item["D"], None, sweeps)
            if i == item["lo"]:
                col.sample({"dataset_rows(sample,d1,d2)": [row_types()[k] for k in dss[i]], "D": item["D"], "sweeps": sweeps,
                            "draws": len(rec.records), "blocks_per_sweep": BLOCKS})
            seen_q.extend((r["Q"], r["b"]) for r in mvns[:6] if r["b"] is not None)
            for gi in range(len(GLOBAL_SCRIPTS)):
                run_one(col, dss[i], item["D"], ("all", gi), sweeps)
            # history: the same observations handed over in two add_observations calls (results arrive plate by plate)
            for k in range(1, len(dss[i])):
                run_one(col, dss[i], item["D"], None, sweeps, split=k)
            if dss[i]:
                for far in (14.0, -14.0):
                    run_one(col, dss[i], item["D"], None, sweeps, inject=far)
        out = []
        check_mvn_sampler(seen_q[:40], out)
        col.count("mvn_pairs_checked", len(seen_q[:40]))
        for sig, msg in out:
            col.violation(f"C08|{sig}", msg, {"mvn_family": True})
    elif item["kind"] == "mvnfail":
        for i in item["ids"]:
            ds = dss[i]
            res, n_blocks, n_draws, rec, _ = execute(ds, item["D"], None, sweeps)
            for k in range(rec.n_mvn):
                run_one(col, ds, item["D"], ("mvnfail", k), sweeps)
            col.count("mvn_draws_failed_in_turn", rec.n_mvn)
    else:
        for i in item["ids"]:
            ds = dss[i]
            res, n_blocks, n_draws, rec, _ = execute(ds, item["D"], None, sweeps)
            n_calls = rec.n_calls
            for call in range(n_calls):
                for dv in range(len(DEV_VALUES)):
                    run_one(col, ds, item["D"], (call, dv), sweeps)


def replay(case, col):
    if case.get("mvn_family"):
        out = []
        check_mvn_sampler(spd_family(), out)
        for sig, msg in out:
            col.violation(f"C08|{sig}", msg, case)
        col.evaluations += 1
        return
    if case.get("large"):
        run_item({"kind": "large", "n": case["large"], "D": case.get("D", 2)}, col, "quick")
        return
    dev = case.get("deviation")
    run_one(col, tuple(case["dataset"]), case["D"], None if dev is None else tuple(dev), case.get("sweeps", 3), split=case.get("split"), inject=case.get("inject"))
