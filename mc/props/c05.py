"""C05  A plate's DBAL score depends on that plate alone and equals the direct estimator.

Bounded-exhaustive enumeration of (number of posterior samples, ordered set of plates of
unequal sizes, value family, relabelling of the posterior samples, order of experiments
inside each plate, scorer batch size, answer of the random source) on the REAL kernel,
the two wrappers and GaussianDBALScorer.score.  The oracle for every plate of every call
is ``ref_score`` of that plate ALONE on its ORIGINAL (un-relabelled, un-permuted) values:
one equality that implies independence from co-scored plates, padding, batch size, plate
order, experiment order and relabelling.
"""
import itertools
import math

import numpy as np

from .. import env

env.setup()

from ..core import exception_origin_in_repo, short_exc, floats  # noqa: E402
from ..explore import Chooser, ScriptedGenerator, explore  # noqa: E402
from ..screens import make_screen  # noqa: E402

from batchie.core import Theta, ThetaHolder  # noqa: E402
from batchie.distance_calculation import ChunkedDistanceMatrix  # noqa: E402
from batchie.scoring import gaussian_dbal as G  # noqa: E402

PROP = "C05"
LEVEL = "model_checking"
ENGINE = "E1-input-enumeration+E2-choice-tree"
TECHNIQUE = "bounded-exhaustive input enumeration against a scalar loop-by-loop reference estimator; full answer tree of the triple-order draw for n=3,4"
LEVEL_TEXT = (
    "every call in the stated finite space is executed on the real kernel / wrappers / scorer and every returned "
    "score is compared (rtol=atol=1e-9) with a scalar, unpadded, triple-by-triple evaluation of the documented "
    "estimator on that plate alone; nothing is sampled"
)
RULE = (
    "cases = {n posterior samples} x {every ordered arrangement of every multiset of plate sizes} x {11 value families} "
    "x {4 entry points} + every relabelling of the samples (n<=5) + every order of experiments inside every plate "
    "+ scorer max_chunk in {1,2,50} + the answer tree of rng.choice (complete for n=3,4; default and reversed order "
    "above) + the complete 3^9 value product on the smallest shape.  A case is non-trivial when it exercises at "
    "least one invariance dimension (co-scored plates of unequal size i.e. real padding, non-sorted plate order, "
    "non-identity relabelling, non-identity experiment order, non-default triple order, >1 scorer sub-group, or a "
    "mix of zero and positive triple distances); distinct class = (entry point, n, multiset of plate sizes, value "
    "family, set of dimensions exercised); in the smallest-shape product a case counts when means and variances are "
    "not constant and some distance is positive, class = (rank pattern of the means, of the variances, zero pattern "
    "of the distances).  Outcome = (entry point, score to 7 significant digits)."
)
BOUNDS = {
    "quick": {"n_thetas": [3, 4, 5], "plate_sizes": [1, 2, 3], "max_plates": 3, "plate_orders": "all k!",
              "relabellings": "all n! for n<=5", "experiment_orders": "full product over plates (<=216)",
              "max_chunk": [1, 2, 50], "rng_tree": "array entry points: complete for n=3 (1 leaf) and n=4 (24 leaves) on every multiset and "
              "family; scorer n=4: complete for 1 kernel call (24 leaves, every multiset) and for 2 kernel calls (576 "
              "leaves, multisets of pairwise distinct sizes), families graded and onepair, sorted plate order; "
              "everywhere else (and n=5) the default answer plus the fully reversed triple order",
              "smallest_shape_product": "means {-1,0,2}^3 x variances {1e-3,1,1e3}^3 x distances {0,1,3}^3 = 19683",
              "value_families": 11, "max_combos": "C(n,3) and 5000 (both >= C(n,3))", "distance_factor": 1.0,
              "sparse_large_probe": "one call with 20 plates (1..400 experiments) x 16 posterior samples (560 triples), all four entry points; 65 / 70 / 130 / 300 plates of 1..8 experiments in one call"},
    "thorough": {"n_thetas": [3, 4, 5, 6, 7], "plate_sizes": [1, 2, 3, 4], "max_plates": 4, "plate_orders": "all k!",
                 "relabellings": "all n! for n<=5; identity, reversal, rotation, one swap for n=6,7",
                 "experiment_orders": "full product over plates when <= 576, otherwise every order of one plate at a "
                 "time with the others unpermuted",
                 "max_chunk": [1, 2, 3, 50], "rng_tree": "as quick, and the scorer 2-call tree on every multiset with <= 3 plates; "
                 "n>=5: default + fully reversed triple order",
                 "smallest_shape_product": "19683 cases x 2 wrappers", "value_families": 11,
                 "max_combos": "C(n,3) and 5000", "distance_factor": 1.0, "sparse_large_probe": "as quick"},
}
ASSUMPTIONS = [
    "reference estimator: for every triple a<b<c, log(D_ab+D_bc+D_ac) + sum over experiments of "
    "[-1/2 log alpha - 1/2 v_a v_b v_c / alpha^2 (v_c (m_a-m_b)^2 + v_b (m_a-m_c)^2 + v_a (m_b-m_c)^2)], "
    "alpha = v_a v_b + v_b v_c + v_a v_c, then a max-shifted log-sum; scalar math only (hand-checked on two cases)",
    "distance_factor is left at its default 1.0: the statement does not say how it enters",
    "when EVERY triple has zero summed distance the statement demands nothing (the estimator is log 0): the returned "
    "value is recorded as an outcome but not judged (don't-care); with a mix of zero and positive triples full "
    "equality and finiteness are demanded",
    "the vectorised kernel is called directly with NaN-padded variances (as its docstring requires) and 0-padded "
    "means (as both wrappers do); its docstring does not name the mean padding",
    "values come from finite menus / eleven deterministic families (means within +-1e8, variances 1e-6..1.2e3, "
    "distances 0..3.5); nothing is claimed for inf/NaN inputs or values whose squares overflow",
    "the scorer is driven with stub Theta objects whose conditional mean / variance are a table keyed by "
    "(sample id, treatment ids) of the rows asked about; real Screen/Plate, ThetaHolder, ChunkedDistanceMatrix",
    "an exception raised inside batchie on these well-formed inputs is a violation (the statement promises a value)",
    "measured on the unchanged tree (426 196 calls of the thorough tier, the eight families of the first build): max |score - reference| / "
    "(1 + |reference|) = 5.5e-16, also on the extreme-variance and huge-gap families (no cancellation problem), so "
    "rtol=atol=1e-9 is far from tight and was not loosened",
]

RTOL = 1e-9
ATOL = 1e-9
_MEASURE = None  # offline only: set to {} to record the largest discrepancy per family (never decides a verdict)
FAMILIES = ["graded", "extreme", "equalmeans", "zerodist", "onepair", "hugegap", "offset", "intmeans", "nearhomo", "tinyvar", "diag"]
ENTRIES = ["hetero", "homo", "kernel", "scorer"]


# ------------------------------------------------------------------ reference
def ref_score(m, v, D):
    """Direct, unpadded, loop-by-loop evaluation for ONE plate.
    m, v: n lists of E floats; D: n x n nested list.  Scalar math only."""
    n = len(m)
    n_exp = len(m[0])
    terms = []
    for a, b, c in itertools.combinations(range(n), 3):
        d = D[a][b] + D[b][c] + D[a][c]
        t = math.log(d) if d > 0 else -math.inf
        for e in range(n_exp):
            va, vb, vc = v[a][e], v[b][e], v[c][e]
            ma, mb, mc = m[a][e], m[b][e], m[c][e]
            alpha = va * vb + vb * vc + va * vc
            t += -0.5 * math.log(alpha) - 0.5 * va * vb * vc / (alpha * alpha) * (
                vc * (ma - mb) ** 2 + vb * (ma - mc) ** 2 + va * (mb - mc) ** 2
            )
        terms.append(t)
    mx = max(terms)
    if mx == -math.inf:
        return -math.inf
    s = 0.0
    for t in terms:
        s += math.exp(t - mx)
    return mx + math.log(s)


def some_triple_positive(D):
    n = len(D)
    for a, b, c in itertools.combinations(range(n), 3):
        if D[a][b] + D[b][c] + D[a][c] > 0:
            return True
    return False


def mixed_triples(D):
    n = len(D)
    flags = {D[a][b] + D[b][c] + D[a][c] > 0 for a, b, c in itertools.combinations(range(n), 3)}
    return len(flags) == 2


# ------------------------------------------------------------------ value families
def _graded_m(t, e, p):
    return 0.31 * t - 0.17 * e + 0.05 * p + 0.011 * t * e * (p + 1) + 0.07 * ((t * t + e + p) % 3)


def _graded_v(t, e, p):
    return 0.4 + 0.23 * t + 0.11 * e + 0.05 * p + 0.017 * t * e


def family_plate(fam, n, p, n_exp):
    """(m, v) of plate identity p: n lists of n_exp floats each."""
    m = [[_graded_m(t, e, p) for e in range(n_exp)] for t in range(n)]
    v = [[_graded_v(t, e, p) for e in range(n_exp)] for t in range(n)]
    if fam == "extreme":
        cyc = (1e-3, 1e3, 1.0)
        v = [[cyc[(t + e + p) % 3] * (1.0 + 0.03 * t + 0.01 * e) for e in range(n_exp)] for t in range(n)]
    elif fam == "equalmeans":
        m = [[0.5 + 0.25 * e - 0.1 * p for e in range(n_exp)] for t in range(n)]
    elif fam in ("large-hi", "large-lo", "large-mixed"):
        # many experiments per plate, variances at the ends of the six orders of magnitude: a normaliser
        # formed as a product over experiments leaves the double range, a sum of logs does not
        base = {"large-hi": (1e3, 3e2), "large-lo": (1e-3, 3e-3), "large-mixed": (1e3, 1e-3)}[fam]
        v = [[base[(t + e) % 2] * (1.0 + 0.01 * t + 0.001 * e) for e in range(n_exp)] for t in range(n)]
    elif fam == "nearhomo":
        # variances that are ALMOST the same for every experiment of a plate (drift in the 6th significant digit): still heteroscedastic
        v = [[(0.4 + 0.23 * t + 0.05 * p) * (1.0 + 3e-6 * e) for e in range(n_exp)] for t in range(n)]
    elif fam == "tinyvar":
        # variances around 1e-6 that differ by half a percent between experiments, means that differ by ~1e-3
        m = [[1e-3 * x for x in row] for row in m]
        v = [[1e-6 * (1.0 + 0.3 * t + 0.1 * p) * (1.0 + 0.005 * e) for e in range(n_exp)] for t in range(n)]
    elif fam == "intmeans":
        # integer-valued means handed over as an int64 array (counts, rounded read-outs); distances stay fractional
        m = [[int((3 * t + 2 * e + p) % 7) - 3 for e in range(n_exp)] for t in range(n)]
    elif fam == "offset":
        # all means share a huge common offset (1e6 .. 1e8), the differences between posterior samples stay of order 0.1-1: the
        # estimator only ever uses differences of means, which are exact for such inputs; a rewrite through moments is not
        off = (1e6, -3e7, 1e8)[p % 3]
        m = [[off + x for x in row] for row in m]
    elif fam == "hugegap":
        m = [[1e4 * (t + 1) * (1.0 + 0.1 * e) + p + ((t * t) % 3) * 3e3 for e in range(n_exp)] for t in range(n)]
        v = [[1e-3 * (1.0 + 0.1 * t + 0.05 * e) for e in range(n_exp)] for t in range(n)]
    return m, v


def family_D(fam, n):
    if fam == "zerodist":
        return [[0.0] * n for _ in range(n)]
    if fam == "onepair":
        D = [[0.0] * n for _ in range(n)]
        D[0][1] = D[1][0] = 2.5
        return D
    D = [[0.0] * n for _ in range(n)]
    for a in range(n):
        for b in range(a + 1, n):
            D[a][b] = D[b][a] = 0.2 + 0.5 * (b - a) + 0.13 * a
    if fam == "diag":
        # a symmetric non-negative matrix whose DIAGONAL is not zero (e.g. 0.5 * (R + R.T)); the estimator sums distances of pairs
        # of distinct samples, so the diagonal has no say (the scorer entry stores pairs i > j only and never sees it)
        for a in range(n):
            D[a][a] = 0.3 + 0.1 * a
    return D


def homo_of(v):
    """homoscedastic version of a plate's variances: the first experiment's value everywhere."""
    return [[row[0]] * len(row) for row in v]


def relabel(m, v, D, perm):
    """new sample i = old sample perm[i] (rows of m, v; rows and columns of D)."""
    n = len(perm)
    m2 = [[list(pm[perm[i]]) for i in range(n)] for pm in m]
    v2 = [[list(pv[perm[i]]) for i in range(n)] for pv in v]
    D2 = [[D[perm[i]][perm[j]] for j in range(n)] for i in range(n)]
    return m2, v2, D2


def permute_experiments(pm, eperm):
    return [[row[j] for j in eperm] for row in pm]


# ------------------------------------------------------------------ scorer plumbing
class TableTheta(Theta):
    """Stub posterior sample: predictions are looked up per row by (sample id, treatment ids)."""

    def __init__(self, mean_table, var_table):
        self.mean_table = mean_table
        self.var_table = var_table

    @staticmethod
    def _keys(data):
        sids = data.sample_ids
        tids = data.treatment_ids
        return [(int(sids[i]), tuple(int(x) for x in tids[i])) for i in range(len(sids))]

    def predict_viability(self, data):
        return self.predict_conditional_mean(data)

    def predict_conditional_mean(self, data):
        return np.array([self.mean_table[k] for k in self._keys(data)], dtype=float)

    def predict_conditional_variance(self, data):
        return np.array([self.var_table[k] for k in self._keys(data)], dtype=float)

    def private_parameters_dict(self):
        return {}

    @classmethod
    def from_dicts(cls, private_params, shared_params):
        raise NotImplementedError


_SCREENS = {}


def screen_for(sizes):
    """Real Screen with plate identity p named 'p<p>' holding sizes[p] rows; rows of the
    plates are interleaved (round-robin) so that plate selections are non-contiguous.
    Returns (screen, {p: Plate}, {p: [row key of experiment 0, 1, ...]})."""
    key = tuple(sizes)
    if key in _SCREENS:
        return _SCREENS[key]
    rows = []
    g = 0
    for e in range(max(sizes)):
        for p, s in enumerate(sizes):
            if e < s:
                rows.append((f"s{g % 2}", f"p{p}", ((f"d{g}", 1.0), (f"x{g % 3}", 2.0)), 0.0, False))
                g += 1
    screen = make_screen(rows)
    plates = {}
    keys = {}
    for plate in screen.plates:
        p = int(str(plate.plate_name)[1:])
        plates[p] = plate
        keys[p] = TableTheta._keys(plate)
        assert len(keys[p]) == sizes[p]
    allk = [k for p in keys for k in keys[p]]
    assert len(set(allk)) == len(allk) == sum(sizes)
    _SCREENS[key] = (screen, plates, keys)
    return _SCREENS[key]


def make_distance_matrix(D, order=None):
    """order: None = pairs stored row by row; 'reversed' = last pair first; 'swapped-halves' = as two chunk files combined in
    the other order would leave them.  The matrix is the same matrix."""
    n = len(D)
    cdm = ChunkedDistanceMatrix(n)
    pairs = [(i, j) for i in range(n) for j in range(i)]
    if order == "reversed":
        pairs = pairs[::-1]
    elif order == "swapped-halves":
        h = len(pairs) // 2
        pairs = pairs[h:] + pairs[:h]
    for i, j in pairs:
        cdm.add_value(i, j, D[i][j])
    return cdm


# ------------------------------------------------------------------ executing one case
def n_kernel_calls(case):
    if case["entry"] != "scorer":
        return 1
    return int(math.ceil(len(case["order"]) / case["max_chunk"]))


def reversed_choices(case):
    c = math.comb(case["n"], 3)
    return [c - 1 - i for i in range(c - 1)] * n_kernel_calls(case)


def execute(case, chooser):
    """Run the real code once.  case: entry, n, means / variances (per plate identity, each n x E),
    D, order (plate identities in call order), max_combos, max_chunk.
    Returns (scores in call order, keys_ok)."""
    entry = case["entry"]
    order = case["order"]
    rng = ScriptedGenerator(chooser)
    D = np.array(case["D"], dtype=float)
    ms = [np.array(case["means"][p], dtype=np.int64 if case.get("family") == "intmeans" else float) for p in order]
    vs = [np.array(case["variances"][p], dtype=float) for p in order]
    if entry == "hetero":
        out = G.dbal_fast_gaussian_scoring_heteroscedastic(ms, vs, D, rng, max_combos=case["max_combos"])
        return out, True
    if entry == "homo":
        var = np.array([[row[0] for row in case["variances"][p]] for p in order], dtype=float)
        out = G.dbal_fast_gaussian_scoring_homoscedastic(ms, var, D, rng, max_combos=case["max_combos"])
        return out, True
    if entry == "kernel":
        emax = max(a.shape[1] for a in ms)
        pm = np.zeros((len(ms), case["n"], emax))
        pv = np.full((len(ms), case["n"], emax), np.nan)
        for i, (a, b) in enumerate(zip(ms, vs)):
            pm[i, :, : a.shape[1]] = a
            pv[i, :, : b.shape[1]] = b
        out = G.dbal_fast_gauss_scoring_vectorized(pm, pv, D, rng, max_combos=case["max_combos"])
        if case.get("again"):
            # the caller keeps its padded arrays and scores them once more (same array objects): the second answer is judged
            out = G.dbal_fast_gauss_scoring_vectorized(pm, pv, D, ScriptedGenerator(Chooser()), max_combos=case["max_combos"])
        return out, True
    if entry == "scorer":
        sizes = [len(pm[0]) for pm in case["means"]]
        _screen, plates, keys = screen_for(sizes)
        holder = ThetaHolder(n_thetas=case["n"])
        for t in range(case["n"]):
            mt, vt = {}, {}
            for p in range(len(sizes)):
                for e, k in enumerate(keys[p]):
                    mt[k] = case["means"][p][t][e]
                    vt[k] = case["variances"][p][t][e]
            holder.add_theta(TableTheta(mt, vt))
        cdm = make_distance_matrix(case["D"], order=case.get("cdm_order"))
        scorer = G.GaussianDBALScorer(max_chunk=case["max_chunk"], max_triples=case["max_combos"])
        arg = {int(plates[p].plate_id): plates[p] for p in order}
        if case.get("warm_D") is not None:
            # the scorer object has been used before, with another distance matrix of the same size
            scorer.score(plates=arg, distance_matrix=make_distance_matrix(case["warm_D"]), samples=holder,
                         rng=ScriptedGenerator(Chooser()), progress_bar=False)
        res = scorer.score(plates=arg, distance_matrix=cdm, samples=holder, rng=rng, progress_bar=False)
        ids = [int(plates[p].plate_id) for p in order]
        keys_ok = isinstance(res, dict) and len(res) == len(ids) and sorted(int(k) for k in res) == sorted(ids)
        out = [res[i] if i in res else float("nan") for i in ids] if isinstance(res, dict) else None
        return out, keys_ok
    raise KeyError(entry)


def _sig_num(x):
    x = float(x)
    if math.isnan(x) or math.isinf(x):
        return repr(x)
    return "%.6e" % x


def check_case(case, col, ch, expected=None, dims=()):
    """Execute one case with one answer sequence (Chooser ch) and judge every returned score."""
    entry = case["entry"]
    order = case["order"]
    col.evaluations += 1
    col.transitions += 1
    sizes_called = [len(case["means"][p][0]) for p in order]
    ragged = "ragged" if len(set(sizes_called)) > 1 else "dense"
    rec = dict(case) if "__item__" not in case else {"__item__": case["__item__"], "entry": entry}  # big workloads: replay by work item
    try:
        got, keys_ok = execute(case, ch)
    except Exception as exc:  # noqa: BLE001
        rec["choices"] = ch.choices
        if exception_origin_in_repo(exc):
            col.violation(
                f"C05|{entry}|raised|{type(exc).__name__}|{ragged}",
                f"{entry}: batchie raised on a well-formed input ({short_exc(exc)}); plate sizes in call order {sizes_called}",
                rec,
            )
            return None
        raise
    rec["choices"] = ch.choices
    col.count("choice_points", len(ch.trace))
    if any(ch.choices):
        dims = set(dims) | {"triple-order"}
    if not keys_ok:
        col.violation(f"C05|{entry}|keys", f"{entry}: returned keys differ from the plate ids passed in", rec)
    try:
        got = [float(x) for x in got]
    except Exception:  # noqa: BLE001
        col.violation(f"C05|{entry}|shape|{ragged}", f"{entry}: result is not a sequence of floats: {got!r}", rec)
        return None
    if len(got) != len(order):
        col.violation(f"C05|{entry}|shape|{ragged}",
                      f"{entry}: {len(got)} scores returned for {len(order)} plates", rec)
        return None
    positive = some_triple_positive(case["D"])
    for i, p in enumerate(order):
        if expected is not None:
            exp = expected[p]
        else:
            v = case["variances"][p]
            exp = ref_score(case["means"][p], homo_of(v) if entry == "homo" else v, case["D"])
        g = got[i]
        col.outcome(entry, _sig_num(g))
        if not positive:
            col.count("dontcare_all_triple_distances_zero")
            col.count("dontcare_returned_" + _sig_num(g))
            continue
        col.count("scores_judged")
        if not math.isfinite(g):
            col.violation(
                f"C05|{entry}|nonfinite|{ragged}",
                f"{entry}: plate #{i} (size {sizes_called[i]}) scored {g} although some triple has positive distance "
                f"(reference {exp!r})", dict(rec, plate_index=i))
            continue
        if _MEASURE is not None:
            r = abs(g - exp) / (1.0 + abs(exp))
            if r > _MEASURE.get(case.get("family"), (-1.0,))[0]:
                _MEASURE[case.get("family")] = (r, entry, g, exp)
        if not abs(g - exp) <= ATOL + RTOL * abs(exp):
            col.violation(
                f"C05|{entry}|value|{ragged}",
                f"{entry}: plate #{i} (size {sizes_called[i]}, co-scored sizes {sizes_called}) scored {g!r}, direct "
                f"estimator on that plate alone gives {exp!r} (diff {g - exp:.3e})", dict(rec, plate_index=i))
    if dims:
        col.nontriv(entry, case["n"], tuple(sorted(sizes_called)), case.get("family"), tuple(sorted(dims)))
    return got


# ------------------------------------------------------------------ enumeration
def multisets(sizes, max_plates):
    out = []
    for k in range(1, max_plates + 1):
        out.extend(itertools.combinations_with_replacement(sizes, k))
    return [list(t) for t in out]


def tier_params(tier):
    if tier == "quick":
        return {"ns": [3, 4, 5], "sizes": [1, 2, 3], "max_plates": 3, "chunks": [1, 2, 50], "exp_cap": 216}
    return {"ns": [3, 4, 5, 6, 7], "sizes": [1, 2, 3, 4], "max_plates": 4, "chunks": [1, 2, 3, 50], "exp_cap": 576}


def plan(tier, seed):
    tp = tier_params(tier)
    items = []
    for i in range(27):
        items.append({"kind": "product3", "slice": i})
    for fam in ("large-hi", "large-lo", "large-mixed"):
        for n in (3, 4):
            items.append({"kind": "large", "n": n, "family": fam})
    items.append({"kind": "bigbatch", "n": 16, "family": "graded"})
    items.append({"kind": "bigbudget"})
    for plates in (65, 70, 130, 300):
        items.append({"kind": "manyplates", "n": 4, "family": "graded", "plates": plates})
    for n in tp["ns"][:3]:
        items.append({"kind": "scorer-reuse", "n": n})
    for n in tp["ns"]:
        for fam in FAMILIES:
            items.append({"kind": "groupings", "n": n, "family": fam})
            items.append({"kind": "relabel", "n": n, "family": fam})
            items.append({"kind": "exporder", "n": n, "family": fam})
            items.append({"kind": "rngtree", "n": n, "family": fam})
            if tier == "thorough":
                for k in range(1, tp["max_plates"] + 1):
                    parts = 1 if k <= 2 else (8 if (k == 4 or n == 4) else 2)
                    for part in range(parts):
                        items.append({"kind": "scorer", "n": n, "family": fam, "k": k, "part": part, "parts": parts})
            else:
                items.append({"kind": "scorer", "n": n, "family": fam, "k": 0, "part": 0, "parts": 1})
    return items


class Base:
    """Original values of one (n, family, multiset): plates by identity, D, reference scores."""

    def __init__(self, n, fam, sizes):
        self.n, self.fam, self.sizes = n, fam, list(sizes)
        self.m, self.v = [], []
        for p, s in enumerate(sizes):
            m, v = family_plate(fam, n, p, s)
            self.m.append(m)
            self.v.append(v)
        self.vh = [homo_of(v) for v in self.v]
        self.D = family_D(fam, n)
        self.ref = [ref_score(m, v, self.D) for m, v in zip(self.m, self.v)]
        self.ref_h = [ref_score(m, v, self.D) for m, v in zip(self.m, self.vh)]
        self.mixed = mixed_triples(self.D)

    def case(self, entry, order=None, perm=None, eperms=None, max_combos=None, max_chunk=50):
        m = self.m
        v = self.vh if entry == "homo" else self.v
        D = self.D
        if eperms is not None:
            m = [permute_experiments(pm, ep) for pm, ep in zip(m, eperms)]
            v = [permute_experiments(pv, ep) for pv, ep in zip(v, eperms)]
        if perm is not None:
            m, v, D = relabel(m, v, D, perm)
        return {
            "entry": entry, "n": self.n, "family": self.fam, "means": m, "variances": v, "D": D,
            "order": list(order) if order is not None else list(range(len(self.sizes))),
            "max_combos": max_combos if max_combos is not None else math.comb(self.n, 3),
            "max_chunk": max_chunk,
        }

    def expected(self, entry):
        return self.ref_h if entry == "homo" else self.ref


def _dims(base, order, perm=None, eperms=None, chunks=1):
    d = set()
    sz = [base.sizes[p] for p in order]
    if len(set(sz)) > 1:
        d.add("padding")
    if len(order) > 1:
        d.add("co-scored")
    if list(order) != sorted(order):
        d.add("plate-order")
    if perm is not None and list(perm) != sorted(perm):
        d.add("relabel")
    if eperms is not None and any(list(e) != sorted(e) for e in eperms):
        d.add("exp-order")
    if chunks > 1:
        d.add("sub-groups")
    if base.mixed:
        d.add("zero+positive-triples")
    return d


def run_item(item, col, tier):
    tp = tier_params(tier)
    kind = item["kind"]
    if kind == "product3":
        return _run_product3(item, col)
    if kind == "large":
        # plates of 60 and 96 experiments next to a small one, all array entry points and the scorer
        for sizes in ([60], [96], [96, 2], [3, 60]):
            base = Base(item["n"], item["family"], sizes)
            for entry in ENTRIES:
                for order in ([list(range(len(sizes)))] + ([list(reversed(range(len(sizes))))] if len(sizes) > 1 else [])):
                    case = base.case(entry, order=order)
                    check_case(case, col, Chooser(), base.expected(entry), _dims(base, order) | {"large-plate"})
        col.states += 16
        return
    if kind == "manyplates":
        # sparse probe: more plates in one call than any enumerated case (block-wise processing of the plate axis), sizes in
        # an order that is neither sorted nor its own inverse permutation, with ties
        sizes = [((j * 7) % 5) + 1 + (3 if j % 11 == 0 else 0) for j in range(item["plates"])]
        base = Base(item["n"], item["family"], sizes)
        for entry in ENTRIES:
            case = base.case(entry, max_chunk=50)
            case["__item__"] = item
            check_case(case, col, Chooser(), base.expected(entry), _dims(base, case["order"]) | {"many-plates"})
            col.states += 1
        return
    if kind == "bigbudget":
        # 34 posterior samples = 5984 triples, budget 6000: every triple is enumerated by every entry point (a budget that
        # is lost on the way to the kernel falls back to 5000 and samples)
        base = Base(34, "graded", [2, 1])
        for entry in ENTRIES:
            for mc in ((1, 50) if entry == "scorer" else (50,)):
                case = base.case(entry, max_combos=6000, max_chunk=mc)
                case["__item__"] = item
                check_case(case, col, Chooser(), base.expected(entry), _dims(base, case["order"]) | {"budget-above-5000"})
                col.states += 1
        return
    if kind == "bigbatch":
        # ONE sparse probe far outside the enumerated sizes: 20 plates (one of 400 experiments) x 560 triples in one call, so
        # that any workload-dependent path (blocking, spilling) of the kernel is taken at least once; each plate is still
        # judged against the scalar estimator on that plate alone.  Not part of the exhaustive claim (see BOUNDS).
        sizes = [400, 1, 2, 3, 5, 8, 13, 21, 34, 55, 89, 96, 2, 3, 1, 7, 11, 4, 6, 9]
        base = Base(item["n"], item["family"], sizes)
        for entry in ENTRIES:
            case = base.case(entry, max_chunk=50)
            case["__item__"] = item
            check_case(case, col, Chooser(), base.expected(entry), _dims(base, case["order"]) | {"big-workload"})
            col.states += 1
        return
    if kind == "scorer-reuse":
        # the dense entry point called twice on the SAME padded arrays (every multiset of the tier, ragged ones matter)
        for fam in ("graded", "extreme"):
            for sizes in multisets(tp["sizes"], tp["max_plates"]) + [[60, 2]]:
                base = Base(item["n"], fam, sizes)
                case = base.case("kernel")
                case["again"] = True
                check_case(case, col, Chooser(), base.expected("kernel"), _dims(base, case["order"]) | {"same-arrays-scored-twice"})
                col.states += 1
        # the scorer's distance matrix holds its pairs in another order (chunk files combined in another order)
        for fam in ("graded", "onepair"):
            for sizes in ([2], [1, 3], [2, 2, 1]):
                base = Base(item["n"], fam, sizes)
                for od in ("reversed", "swapped-halves"):
                    case = base.case("scorer")
                    case["cdm_order"] = od
                    check_case(case, col, Chooser(), base.expected("scorer"), _dims(base, case["order"]) | {"distance-pairs-stored-in-another-order"})
                    col.states += 1
        # one scorer object, two calls with different distance matrices of the same size: the second call is judged
        for fam in ("graded", "onepair", "extreme"):
            for sizes in ([2], [1, 3], [2, 2, 1]):
                base = Base(item["n"], fam, sizes)
                for warm_fam in ("graded", "onepair", "zerodist"):
                    warm = family_D(warm_fam, item["n"])
                    if warm == base.D:
                        warm = [[0.0 if a == b else 7.0 + a + b for b in range(item["n"])] for a in range(item["n"])]
                    for mc in (1, 50):
                        case = base.case("scorer", max_chunk=mc)
                        case["warm_D"] = warm
                        check_case(case, col, Chooser(), base.expected("scorer"), _dims(base, case["order"]) | {"scorer-object-reused"})
                        col.states += 1
        return
    n, fam = item["n"], item["family"]
    msets = multisets(tp["sizes"], tp["max_plates"])
    sampled = False
    if kind == "groupings":
        # every multiset, every order of its plates, the three array entry points, both budgets
        for sizes in msets:
            base = Base(n, fam, sizes)
            for order in itertools.permutations(range(len(sizes))):
                col.states += 1
                for entry in ("hetero", "homo", "kernel"):
                    mc = 5000 if entry == "homo" else None
                    case = base.case(entry, order=order, max_combos=mc)
                    check_case(case, col, Chooser(), base.expected(entry), _dims(base, order))
                    if not sampled and len(sizes) == 3 and len(set(sizes)) == 3:
                        col.sample({k: case[k] for k in ("entry", "n", "family", "order", "means", "D")})
                        sampled = True
            # a proper sub-multiset scored alone must give the same values: covered because every
            # sub-multiset is itself enumerated and the reference never sees the co-scored plates
    elif kind == "relabel":
        if n <= 5:
            perms = list(itertools.permutations(range(n)))
        else:
            perms = [tuple(range(n)), tuple(reversed(range(n))), tuple(list(range(1, n)) + [0]),
                     tuple([1, 0] + list(range(2, n)))]
        for sizes in msets:
            base = Base(n, fam, sizes)
            order = list(range(len(sizes)))
            for pi, perm in enumerate(perms):
                col.states += 1
                entry = ("hetero", "homo", "kernel")[pi % 3] if pi else "hetero"
                case = base.case(entry, perm=perm)
                check_case(case, col, Chooser(), base.expected(entry), _dims(base, order, perm=perm))
    elif kind == "exporder":
        for sizes in msets:
            base = Base(n, fam, sizes)
            order = list(range(len(sizes)))
            per = [list(itertools.permutations(range(s))) for s in sizes]
            total = math.prod(len(x) for x in per)
            if total <= tp["exp_cap"]:
                combos = itertools.product(*per)
            else:
                ident = [tuple(range(s)) for s in sizes]
                combos = []
                for p in range(len(sizes)):
                    for ep in per[p]:
                        c = list(ident)
                        c[p] = ep
                        combos.append(tuple(c))
                combos = sorted(set(combos))
                col.count("exporder_one_plate_at_a_time_multisets")
            for ci, eperms in enumerate(combos):
                col.states += 1
                entry = "hetero" if ci % 2 == 0 else "kernel"
                case = base.case(entry, eperms=eperms)
                check_case(case, col, Chooser(), base.expected(entry), _dims(base, order, eperms=eperms))
    elif kind == "rngtree":
        c3 = math.comb(n, 3)
        for sizes in msets:
            base = Base(n, fam, sizes)
            order = list(range(len(sizes)))[::-1]
            col.states += 1
            for entry in ("hetero", "kernel"):
                case = base.case(entry, order=order, max_combos=c3 if entry == "hetero" else 5000)
                if n <= 4:
                    _full_tree(case, col, base, order)
                else:
                    for choices in ((), reversed_choices(case)):
                        check_case(case, col, Chooser(choices), base.expected(entry), _dims(base, order))
    elif kind == "scorer":
        kk = item["k"]
        mine = [sizes for sizes in msets if not kk or len(sizes) == kk]
        for sizes in mine[item["part"]::item["parts"]]:
            base = Base(n, fam, sizes)
            k = len(sizes)
            for oi, order in enumerate(itertools.permutations(range(k))):
                for chunk in tp["chunks"]:
                    if chunk != 50 and chunk > k:
                        continue  # same sub-grouping as 50
                    col.states += 1
                    calls = int(math.ceil(k / chunk))
                    mc = 5000 if (oi + chunk) % 2 else math.comb(n, 3)
                    case = base.case("scorer", order=order, max_combos=mc, max_chunk=chunk)
                    if n == 4 and calls <= 2 and oi == 0 and fam in ("graded", "onepair") and (
                            calls == 1 or (tier == "thorough" and k <= 3) or len(set(sizes)) == k):
                        _full_tree(case, col, base, order, chunks=calls)
                    else:
                        for choices in ((), reversed_choices(case)) if n > 3 else ((),):
                            check_case(case, col, Chooser(choices), base.ref, _dims(base, order, chunks=calls))
            # relabelling and experiment order through the scorer (sorted plate order, sub-groups of 2)
            order = list(range(k))
            rel = list(itertools.permutations(range(n))) if n == 3 else [tuple(reversed(range(n))),
                                                                         tuple(list(range(1, n)) + [0])]
            for perm in rel:
                col.states += 1
                case = base.case("scorer", perm=perm, max_chunk=2, max_combos=5000)
                check_case(case, col, Chooser(), base.ref, _dims(base, order, perm=perm, chunks=int(math.ceil(k / 2))))
            eperms = [tuple(reversed(range(s))) for s in sizes]
            if any(s > 1 for s in sizes):
                col.states += 1
                case = base.case("scorer", eperms=eperms, max_chunk=2, max_combos=5000)
                check_case(case, col, Chooser(), base.ref, _dims(base, order, eperms=eperms, chunks=int(math.ceil(k / 2))))
    else:
        raise KeyError(kind)


def _full_tree(case, col, base, order, chunks=1):
    """Every answer sequence of the scripted random source, on the real code."""
    expected = base.expected(case["entry"])
    dims = _dims(base, order, chunks=chunks)
    leaves = 0
    for _ch, _res in explore(lambda ch: check_case(case, col, ch, expected, dims)):
        leaves += 1
    col.count("rng_tree_leaves", leaves)
    col.count("rng_trees_completed")


def _ranks(xs):
    u = sorted(set(xs))
    return tuple(u.index(x) for x in xs)


def _run_product3(item, col):
    menu_m = (-1.0, 0.0, 2.0)
    menu_v = (1e-3, 1.0, 1e3)
    menu_d = (0.0, 1.0, 3.0)
    ms = list(itertools.product(menu_m, repeat=3))[item["slice"]]
    m = [[[x] for x in ms]]
    for vi, vs in enumerate(itertools.product(menu_v, repeat=3)):
        v = [[[x] for x in vs]]
        for di, (d01, d02, d12) in enumerate(itertools.product(menu_d, repeat=3)):
            D = [[0.0, d01, d02], [d01, 0.0, d12], [d02, d12, 0.0]]
            col.states += 1
            exp = [ref_score(m[0], v[0], D)]
            for entry in ("hetero", "homo"):
                case = {"entry": entry, "n": 3, "family": "product3", "means": m, "variances": v, "D": D,
                        "order": [0], "max_combos": 1 if entry == "hetero" else 5000, "max_chunk": 50}
                check_case(case, col, Chooser(), exp, ())
            if len(set(ms)) > 1 and len(set(vs)) > 1 and d01 + d02 + d12 > 0:
                col.nontriv("product3", _ranks(ms), _ranks(vs), (d01 > 0, d02 > 0, d12 > 0))
    col.sample({"entry": "hetero", "n": 3, "means": m, "variances": v, "D": D})


def replay(case, col):
    case = dict(case)
    case["means"] = floats(case["means"])
    case["variances"] = floats(case["variances"])
    case["D"] = floats(case["D"])
    choices = case.pop("choices", [])
    case.pop("plate_index", None)
    check_case(case, col, Chooser(choices), None, ())
