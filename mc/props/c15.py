"""C15  Combination unranking is a bijection: sampled triples are distinct and complete.

Four parts, all on the real ``batchie.scoring.gaussian_dbal`` code:

* ``full``    every index 0..C(n,k)-1 for every small (n, k): the produced sequence must be
              exactly ``sorted(descending tuples of itertools.combinations(range(n), k))``.
* ``stream``  every index of a large (n, k), split into index ranges: the produced tuple must
              equal the one obtained by walking an independent successor function from an
              independently unranked start, and satisfy the rank formula at both ends.
* ``lattice`` n in the thousands (C(n,3) up to 2e10): NOT exhaustive - a deterministic lattice
              of indices around every place where the leading / second element changes plus an
              equidistant stride; reported as a cap.
* ``scoring`` ``dbal_fast_gauss_scoring_vectorized`` driven by a ScriptedGenerator over the full
              answer tree of ``rng.choice(C, size, replace=False)``; the triples handed out by
              ``get_combination_at_sorted_index`` are recorded through a wrapper.
"""
import itertools
import math

import numpy as np

from .. import env

env.setup()

from ..core import short_exc  # noqa: E402
from ..explore import Chooser, ScriptedGenerator, explore  # noqa: E402

import batchie.scoring.gaussian_dbal as G  # noqa: E402

PROP = "C15"
LEVEL = "model_checking"
ENGINE = "E1-input-enumeration+E2-choice-tree"
TECHNIQUE = (
    "bounded-exhaustive enumeration of (n, k, index) against itertools / an independent successor walk; "
    "full answer tree of the scripted random source for the scoring consequence"
)
LEVEL_TEXT = (
    "exhaustive for every (n, k, index) inside the stated bounds (every index is unranked by the real function "
    "and compared with an independent enumeration); for n in the thousands only a deterministic lattice of "
    "indices is decided, which is reported as a cap; the scoring consequence is decided over every ordered answer "
    "of rng.choice inside the stated budgets"
)
RULE = (
    "cases = every (n, k, index) with 0 <= index < C(n,k) inside the bounds, unranked by the real "
    "get_combination_at_sorted_index, plus every (n_thetas, budget, ordered answer of rng.choice) of the scoring "
    "kernel; an unranking is non-trivial when the result is not the maximal tuple (the inner loop of the "
    "incremental arithmetic ran at least once), distinct class = (n, k, leading element, and the second element when k >= 3); a "
    "scoring run is non-trivial when >= 2 triples are drawn, distinct class = (n, budget, answer); outcome = "
    "(k, leading element[, second element when k >= 3]) of the tuple resp. the recorded list of triples"
)

QUICK_FULL_N = 40
THOROUGH_FULL_N = 64
STREAM_QUICK = [(130, 3), (200, 3)]  # beyond any small-n special-casing (a shortcut for n > 128 was seeded once)
STREAM_THOROUGH = [(100, 3), (150, 3), (200, 3), (300, 3), (100, 4), (1000, 2)]
LATTICE_N = [1000, 2000, 3000, 5000]
LATTICE_STRIDE_POINTS = 20000
STREAM_RANGE = 300000

BOUNDS = {
    "quick": {
        "exhaustive_all_indices": {"n": [0, QUICK_FULL_N], "k": [0, 4]},
        "scoring": {"n_thetas": [3, 4, 5, 6], "full_answer_tree_budgets": {"3": "1..2", "4": "1..5", "5": "1..5", "6": "1..3"},
                    "fixed_answers_for_larger_budgets": "identity, reversed, two rotations, for every budget up to C+1"},
        "lattice": "none in the quick tier",
        "consumed_triples": {"(n_thetas, budget)": "CONSUMED list: 9 pairs up to 40 thetas / 6000 triples, default answers; score == sum over exactly the unranked triples"},
    },
    "thorough": {
        "exhaustive_all_indices": {"n": [0, THOROUGH_FULL_N], "k": [0, 4], "additional_(n,k)": STREAM_THOROUGH},
        "scoring": {"n_thetas": [3, 4, 5, 6], "full_answer_tree_budgets": {"3": "1..2", "4": "1..5", "5": "1..6", "6": "1..4"},
                    "fixed_answers_for_larger_budgets": "identity, reversed, two rotations, for every budget up to C+1"},
        "lattice": {"n": LATTICE_N, "k": 3, "window": 3, "stride_points": LATTICE_STRIDE_POINTS,
                    "second_level_boundaries": "m and j on a lattice of ~40 values each"},
        "consumed_triples": "as quick",
    },
}
ASSUMPTIONS = [
    "the combinatorial number system theorem: a strictly descending k-tuple within range whose rank "
    "sum_j C(c_j, k-j) equals the index is THE index-th tuple in ascending tuple order (used for the streaming / "
    "lattice oracle; the small region is compared with itertools directly)",
    "indices outside 0..C(n,k)-1, negative n and k > 4 are outside the statement and not explored",
    "n in the thousands is decided on a deterministic lattice only (thorough tier) and reported as a cap",
    "the scoring consequence observes the triples at get_combination_at_sorted_index (module attribute, the "
    "observation point named by the property); if the kernel stops calling it the check reports a harness "
    "error, not a verdict",
    "for n_thetas=5 with budget >= 6 (quick; >= 7 thorough) and n_thetas=6 with budget >= 4 (quick; >= 5 "
    "thorough) only four fixed answers of rng.choice are run instead of the full ordered-sample tree (cap reported)",
]

UNRANK = "get_combination_at_sorted_index"


# ------------------------------------------------------------------ reference model
def ref_all(n, k):
    """All k-subsets of range(n) as strictly descending tuples in ascending tuple order."""
    return sorted(tuple(sorted(c, reverse=True)) for c in itertools.combinations(range(n), k))


def ref_rank(t):
    k = len(t)
    return sum(math.comb(c, k - j) for j, c in enumerate(t))


def ref_unrank(index, n, k):
    """Greedy combinatorial-number-system unranking (independent of the implementation)."""
    out = []
    rest = index
    hi = n
    for j in range(k, 0, -1):
        # largest c < hi with C(c, j) <= rest
        lo_c, hi_c = j - 1, hi - 1
        while lo_c < hi_c:
            mid = (lo_c + hi_c + 1) // 2
            if math.comb(mid, j) <= rest:
                lo_c = mid
            else:
                hi_c = mid - 1
        out.append(lo_c)
        rest -= math.comb(lo_c, j)
        hi = lo_c
    return tuple(out)


def ref_successor(t, n):
    """Next strictly descending tuple in ascending tuple order (None after the last)."""
    k = len(t)
    t = list(t)
    for j in range(k - 1, -1, -1):
        limit = n if j == 0 else t[j - 1]
        if t[j] + 1 < limit:
            t[j] += 1
            for m in range(j + 1, k):
                t[m] = k - 1 - m
            return tuple(t)
    return None


def judge(index, n, k, got):
    """Return (sig_suffix, text) when `got` is not the index-th combination, else None."""
    if not isinstance(got, tuple) or len(got) != k:
        return "wrong-length", f"result {got!r} is not a {k}-tuple"
    try:
        vals = [int(x) for x in got]
    except Exception:  # noqa: BLE001
        return "out-of-range", f"result {got!r} has non-integer members"
    if any(v != x for v, x in zip(vals, got)) or any(v < 0 or v >= n for v in vals):
        return "out-of-range", f"result {got!r} leaves 0..{n - 1}"
    if any(vals[i] <= vals[i + 1] for i in range(k - 1)):
        return "not-descending", f"result {got!r} is not strictly descending"
    r = ref_rank(vals)
    if r != index:
        return (
            "rank-mismatch",
            f"index {index} of C({n},{k}) gave {got!r}, which is combination number {r}; expected {ref_unrank(index, n, k)!r} "
            f"(so some subset is repeated and another one skipped)",
        )
    return None


def call_unrank(index, n, k):
    return getattr(G, UNRANK)(index, n, k)


def _key(got, k):
    """Class of a tuple: its leading element, plus the second one when k >= 3."""
    return tuple(got[:2]) if k >= 3 else tuple(got[:1])


def _note(col, n, k, got):
    if k >= 1 and tuple(got) != tuple(range(n - 1, n - 1 - k, -1)):
        col.nontriv(n, k, _key(got, k))
    col.outcome(k, _key(got, k))


def _violate(col, n, k, index, verdict):
    suffix, text = verdict
    col.violation(
        f"{PROP}|unrank|{suffix}",
        f"get_combination_at_sorted_index({index}, {n}, {k}): {text}",
        {"kind": "unrank", "n": n, "k": k, "index": int(index)},
    )


def check_one(col, index, n, k, expected=None, as_numpy=False):
    """One unranking, judged.  Returns the tuple (or None when it raised / was wrong)."""
    col.evaluations += 1
    col.states += 1
    col.transitions += 1
    arg = np.int64(index) if as_numpy else index
    try:
        got = call_unrank(arg, n, k)
    except Exception as exc:  # noqa: BLE001
        col.violation(
            f"{PROP}|unrank|raised",
            f"get_combination_at_sorted_index({index}, {n}, {k}) raised {short_exc(exc)}",
            {"kind": "unrank", "n": n, "k": k, "index": int(index)},
        )
        return None
    if expected is not None and got == expected:
        _note(col, n, k, got)
        return got
    v = judge(index, n, k, got)
    if v is not None:
        _violate(col, n, k, index, v)
        return None
    if expected is not None and tuple(got) != tuple(expected):
        raise AssertionError(f"harness: judge accepted {got} but reference says {expected} at {(index, n, k)}")
    _note(col, n, k, tuple(got))
    return tuple(got)


# ------------------------------------------------------------------ parts
def run_full(col, n, k):
    total = math.comb(n, k)
    expected = ref_all(n, k)
    assert len(expected) == total
    fn = getattr(G, UNRANK)
    got = []
    bad = 0
    for index in range(total):
        try:
            got.append(fn(index, n, k))
        except Exception:  # noqa: BLE001
            got.append(None)
    col.evaluations += total
    col.states += total
    col.transitions += total
    if got == expected:
        seen2 = set()
        for t in expected:
            key = _key(t, k)
            if key not in seen2:
                seen2.add(key)
                _note(col, n, k, t)
        col.count("full_(n,k)_sequences_equal_to_itertools")
        if total >= 2:
            col.sample({"n": n, "k": k, "indices": total, "first": list(expected[0]), "last": list(expected[-1])})
        return
    # locate and classify every deviating index (capped by the collector)
    col.evaluations -= total
    col.states -= total
    col.transitions -= total
    for index in range(total):
        if got[index] != expected[index]:
            bad += 1
            if bad > 5:
                col.evaluations += 1
                col.states += 1
                col.transitions += 1
                continue
        check_one(col, index, n, k, expected=expected[index])
    # set-level statement: every subset exactly once
    ok = [g for g in got if g is not None]
    if len(set(ok)) != total:
        col.count("full_(n,k)_with_repeated_or_missing_subsets")


def run_stream(col, n, k, lo, hi):
    """indices lo..hi-1 of (n, k)."""
    total = math.comb(n, k)
    fn = getattr(G, UNRANK)
    exp = ref_unrank(lo, n, k)
    assert ref_rank(exp) == lo
    reported = 0
    last_key = None
    for index in range(lo, hi):
        try:
            got = fn(index, n, k)
        except Exception:  # noqa: BLE001
            got = None
        if got != exp:
            if reported < 5:
                reported += 1
                check_one(col, index, n, k, expected=exp)
                col.evaluations -= 1
                col.states -= 1
                col.transitions -= 1
        elif _key(got, k) != last_key:
            last_key = _key(got, k)
            _note(col, n, k, got)
        nxt = ref_successor(exp, n)
        if nxt is None:
            assert index == total - 1, (index, total)
        exp = nxt if nxt is not None else exp
    last = ref_unrank(hi - 1, n, k)
    assert ref_rank(last) == hi - 1
    # the successor walk must have arrived where independent unranking says (harness self-check)
    if hi < total:
        assert exp == ref_unrank(hi, n, k)
    else:
        assert last == tuple(range(n - 1, n - 1 - k, -1))
    cnt = hi - lo
    col.evaluations += cnt
    col.states += cnt
    col.transitions += cnt
    col.sample({"n": n, "k": k, "index_range": [lo, hi], "tuple_at_hi-1": list(last)})


def lattice_indices(n, k=3, window=3, stride_points=LATTICE_STRIDE_POINTS):
    total = math.comb(n, k)
    idx = set()

    def around(c):
        for d in range(-window, window + 1):
            if 0 <= c + d < total:
                idx.add(c + d)

    around(0)
    around(total - 1)
    for m in range(k - 1, n + 1):
        around(math.comb(m, k))
    ms = sorted(set(list(range(2, 14)) + list(range(n - 6, n)) + list(range(2, n, max(1, n // 24)))))
    for m in ms:
        if m < 2 or m >= n:
            continue
        js = sorted(set(list(range(1, 9)) + list(range(m - 5, m)) + list(range(1, m, max(1, m // 24)))))
        for j in js:
            if 1 <= j < m:
                around(math.comb(m, 3) + math.comb(j, 2))
    step = max(1, total // stride_points)
    idx.update(range(0, total, step))
    return sorted(idx)


def run_lattice(col, n, part, parts):
    k = 3
    idx = lattice_indices(n)
    mine = idx[part * len(idx) // parts:(part + 1) * len(idx) // parts]
    prev = None
    for index in mine:
        got = check_one(col, index, n, k, as_numpy=True)
        if got is None:
            continue
        # successor relation between neighbouring lattice points
        if prev is not None and prev[0] == index - 1:
            if not (prev[1] < got) or ref_successor(prev[1], n) != got:
                _violate(col, n, k, index, ("rank-mismatch", f"{got} does not succeed {prev[1]}"))
        prev = (index, got)
    col.count("lattice_indices", len(mine))
    col.cap(f"n={n}, k=3: C(n,3)={math.comb(n, 3)} indices are not enumerated; deterministic lattice of {len(idx)} indices only")
    if mine:
        col.sample({"n": n, "k": k, "lattice_indices_in_item": len(mine), "first": mine[0], "last": mine[-1]})


# ------------------------------------------------------------------ scoring consequence
class ObservationPointGone(Exception):
    pass


def _kernel_inputs(n, coincident=0):
    """coincident=m: the first m posterior samples coincide (all distances among them are exactly 0)."""
    preds = np.zeros((2, n, 2))
    for p in range(2):
        for t in range(n):
            for e in range(2):
                preds[p, t, e] = 0.1 * t + 0.05 * e + 0.3 * p
    var = np.full_like(preds, 0.5)
    dist = np.zeros((n, n))
    for i in range(n):
        for j in range(i):
            dist[i, j] = dist[j, i] = 0.0 if (i < coincident and j < coincident) else 1.0 + i * 0.25 + j * 0.125
    return preds, var, dist


class _RecordingMatrix(np.ndarray):
    """Distance matrix that remembers the fancy-index gathers made on it: the second observation point for the triples,
    where they are CONSUMED (D[i1, i2], D[i2, i3], D[i1, i3]); independent of how the triples were produced."""

    def __array_finalize__(self, obj):
        self.gathers = getattr(obj, "gathers", None)

    def __getitem__(self, key):
        if isinstance(key, tuple) and len(key) == 2 and all(isinstance(k, np.ndarray) and k.ndim == 1 for k in key) and self.gathers is not None:
            self.gathers.append((np.asarray(key[0]).astype(np.int64).copy(), np.asarray(key[1]).astype(np.int64).copy()))
        return np.asarray(super().__getitem__(key))


def _triples_from_gathers(gathers, n):
    """[(None, n, 3, triple)] reconstructed from the three pairwise gathers of one kernel call, or None."""
    g = [x for x in gathers if len(x[0]) == len(gathers[0][0])][:3] if gathers else []
    if len(g) != 3:
        return None
    out = []
    for k in range(len(g[0][0])):
        members = set()
        for a, b in g:
            members.update((int(a[k]), int(b[k])))
        out.append((None, n, 3, tuple(sorted(members, reverse=True))))
    return out


_LAST = {"consumed": None}  # triples reconstructed from the distance-matrix gathers of the last scoring_run (or None)


def scoring_run(n, budget, chooser, rng=None, coincident=0):
    """One execution of the real kernel; returns (records, raised)."""
    preds, var, dist = _kernel_inputs(n, coincident)
    dist = dist.view(_RecordingMatrix)
    dist.gathers = []
    rec = []
    orig = G.get_combination_at_sorted_index

    def wrapper(index, nn, kk):
        out = orig(index, nn, kk)
        rec.append((int(index), int(nn), int(kk), tuple(int(x) for x in out)))
        return out

    G.get_combination_at_sorted_index = wrapper
    try:
        rng = ScriptedGenerator(chooser) if rng is None else rng
        try:
            scores = G.dbal_fast_gauss_scoring_vectorized(
                predictions=preds, variances=var, distance_matrix=dist, rng=rng, max_combos=budget
            )
        except Exception as exc:  # noqa: BLE001
            return rec, exc, None
    finally:
        G.get_combination_at_sorted_index = orig
    alt = _triples_from_gathers(dist.gathers, n)
    _LAST["consumed"] = alt
    if not rec:
        # the kernel no longer goes through the per-index unranker: fall back to the triples it consumed
        if alt is not None:
            rec = alt
    return rec, None, scores


def entry_run(entry, n, budget, chooser, scorer_obj=None):
    """The same observation through the public entry points that own a budget of their own: the scorer
    (max_triples) and the two ragged-array wrappers (max_combos)."""
    from . import c05

    sizes = [2, 1]
    rec = []
    orig = G.get_combination_at_sorted_index

    def wrapper(index, nn, kk):
        out = orig(index, nn, kk)
        rec.append((int(index), int(nn), int(kk), tuple(int(x) for x in out)))
        return out

    m = [[[0.1 * t + 0.05 * e + 0.01 * p for e in range(sz)] for t in range(n)] for p, sz in enumerate(sizes)]
    v = [[[0.5 + 0.01 * t + 0.02 * e for e in range(sz)] for t in range(n)] for p, sz in enumerate(sizes)]
    D = [[0.0 if a == b else 1.0 + 0.1 * abs(a - b) for b in range(n)] for a in range(n)]
    G.get_combination_at_sorted_index = wrapper
    # second observation point (see scoring_run): every kernel call made by the entry point gets a recording distance matrix
    kernel = G.dbal_fast_gauss_scoring_vectorized
    per_call = []

    def kernel_wrapper(*a, **k):
        a = list(a)
        if "distance_matrix" in k:
            dm = np.asarray(k["distance_matrix"], dtype=float).view(_RecordingMatrix)
            k["distance_matrix"] = dm
        else:
            dm = np.asarray(a[2], dtype=float).view(_RecordingMatrix)
            a[2] = dm
        dm.gathers = []
        per_call.append(dm)
        return kernel(*a, **k)

    G.dbal_fast_gauss_scoring_vectorized = kernel_wrapper
    try:
        rng = ScriptedGenerator(chooser)
        try:
            if entry in ("scorer", "scorer-chunked"):
                _screen, plates, keys = c05.screen_for(sizes)
                from batchie.core import ThetaHolder
                holder = ThetaHolder(n_thetas=n)
                for t in range(n):
                    mt, vt = {}, {}
                    for p_ in range(len(sizes)):
                        for e, k in enumerate(keys[p_]):
                            mt[k], vt[k] = m[p_][t][e], v[p_][t][e]
                    holder.add_theta(c05.TableTheta(mt, vt))
                (scorer_obj if scorer_obj is not None else (G.GaussianDBALScorer(max_triples=budget, max_chunk=1) if entry == "scorer-chunked"
                                                            else G.GaussianDBALScorer(max_triples=budget))).score(
                    plates={int(plates[p_].plate_id): plates[p_] for p_ in range(len(sizes))},
                    distance_matrix=c05.make_distance_matrix(D), samples=holder, rng=rng, progress_bar=False)
            elif entry == "hetero":
                G.dbal_fast_gaussian_scoring_heteroscedastic([np.array(x) for x in m], [np.array(x) for x in v], np.array(D), rng, max_combos=budget)
            else:
                G.dbal_fast_gaussian_scoring_homoscedastic([np.array(x) for x in m], np.array([[row[0] for row in pv] for pv in v]), np.array(D), rng,
                                                           max_combos=budget)
        except Exception as exc:  # noqa: BLE001
            return rec, exc, None
    finally:
        G.get_combination_at_sorted_index = orig
        G.dbal_fast_gauss_scoring_vectorized = kernel
    if not rec:
        for dm in per_call:
            alt = _triples_from_gathers(dm.gathers, n)
            if alt is not None:
                rec = rec + alt
    return rec, None, None


def judge_scoring(col, n, budget, choices, rec, exc, entry="kernel"):
    case = {"kind": "scoring", "n": n, "budget": budget, "choices": list(choices), "entry": entry}
    col.evaluations += 1
    col.transitions += 1
    total = math.comb(n, 3)
    if exc is not None:
        from ..explore import NondeterminismError

        if isinstance(exc, NondeterminismError):
            raise exc
        if total == 0:
            col.refused += 1
            col.outcome("refused", n)
            return
        if budget < total:
            # "whenever it returns": nothing is said about a kernel that raises below a covering budget
            col.refused += 1
            col.outcome("refused", n, budget)
            return
        col.violation(
            f"{PROP}|scoring|raised-with-covering-budget",
            f"scoring kernel raised with n_thetas={n}, max_combos={budget} >= C(n,3)={total}, where all triples must be "
            f"used: {short_exc(exc)}",
            case,
        )
        return
    if not rec:
        raise ObservationPointGone("the kernel returned without calling get_combination_at_sorted_index")
    triples = [r[3] for r in rec]
    all_triples = set(ref_all(n, 3)) if budget >= total else None  # only needed for the covering-budget clause
    if any(r[1] != n or r[2] != 3 for r in rec):
        col.violation(f"{PROP}|scoring|wrong-n-or-k", f"unranking called with (n,k)={[(r[1], r[2]) for r in rec][:3]} for {n} thetas", case)
    elif any(len(t) != 3 or len(set(t)) != 3 or min(t) < 0 or max(t) >= n for t in triples):
        col.violation(f"{PROP}|scoring|out-of-range", f"triples {triples} are not 3 distinct samples within 0..{n - 1}", case)
    elif len(set(frozenset(t) for t in triples)) != len(triples):
        col.violation(f"{PROP}|scoring|repeated-triple", f"n_thetas={n}, max_combos={budget}: triples {triples} are not pairwise distinct", case)
    elif budget >= total and set(tuple(sorted(t, reverse=True)) for t in triples) != all_triples:
        col.violation(
            f"{PROP}|scoring|incomplete",
            f"n_thetas={n}, max_combos={budget} covers all {total} triples but only {sorted(set(triples))} were used",
            case,
        )
    if len(triples) >= 2:
        col.nontriv("scoring", n, budget, tuple(choices))
    col.count("scoring_runs")
    col.count("scoring_runs_with_budget_covering_all_triples", 1 if budget >= total else 0)
    col.count("scoring_triples_recorded", len(triples))
    col.outcome("triples", tuple(triples))


def fixed_answers(total, budget):
    """Chooser prefixes for identity / reversed / two rotations of rng.choice(total, size=min(total,budget))."""
    size = min(total, budget)
    out = []

    def prefix_for(order):
        remaining = list(range(total))
        pre = []
        for v in order[:size]:
            if len(remaining) > 1:
                pre.append(remaining.index(v))
            remaining.remove(v)
        return pre

    ident = list(range(total))
    for order in (ident, ident[::-1], ident[total // 3:] + ident[: total // 3], ident[2 * total // 3 + 1:] + ident[: 2 * total // 3 + 1]):
        p = prefix_for(order)
        if p not in out:
            out.append(p)
    return out


FULL_TREE_BUDGETS = {
    "quick": {3: 2, 4: 5, 5: 5, 6: 3},
    "thorough": {3: 2, 4: 5, 5: 6, 6: 4},
}
SPLIT_ABOVE_LEAVES = 8000


class _FirstFixed:
    """Chooser front that answers the first choice point with a fixed value (used to split one
    big answer tree into one work item per first answer); everything else goes to `ch`."""

    def __init__(self, ch, first):
        self._ch = ch
        self._first = first
        self._used = False

    def choose(self, n, label=None):
        if not self._used:
            self._used = True
            if self._first >= n:
                raise AssertionError(f"harness: first answer {self._first} out of arity {n}")
            return self._first
        return self._ch.choose(n, label)

    @property
    def trace(self):
        return [(self._first, None)] + list(self._ch.trace)


def run_scoring(col, n, budget, full, first=None, full_up_to=None):
    total = math.comb(n, 3)
    if full:
        def body(c):
            return scoring_run(n, budget, c if first is None else _FirstFixed(c, first))

        for ch, (rec, exc, _s) in explore(body):
            col.states += 1
            choices = ch.choices if first is None else [first] + ch.choices
            judge_scoring(col, n, budget, choices, rec, exc)
        col.sample({"scoring": {"n_thetas": n, "max_combos": budget, "answer_tree": "full", "first_answer": first}})
    else:
        for pre in fixed_answers(total, budget):
            ch = Chooser(pre)
            rec, exc, _s = scoring_run(n, budget, ch)
            col.states += 1
            judge_scoring(col, n, budget, ch.choices, rec, exc)
        col.cap(
            f"scoring n_thetas={n}: for max_combos > {full_up_to} the ordered-sample tree of rng.choice is not "
            f"enumerated (identity, reversed and two rotated answers only)"
        )


# ------------------------------------------------------------------ contract
def _cost(n, k):
    return math.comb(n, k) * (3 + n)


def plan(tier, seed):
    items = []
    top = QUICK_FULL_N if tier == "quick" else THOROUGH_FULL_N
    # group the small (n, k) so that every item carries a comparable amount of work
    target = 2.5e6 if tier == "quick" else 8e6
    for k in range(0, 5):
        group, acc = [], 0
        for n in range(0, top + 1):
            group.append(n)
            acc += _cost(n, k)
            if acc >= target:
                items.append({"kind": "full", "k": k, "ns": group})
                group, acc = [], 0
        if group:
            items.append({"kind": "full", "k": k, "ns": group})
    streams = STREAM_QUICK if tier == "quick" else STREAM_THOROUGH
    for n, k in streams:
        total = math.comb(n, k)
        width = max(20000, int(STREAM_RANGE * 75 / max(n, 75)))
        for lo in range(0, total, width):
            items.append({"kind": "stream", "n": n, "k": k, "lo": lo, "hi": min(total, lo + width)})
    for n in (LATTICE_N if tier == "thorough" else LATTICE_N[:1]):
        if True:
            parts = max(1, n // 250)
            for p in range(parts):
                items.append({"kind": "lattice", "n": n, "part": p, "parts": parts})
    items.append({"kind": "cross-k", "ns": list(range(0, 13))})
    items.append({"kind": "scorer-history", "histories": [[5000, [4, 6]], [5000, [6, 4, 7]], [20, [4, 6, 5]], [10, [5, 4, 5]], [5000, [3, 12]]]})
    for c in range(0, len(CONSUMED), 3):
        items.append({"kind": "consumed", "cases": CONSUMED[c:c + 3]})
    for entry in ("scorer", "scorer-chunked", "hetero", "homo"):  # scorer-chunked: max_chunk=1, one kernel call per plate
        for n, budgets in ((4, (1, 3, 4, 5)), (5, (7, 10, 11)), (34, (5984, 6000, 5990 if tier == "thorough" else 6100))):
            items.append({"kind": "entry-budget", "entry": entry, "n": n, "budgets": list(budgets)})
    # the same with the package logger at DEBUG
    for inner in ([{"kind": "entry-budget", "entry": e, "n": 5, "budgets": [7, 10, 11]} for e in ("scorer", "hetero", "homo")]
                  + [{"kind": "scoring", "n": 4, "budget": b, "full": True, "first": None, "full_up_to": 4} for b in (2, 4, 5)]
                  + [{"kind": "scoring", "n": 10, "budget": b, "full": False, "first": None, "full_up_to": 0} for b in (119, 120, 5000)]
                  + [{"kind": "consumed", "cases": CONSUMED[:2]}]):
        items.append({"kind": "debug", "inner": inner})
    ft = FULL_TREE_BUDGETS[tier]
    for n in (2, 3, 4, 5, 6):
        total = math.comb(n, 3)
        for budget in range(1, max(total, 1) + 2):
            full = bool(n in ft and budget <= ft[n] or total <= 1)
            leaves = math.perm(total, min(total, budget)) if total else 1
            if full and leaves > SPLIT_ABOVE_LEAVES:
                for first in range(total):
                    items.append({"kind": "scoring", "n": n, "budget": budget, "full": True, "first": first,
                                  "full_up_to": ft.get(n)})
            else:
                items.append({"kind": "scoring", "n": n, "budget": budget, "full": full, "first": None,
                              "full_up_to": ft.get(n)})
    return items


def ref_score_over(triples, preds_p, var_p, dist):
    """Scalar Monte-Carlo sum over exactly the given triples for one plate (preds_p, var_p: n x E)."""
    terms = []
    for a, b, c in triples:
        d = dist[a][b] + dist[b][c] + dist[a][c]
        t = math.log(d) if d > 0 else -math.inf
        for e in range(len(preds_p[0])):
            va, vb, vc = var_p[a][e], var_p[b][e], var_p[c][e]
            ma, mb, mc = preds_p[a][e], preds_p[b][e], preds_p[c][e]
            al = va * vb + vb * vc + va * vc
            t += -0.5 * math.log(al) - 0.5 * va * vb * vc / (al * al) * (vc * (ma - mb) ** 2 + vb * (ma - mc) ** 2 + va * (mb - mc) ** 2)
        terms.append(t)
    mx = max(terms)
    return mx + math.log(sum(math.exp(t - mx) for t in terms))


class SpreadAnswers:
    """Scripted answer for the one draw of the kernel when the population is far too large for the choice tree: `size`
    distinct indices spread evenly over the whole population, the last index included (so the largest theta indices are
    used), in descending order."""

    def __init__(self):
        self.draws = []

    def choice(self, a, size=None, replace=True, p=None, axis=0, shuffle=True):
        total = int(a)
        k = int(size)
        if k > total:
            raise ValueError("Cannot take a larger sample than population when replace is False")
        idx = sorted({(total - 1) - (j * (total - 1)) // max(k - 1, 1) for j in range(k)}, reverse=True)
        j = 0
        while len(idx) < k:  # collisions only when k is close to total
            if j not in idx:
                idx.append(j)
            j += 1
        self.draws.append(list(idx))
        return np.array(idx, dtype=np.int64)


def run_consumed(col, n, budget, coincident=0):
    """The triples are also observed where they are CONSUMED: the returned score must equal the Monte-Carlo sum over
    exactly the triples that were unranked, each once (a triple evaluated twice, or dropped, after unranking changes it)."""
    ch = Chooser()
    big = math.comb(n, 3) > 100000
    rec, exc, scores = scoring_run(n, budget, ch, rng=SpreadAnswers() if big else None, coincident=coincident)
    col.states += 1
    judge_scoring(col, n, budget, ch.choices[:8], rec, exc)
    if big and rec and exc is None and max(max(r[3]) for r in rec) < n - 1:
        raise ObservationPointGone("the spread answer did not reach the largest theta index")
    if exc is not None or scores is None or not rec:
        return
    preds, var, dist = _kernel_inputs(n, coincident)
    triples = [r[3] for r in rec]
    case = {"kind": "consumed", "n": n, "budget": budget, "coincident": coincident}
    # the triples looked up in the distance matrix are the triples that were unranked, each once - nothing else is weighed, not
    # even with weight zero (rows of a work buffer that were never filled show up here as "triples" like (0, 0, 0))
    consumed = _LAST["consumed"]
    if consumed is not None:
        from collections import Counter
        got_c, want_c = Counter(r[3] for r in consumed), Counter(tuple(sorted(t, reverse=True)) for t in triples)
        if got_c != want_c:
            extra = sorted((got_c - want_c).items())[:4]
            lost = sorted((want_c - got_c).items())[:4]
            col.violation(f"{PROP}|scoring|consumed-triples-differ",
                          f"n_thetas={n}, max_combos={budget}: {sum(want_c.values())} triples were unranked, {sum(got_c.values())} index triples were looked up in the "
                          f"distance matrix; looked up but never unranked: {extra}; unranked but never looked up: {lost}", case)
    for p in range(preds.shape[0]):
        want = ref_score_over(triples, preds[p].tolist(), var[p].tolist(), dist.tolist())
        got = float(np.asarray(scores)[p])
        col.outcome("consumed", n, budget, round(got, 6))
        if not abs(got - want) <= 1e-8 * (1 + abs(want)):
            col.violation(f"{PROP}|scoring|consumed-differently",
                          f"n_thetas={n}, max_combos={budget}: {len(triples)} distinct triples were unranked, but the score of plate {p} is {got!r} "
                          f"while the sum over exactly these triples (each once) gives {want!r} (diff {got - want:.3e}; log 2 = 0.693 would be every triple twice)", case)
    col.nontriv("consumed", n, budget)


# ... and many posterior samples with a small budget (theta indices beyond 255 / 65535 must survive whatever compact
# representation the kernel uses for them)
CONSUMED = [(5, 10), (12, 5000), (19, 5000), (20, 5000), (25, 5000), (33, 2500), (33, 1500), (34, 6000), (40, 5000),
            (300, 200), (300, 255), (700, 100),
            # three / four coincident posterior samples: triples whose summed distance is exactly 0 (weight 0, still used once)
            (4, 10, 3), (5, 10, 3), (6, 20, 4), (6, 5000, 3), (8, 56, 4), (12, 100, 3)]


def run_item(item, col, tier):
    kind = item["kind"]
    if kind == "debug":
        # environment dimension: the same sub-item with the package logger at DEBUG (what --verbose sets up)
        from ..logctx import package_logger_at_debug

        before = len(col.violations)
        with package_logger_at_debug():
            run_item(item["inner"], col, tier)
        for v in col.violations[before:]:
            v["sig"] += "|debug-logging"
            v["what"] = "with the batchie logger at DEBUG: " + v["what"]
            v["case"] = {"kind": "debug", "inner": v["case"]}
        return
    if kind == "consumed":
        for c in item["cases"]:
            run_consumed(col, c[0], c[1], coincident=c[2] if len(c) > 2 else 0)
        return
    if kind == "cross-k":
        # the same n with every k, up and down, inside ONE process: state kept between calls (a cache keyed by n
        # alone was seeded once) must not leak from one k to another; independent of how the pool schedules items
        for n in item["ns"]:
            for k in (0, 1, 2, 3, 4, 3, 2, 1, 0, 4, 1, 3):
                run_full(col, n, k)
        return
    if kind == "scorer-history":
        # ONE scorer object (one budget) asked about collections of different sizes, one after the other: every call obeys
        # the budget clause for ITS number of posterior samples
        for budget, ns in item["histories"]:
            scorer = G.GaussianDBALScorer(max_triples=budget)
            for pos, n in enumerate(ns):
                ch = Chooser()
                rec, exc, _ = entry_run("scorer", n, budget, ch, scorer_obj=scorer)
                col.states += 1
                per_call = min(math.comb(n, 3), budget)
                calls = [rec[i:i + per_call] for i in range(0, len(rec), per_call)] if rec and per_call and len(rec) % per_call == 0 else [rec]
                for call in calls:
                    before = len(col.violations)
                    judge_scoring(col, n, budget, ch.choices[:8], call, exc, entry="scorer")
                    for v in col.violations[before:]:
                        v["sig"] += "|reused-scorer"
                        v["what"] = f"one scorer object, collections of sizes {ns[:pos + 1]} in turn: " + v["what"]
                        v["case"] = {"kind": "scorer-history", "histories": [[budget, ns[:pos + 1]]]}
                col.nontriv("scorer-history", budget, tuple(ns[:pos + 1]))
        return
    if kind == "entry-budget":
        for budget in item["budgets"]:
            ch = Chooser()
            rec, exc, _ = entry_run(item["entry"], item["n"], budget, ch)
            col.states += 1
            # one kernel call per scorer sub-group: judge the calls separately (each must obey the budget clause)
            total = math.comb(item["n"], 3)
            per_call = min(total, budget)
            calls = [rec[i:i + per_call] for i in range(0, len(rec), per_call)] if rec and len(rec) % per_call == 0 else [rec]
            for call in calls:
                judge_scoring(col, item["n"], budget, ch.choices[:8], call, exc, entry=item["entry"])
        return
    if kind == "full":
        for n in item["ns"]:
            run_full(col, n, item["k"])
    elif kind == "stream":
        run_stream(col, item["n"], item["k"], item["lo"], item["hi"])
    elif kind == "lattice":
        run_lattice(col, item["n"], item["part"], item["parts"])
    elif kind == "scoring":
        run_scoring(col, item["n"], item["budget"], item["full"], item.get("first"), item.get("full_up_to"))
    else:
        raise ValueError(kind)


def replay(case, col):
    if case["kind"] == "debug":
        from ..logctx import package_logger_at_debug

        with package_logger_at_debug():
            return replay(case["inner"], col)
    if case["kind"] == "unrank":
        n, k, index = case["n"], case["k"], case["index"]
        check_one(col, index, n, k, expected=ref_unrank(index, n, k))
    elif case["kind"] == "scoring":
        ch = Chooser(case["choices"])
        if case.get("entry", "kernel") != "kernel":
            rec, exc, _s = entry_run(case["entry"], case["n"], case["budget"], Chooser())
            judge_scoring(col, case["n"], case["budget"], [], rec, exc, entry=case["entry"])
            return
        rec, exc, _s = scoring_run(case["n"], case["budget"], ch)
        judge_scoring(col, case["n"], case["budget"], ch.choices, rec, exc)
    elif case["kind"] == "scorer-history":
        run_item({"kind": "scorer-history", "histories": case["histories"]}, col, "quick")
    elif case["kind"] == "consumed":
        run_consumed(col, case["n"], case["budget"], coincident=case.get("coincident", 0))
    else:
        raise ValueError(case)
