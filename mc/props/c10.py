"""C10  Posterior-sample collections persist exactly and keep chain-major order.

Bounded-exhaustive input enumeration (E1): every collection of a finite family is pushed
through the real ThetaHolder.save_h5 / load_h5 / concat / combine / add_theta / get_theta and
through batchie.cli.evaluate_model.main() (in-process), and compared bytewise with what went in."""
import itertools
import logging
import math
import os
import shutil
import struct
import sys

import numpy as np

from .. import env

env.setup()

from ..core import short_exc  # noqa: E402
from ..screens import make_screen  # noqa: E402

from batchie.core import ThetaHolder  # noqa: E402
from batchie.cli import evaluate_model  # noqa: E402
from batchie.models.main import ModelEvaluation  # noqa: E402
from batchie.models.sparse_combo import SparseDrugComboMCMCSample  # noqa: E402
from batchie.models.sparse_combo_interaction import SparseDrugComboInteractionMCMCSample  # noqa: E402

PROP = "C10"
LEVEL = "model_checking"
ENGINE = "E1-input-enumeration"
TECHNIQUE = "bounded-exhaustive enumeration of sample collections through the real h5 round trip, concat and the evaluate_model CLI; bytewise comparison"
LEVEL_TEXT = (
    "every collection / chain layout / command-line order of the stated finite families is executed on the "
    "implementation and compared bit-for-bit with its input; nothing is sampled; other values and larger "
    "collections are not covered"
)
RULE = (
    "collections of 1..N posterior samples of both shipped types (graded-distinct parameters that differ between "
    "samples, so a re-ordering is visible), complete and incomplete holders; every special float64 "
    "{0, -0, 5e-324, 1+2^-52, 0.1, 1e308, -inf, quiet/negative/payload/signalling NaN} in every parameter position "
    "(arrays, scalar attributes, single-effect table values); interaction samples with full, special-valued and EMPTY "
    "single-effect tables; in-memory concat/combine of every tuple of <= 3 chain lengths; evaluate_model.main() on "
    "every multiset of <= 3 chain lengths (plus layouts with >= 10 samples per chain) x every order of the chain "
    "files on the command line; growth / access / empty-save refusals for every (declared, held) size. A case is "
    "non-trivial when it has >= 10 samples (string vs numeric group order differ), or a value that float32 / text / "
    "'==' would not preserve, or an empty table, or >= 2 chains in a non-identity command-line order"
)
BOUNDS = {
    "quick": {"max_samples_per_collection": 12, "shapes_samples_treatments_D": [[1, 1, 1], [2, 3, 2]],
              "special_values": 11, "chains": 3, "chain_lengths": "1..3 (+ [11,2], [10,1,12])", "declared_sizes": "0..3"},
    "thorough": {"max_samples_per_collection": 25, "shapes_samples_treatments_D": [[1, 1, 1], [2, 3, 2], [3, 4, 3]],
                 "special_values": 11, "chains": 3, "chain_lengths": "1..4 (+ [11,2], [10,1,12], [12,11,10])",
                 "declared_sizes": "0..4"},
}
ASSUMPTIONS = [
    "parameter arrays are float64 (the statement speaks of float64 values); values come from a graded filling plus the special-value menu",
    "all samples of one collection share one single-effect table (batchie's sampler aliases a single dict and save_h5 "
    "stores the table of the first sample only); the table's keys are compared as integers, its values bytewise",
    "a loaded array of another dtype is compared by value (cast to float64), so only a changed value alarms",
    "the declared size (n_thetas) of a reloaded collection is a don't-care; number = number of samples held",
    "chain files handed to evaluate_model are written by ThetaHolder.save_h5 itself, the screen by Screen.save_h5; "
    "prediction columns are matched with 1e-12 (exact persistence is judged by the round-trip cases)",
    "exception types/messages of the refusals are don't-cares",
    "'predict identically' is judged on finite and non-finite parameters alike with NaN == NaN; if the original sample "
    "itself cannot predict (empty table), only the calls that work on the original are compared",
]

SDC, INT = "sdc", "int"


def _bits(h):
    return struct.unpack("<d", bytes.fromhex(h)[::-1])[0]


SPECIALS = {
    "zero": 0.0,
    "negzero": -0.0,
    "denormal": 5e-324,
    "onepluseps": 1.0 + 2.0 ** -52,
    "tenth": 0.1,
    "huge": 1e308,
    "neginf": float("-inf"),
    "nan": float("nan"),
    "negnan": _bits("fff8000000000000"),
    "payloadnan": _bits("7ff80000deadbeef"),
    "signalnan": _bits("7ff0000000000001"),
}
SPECIAL_NAMES = list(SPECIALS)


def fbytes(x):
    return np.asarray(x, dtype=np.float64).tobytes()


# ---------------------------------------------------------------- building samples from specs
def layout(typ, ns, nt, D):
    if typ == SDC:
        return [("W", (ns, D)), ("W0", (ns,)), ("V2", (nt, D)), ("V1", (nt, D)), ("V0", (nt,)),
                ("alpha", ()), ("precision", ())]
    return [("W", (ns, D)), ("V2", (nt, D)), ("precision", ())]


def n_positions(typ, shape):
    return sum(int(np.prod(s)) for _, s in layout(typ, *shape))


def table_keys(ns, nt):
    return [(s, t) for s in range(ns) for t in [-1] + list(range(nt))]


def _g(k):
    return ((k * 37 + 11) % 101) / 101.0


def build_table(spec_table, ns, nt):
    """spec_table: "empty" | "full" | ["rot", r] (entry i carries special (i+r) mod n)."""
    if spec_table == "empty":
        return {}
    keys = table_keys(ns, nt)
    if isinstance(spec_table, list) and spec_table[0] == "order":
        # same content as "full", inserted in another order (a dict built by user code, not by batchie's nested loops)
        vals = {k: (1.0 if k[1] == -1 else 0.05 + 0.9 * _g(i)) for i, k in enumerate(keys)}
        n = len(keys)
        order = list(reversed(keys)) if spec_table[1] == "reversed" else [keys[(i * 7 + 3) % n] for i in range(n)] if math.gcd(7, n) == 1 else keys[1::2] + keys[0::2]
        return {k: vals[k] for k in order}
    out = {}
    for i, (s, t) in enumerate(keys):
        if spec_table == "full":
            out[(s, t)] = 1.0 if t == -1 else 0.05 + 0.9 * _g(i)
        else:
            out[(s, t)] = SPECIALS[SPECIAL_NAMES[(i + spec_table[1]) % len(SPECIAL_NAMES)]]
    return out


def build_theta(ts, table=None):
    """ts: {"typ", "shape":[ns,nt,D], "tag":int, "scale":float, "shift":float,
            "special": None | [position, name] | ["all", name]}"""
    typ = ts["typ"]
    ns, nt, D = ts["shape"]
    vals = {}
    k = 0
    sp = ts.get("special")
    for name, shape in layout(typ, ns, nt, D):
        a = np.zeros(shape, dtype=np.float64)
        flat = a.reshape(-1)
        for j in range(flat.size):
            v = ts["scale"] * 2.0 * (_g(k) - 0.47) + ts["tag"] * ts["shift"]
            if name == "precision":
                v = 1.0 + 0.25 * ts["tag"] + _g(k)
            if sp is not None and (sp[0] == "all" or sp[0] == k):
                v = SPECIALS[sp[1]]
            flat[j] = v
            k += 1
        vals[name] = a
    if typ == SDC:
        return SparseDrugComboMCMCSample(
            W=vals["W"], W0=vals["W0"], V2=vals["V2"], V1=vals["V1"], V0=vals["V0"],
            alpha=float(vals["alpha"]), precision=float(vals["precision"]))
    return SparseDrugComboInteractionMCMCSample(
        W=vals["W"], V2=vals["V2"], precision=float(vals["precision"]),
        single_effect_lookup=table if table is not None else {})


ARRAYS = {SDC: ("W", "W0", "V2", "V1", "V0"), INT: ("W", "V2")}
SCALARS = {SDC: ("alpha", "precision"), INT: ("precision",)}
CLASSES = {SDC: SparseDrugComboMCMCSample, INT: SparseDrugComboInteractionMCMCSample}


def snap_theta(typ, th):
    """{param: (shape, float64 bytes)} ; raises TypeError for a parameter that is not numeric."""
    out = {}
    for n in ARRAYS[typ]:
        a = np.asarray(getattr(th, n))
        if a.dtype.kind not in "fiu":
            raise TypeError(f"parameter {n} came back with dtype {a.dtype}")
        out[n] = (tuple(a.shape), np.ascontiguousarray(a, dtype=np.float64).tobytes())
    for n in SCALARS[typ]:
        x = getattr(th, n)
        if isinstance(x, (str, bytes)) or np.ndim(x) != 0:
            raise TypeError(f"scalar parameter {n} came back as {type(x).__name__} {x!r}")
        out[n] = ((), fbytes(x))
    if typ == INT:
        tab = {}
        for key, v in th.single_effect_lookup.items():
            a, b = key
            if int(a) != a or int(b) != b:
                raise TypeError(f"table key {key!r} is not integral")
            tab[(int(a), int(b))] = fbytes(v)
        out["single_effect_lookup"] = ((len(tab),), repr(sorted(tab.items())).encode())
    return out


def eval_screen(ns, nt, arity=2):
    T = [-1] + list(range(nt))
    rows = []
    i = 0
    cells = lambda t: ("", 0.0) if t == -1 else (f"t{t}", 1.0)  # noqa: E731
    for s in range(ns):
        for combo in itertools.product(T, repeat=arity):
            rows.append((f"s{s}", "p0", [cells(t) for t in combo], round(0.07 + 0.011 * i, 6), True))
            i += 1
    return make_screen(rows, control="", arity=arity)


def try_predict(th, screen):
    out = []
    for name in ("predict_conditional_mean", "predict_viability", "predict_conditional_variance"):
        try:
            out.append(("ok", np.asarray(getattr(th, name)(screen), dtype=float)))
        except Exception as exc:  # noqa: BLE001
            out.append(("raised", short_exc(exc)))
    return out


# ---------------------------------------------------------------- collection specs
def theta_spec(typ, shape, tag, special=None, scale=1.0, shift=0.0625):
    return {"typ": typ, "shape": list(shape), "tag": tag, "scale": scale, "shift": shift, "special": special}


def coll_spec(typ, shape, n, declared=None, table="full", specials=None, what=""):
    thetas = []
    for i in range(n):
        sp = specials[i] if specials else None
        thetas.append(theta_spec(typ, shape, i, sp))
    return {"typ": typ, "shape": list(shape), "thetas": thetas, "declared": n if declared is None else declared,
            "table": table, "what": what}


def build_collection(cs):
    ns, nt, _ = cs["shape"]
    table = build_table(cs["table"], ns, nt) if cs["typ"] == INT else None
    holder = ThetaHolder(n_thetas=cs["declared"])
    for ts in cs["thetas"]:
        holder.add_theta(build_theta(ts, table))
    return holder


def roundtrip_specs(tier):
    quick = tier == "quick"
    shapes = [(1, 1, 1), (2, 3, 2)] + ([] if quick else [(3, 4, 3)])
    nmax = 12 if quick else 25
    out = []
    for typ in (SDC, INT):
        for shape in shapes:
            for n in range(1, nmax + 1):
                out.append(coll_spec(typ, shape, n, what="sizes"))
            if shape == shapes[0]:
                for n in (99, 100, 101, 128):  # three-digit group keys, counts around typical chunk sizes
                    out.append(coll_spec(typ, shape, n, what="sizes-large"))
            for n, d in ((1, 3), (2, 3), (10, 12), (11, 13)):
                out.append(coll_spec(typ, shape, n, declared=d, what="incomplete"))
        # every special value in every position
        for shape in shapes:
            for pos in range(n_positions(typ, shape)):
                sp = [[pos, name] for name in SPECIAL_NAMES]
                out.append(coll_spec(typ, shape, len(sp), specials=sp, what="special-at-position"))
            sp = [["all", name] for name in SPECIAL_NAMES]
            out.append(coll_spec(typ, shape, len(sp), specials=sp, what="special-everywhere"))
    # single-effect tables
    for shape in shapes:
        for n in (1, 2, 11):
            out.append(coll_spec(INT, shape, n, table="empty", what="empty-table"))
    for r in range(len(SPECIAL_NAMES)):
        out.append(coll_spec(INT, (2, 3, 2), 2, table=["rot", r], what="special-table"))
    for shape in shapes:
        for how in ("reversed", "scrambled"):
            out.append(coll_spec(INT, shape, 2, table=["order", how], what="table-insertion-order"))
    return out


def concat_specs(tier):
    top = 3 if tier == "quick" else 4
    out = []
    for typ in (SDC, INT):
        for k in (1, 2, 3):
            for lengths in itertools.product(range(1, top + 1), repeat=k):
                out.append({"typ": typ, "lengths": list(lengths), "slack": 0})
        out.append({"typ": typ, "lengths": [2, 1, 3], "slack": 1})  # incomplete holders
        out.append({"typ": typ, "lengths": [11, 2, 10], "slack": 0})
    return out


def evaluate_specs(tier):
    top = 3 if tier == "quick" else 4
    out = []
    # (the evaluation screen has 2 x 16 = 32 experiments: [13, 13, 6] and [10, 11, 11] make the prediction matrix square)
    big = [[11, 2], [10, 1, 12], [13, 13, 6], [10, 11, 11]] + ([] if tier == "quick" else [[12, 11, 10]])
    for typ in (SDC, INT):
        layouts = []
        for k in (1, 2, 3):
            layouts += [list(c) for c in itertools.combinations_with_replacement(range(1, top + 1), k)]
        layouts += big
        for lengths in layouts:
            for perm in itertools.permutations(range(len(lengths))):
                out.append({"typ": typ, "shape": [2, 3, 2], "lengths": lengths, "perm": list(perm)})
    return out


def refusal_specs(tier):
    top = 3 if tier == "quick" else 4
    return [{"typ": typ, "declared": d, "held": h} for typ in (SDC, INT) for d in range(top + 1) for h in range(d + 1)]


# ---------------------------------------------------------------- checks
class Bad:
    def __init__(self, col, kind, spec, tag):
        self.col, self.kind, self.spec, self.tag = col, kind, spec, tag

    def __call__(self, sig, msg):
        self.col.violation(f"C10|{self.kind}|{sig}", f"{self.tag}: {msg}", {"check": self.kind, "spec": self.spec})


def check_roundtrip(cs, col, scratch, verbose=False):
    typ = cs["typ"]
    n = len(cs["thetas"])
    tag = f"{typ} shape {cs['shape']} {cs['what']} n={n} declared={cs['declared']} table={cs['table']}"
    bad = Bad(col, "roundtrip", cs, tag)
    holder = build_collection(cs)
    want = [snap_theta(typ, t) for t in holder.thetas]
    path = os.path.join(scratch, "thetas.h5")
    if os.path.exists(path):
        os.remove(path)
    col.states += 1
    col.evaluations += 2
    col.transitions += 2
    try:
        holder.save_h5(path)
    except Exception as exc:  # noqa: BLE001
        bad(f"raised|save|{typ}|{'empty-table' if cs['table'] == 'empty' else 'table'}",
            f"save_h5 raised {short_exc(exc)}")
        return
    try:
        loaded = ThetaHolder.load_h5(path)
    except Exception as exc:  # noqa: BLE001
        bad(f"raised|load|{typ}|{'empty-table' if cs['table'] == 'empty' else 'table'}",
            f"load_h5 raised {short_exc(exc)} on a file written by save_h5")
        return
    got_thetas = list(loaded.thetas)
    if verbose:
        print(f"saved {n} samples, loaded {len(got_thetas)}")
    if len(got_thetas) != n:
        bad("count", f"{n} samples saved, {len(got_thetas)} loaded")
        return
    try:
        got = [snap_theta(typ, t) for t in got_thetas]
    except TypeError as exc:
        bad(f"value|{typ}|type", str(exc))
        return
    for t in got_thetas:
        if not isinstance(t, CLASSES[typ]):
            bad("class", f"loaded sample is a {type(t).__name__}")
            return
    if got != want:
        key = lambda s: repr(sorted(s.items()))  # noqa: E731
        if sorted(map(key, got)) == sorted(map(key, want)):
            order = [next(j for j, w in enumerate(want) if w == g) for g in got]
            bad("order", f"samples came back in the order {order}")
        else:
            for i, (g, w) in enumerate(zip(got, want)):
                for name in w:
                    if g.get(name) != w[name]:
                        if verbose:
                            print(f"sample {i} {name}: saved {w[name]}, loaded {g.get(name)}")
                        bad(f"value|{typ}|{name}",
                            f"sample {i}: parameter {name} is not bit-for-bit what was saved "
                            f"(saved shape {w[name][0]} bytes {w[name][1][:24].hex()}..., "
                            f"loaded shape {g.get(name, ('?',))[0]} bytes {g.get(name, ((), b''))[1][:24].hex()}...)")
                        break
    # reloaded samples predict identically
    ns, nt, _ = cs["shape"]
    screens = [eval_screen(ns, nt, 2)] + ([eval_screen(ns, nt, 1)] if typ == SDC else [])
    for sc in screens:
        for i, (a, b) in enumerate(zip(holder.thetas, got_thetas)):
            pa, pb = try_predict(a, sc), try_predict(b, sc)
            col.evaluations += 6
            col.transitions += 6
            for name, x, y in zip(("mean", "viability", "variance"), pa, pb):
                if x[0] != "ok":
                    continue
                if y[0] != "ok":
                    bad(f"predict|{typ}|{name}", f"sample {i}: the reloaded sample cannot predict ({y[1]}), the original can")
                elif not (x[1].shape == y[1].shape and np.array_equal(x[1], y[1], equal_nan=True)):
                    bad(f"predict|{typ}|{name}", f"sample {i}: the reloaded sample predicts {y[1].tolist()}, the original {x[1].tolist()}")
    # a complete reloaded collection still refuses to grow
    if len(loaded.thetas) >= loaded.n_thetas:
        try:
            loaded.add_theta(build_theta(cs["thetas"][0], {} if typ == INT else None))
        except Exception:  # noqa: BLE001
            col.refused += 1
        else:
            bad("refusal|add_theta-after-load", f"a reloaded collection of declared size {loaded.n_thetas} accepted sample number {len(loaded.thetas)}")
    special = cs["what"].startswith("special") or cs["table"] != "full"
    if n >= 10 or special:
        col.nontriv("roundtrip", typ, cs["shape"], cs["what"], n, cs["declared"], cs["table"],
                    [t["special"] for t in cs["thetas"]])
    col.outcome("roundtrip", typ, n, [sorted((k, v[0], v[1]) for k, v in g.items()) for g in got])


def chain_holders(typ, shape, lengths, slack=0, scale=0.3, shift=1.0 / 256):
    ns, nt, _ = shape
    table = build_table("full", ns, nt) if typ == INT else None
    holders = []
    for c, n in enumerate(lengths):
        h = ThetaHolder(n_thetas=n + slack)
        for step in range(n):
            h.add_theta(build_theta(theta_spec(typ, shape, 13 * c + step, None, scale, shift), table))
        holders.append(h)
    return holders


def check_concat(sp, col):
    typ, lengths, slack = sp["typ"], sp["lengths"], sp["slack"]
    bad = Bad(col, "concat", sp, f"{typ} chains of lengths {lengths} (declared +{slack})")
    holders = chain_holders(typ, (1, 1, 1), lengths, slack)
    before = [list(h.thetas) for h in holders]
    want = [t for h in before for t in h]
    col.states += 1
    for how in ("concat", "combine"):
        col.evaluations += 1
        col.transitions += 1
        if how == "concat":
            res = ThetaHolder.concat(list(holders))
        else:
            res = holders[0]
            for h in holders[1:]:
                res = res.combine(h)
        got = list(res.thetas)
        if len(got) != len(want) or any(a is not b for a, b in zip(got, want)):
            idx = [next((j for j, w in enumerate(want) if w is g), None) for g in got]
            bad(f"{how}|order", f"{how} gave samples {idx} (positions in chain-major order), expected 0..{len(want) - 1}")
        if [list(h.thetas) for h in holders] != before and len(holders) > 1:
            bad(f"{how}|inputs", f"{how} changed its input collections")
        # the result is itself a collection: it must not hold more than it declares (what it declares is a don't-care)
        if len(res.thetas) > res.n_thetas:
            bad(f"{how}|size", f"the result declares {res.n_thetas} samples but holds {len(res.thetas)}")
        col.outcome("concat", how, typ, lengths, slack, [id(g) == id(w) for g, w in zip(got, want)])
        # ... and, being a collection, it refuses to grow beyond what it declares: fill it up to its own declared size
        # (at most the inputs' total slack, whatever it declares), then one sample more must be refused
        if not any(res is h for h in holders) and len(res.thetas) <= res.n_thetas <= len(want) + 64:
            declared = res.n_thetas
            for _ in range(declared - len(res.thetas)):
                res.add_theta(want[0])
            col.evaluations += 1
            col.transitions += 1
            try:
                res.add_theta(want[-1])
            except Exception:  # noqa: BLE001
                col.refused += 1
                col.outcome("concat", how, "add_theta(full result)", "raised")
                if len(res.thetas) != declared:
                    bad(f"{how}|result-grew", f"after the refused add the result holds {len(res.thetas)} samples, it declares {declared}")
            else:
                col.outcome("concat", how, "add_theta(full result)", "returned")
                bad(f"{how}|result-grew", f"the result of {how} declares {declared} samples, holds {declared} and accepted one more")
            if [list(h.thetas) for h in holders] != before:
                bad(f"{how}|inputs", f"adding to the result of {how} changed its input collections")
    if len(lengths) >= 2:
        col.nontriv("concat", typ, lengths, slack)


def run_evaluate_cli(screen_path, files, out):
    argv = ["evaluate_model", "--screen", screen_path, "--thetas", *files, "--output", out]
    old = sys.argv
    sys.argv = argv
    try:
        evaluate_model.main()
    finally:
        sys.argv = old
        logging.getLogger("batchie").handlers.clear()


def check_evaluate(sp, col, scratch, cache=None, verbose=False):
    typ, shape, lengths, perm = sp["typ"], sp["shape"], sp["lengths"], sp["perm"]
    bad = Bad(col, "evaluate", sp, f"{typ} chain files of lengths {lengths} given in the order {perm}")
    ns, nt, _ = shape
    key = (typ, tuple(shape), tuple(lengths))
    if cache is not None and key in cache:
        holders, files, screen, screen_path, cols = cache[key]
    else:
        holders = chain_holders(typ, shape, lengths)
        files = []
        for c, h in enumerate(holders):
            p = os.path.join(scratch, f"{typ}-{'_'.join(map(str, lengths))}-chain{c}.h5")
            h.save_h5(p)
            files.append(p)
        screen = eval_screen(ns, nt, 2)
        screen_path = os.path.join(scratch, f"{typ}-screen.h5")
        if not os.path.exists(screen_path):
            screen.save_h5(screen_path)
        cols = [[np.asarray(t.predict_viability(screen), dtype=float) for t in h.thetas] for h in holders]
        flat = [c for ch in cols for c in ch]
        for i in range(len(flat)):
            for j in range(i):
                if np.all(np.abs(flat[i] - flat[j]) <= 1e-9):
                    raise AssertionError("harness precondition: two samples predict the same column")
        if cache is not None:
            cache.clear()
            cache[key] = (holders, files, screen, screen_path, cols)
    out = os.path.join(scratch, "evaluation.h5")
    if os.path.exists(out):
        os.remove(out)
    col.states += 1
    col.evaluations += 1
    col.transitions += 1
    run_evaluate_cli(screen_path, [files[c] for c in perm], out)
    me = ModelEvaluation.load_h5(out)
    want_ids = [pos for pos, c in enumerate(perm) for _ in range(lengths[c])]
    want_cols = [(c, step) for c in perm for step in range(lengths[c])]
    pred = np.asarray(me.predictions)
    ids = np.asarray(me.chain_ids).tolist()
    if verbose:
        print("chain_ids:", ids, "expected:", want_ids)
    if pred.ndim != 2 or pred.shape != (screen.size, len(want_cols)):
        bad("shape", f"predictions have shape {pred.shape}, expected {(screen.size, len(want_cols))}")
        return

    def who(colv):
        for c, ch in enumerate(cols):
            for s, ref in enumerate(ch):
                if np.all(np.abs(colv - ref) <= 1e-12 * (1 + np.abs(ref))):
                    return (c, s)
        return None

    got_cols = [who(pred[:, j]) for j in range(pred.shape[1])]
    if verbose:
        print("columns are (file, step):", got_cols)
    if got_cols != want_cols:
        if None in got_cols:
            bad("columns|unknown", f"prediction column {got_cols.index(None)} is not the prediction of any saved sample")
        else:
            bad("columns|order", f"prediction columns are (file, step) {got_cols}, chain-major order in argument order is {want_cols}")
    if ids != want_ids:
        bad("chain_ids", f"chain ids {ids}, but the columns belong to the files at argument positions {want_ids}")
    if len(lengths) >= 2 and perm != sorted(perm):
        col.nontriv("evaluate", typ, lengths, perm)
    col.outcome("evaluate", typ, lengths, perm, ids, got_cols)


def check_refusal(sp, col, scratch):
    typ, declared, held = sp["typ"], sp["declared"], sp["held"]
    bad = Bad(col, "refusal", sp, f"{typ} holder declared {declared} holding {held}")
    mk = lambda tag: build_theta(theta_spec(typ, (1, 1, 1), tag), {} if typ == INT else None)  # noqa: E731
    h = ThetaHolder(n_thetas=declared)
    objs = [mk(i) for i in range(held)]
    for o in objs:
        h.add_theta(o)
    col.states += 1

    def must_raise(what, fn):
        col.evaluations += 1
        col.transitions += 1
        try:
            fn()
        except Exception:  # noqa: BLE001
            col.refused += 1
            col.outcome("refusal", what, "raised")
            return True
        col.outcome("refusal", what, "returned")
        return False

    for i in range(held):
        col.evaluations += 1
        col.transitions += 1
        if h.get_theta(i) is not objs[i]:
            bad("get_theta|wrong", f"get_theta({i}) is not the sample added at position {i}")
    for i in sorted({-1, -held - 1, held, held + 1, declared, declared + 1} - set(range(held))):
        if not must_raise(f"get_theta({'neg' if i < 0 else 'past'})", lambda i=i: h.get_theta(i)):
            bad("get_theta|out-of-range", f"get_theta({i}) returned although only positions 0..{held - 1} hold a sample")
    # positions that are no position at all, just outside the range: -0.5, held - 0.5, 0.99 * held (also as numpy scalars)
    for x in (-0.5, held - 0.5, held - 0.01, np.float64(-0.25), np.float64(held - 0.5)):
        if not must_raise("get_theta(fractional)", lambda x=x: h.get_theta(x)):
            bad("get_theta|out-of-range", f"get_theta({x!r}) returned although only the integer positions 0..{held - 1} hold a sample")
    if held == 0:
        path = os.path.join(scratch, "empty.h5")
        if not must_raise("save-empty", lambda: h.save_h5(path)):
            bad("save-empty", "an empty collection was saved without complaint")
        if os.path.exists(path):
            os.remove(path)
        # a refusal saves nothing: the collection that is already stored at the target path must still be there afterwards
        keep = ThetaHolder(n_thetas=1)
        keep.add_theta(mk(7))
        keep.save_h5(path)
        before = open(path, "rb").read()
        must_raise("save-empty-over-existing", lambda: h.save_h5(path))
        try:
            back = ThetaHolder.load_h5(path)
            ok = len(back.thetas) == 1 and back.n_thetas == 1
        except Exception as exc:  # noqa: BLE001
            ok = False
            bad("save-empty|destroyed-existing-file", f"after the refused save of an empty collection the file that was at the target path no longer loads: {short_exc(exc)}")
        else:
            if not ok or open(path, "rb").read() != before:
                bad("save-empty|destroyed-existing-file", "the refused save of an empty collection changed the file that was at the target path")
        os.remove(path)
    # grow up to the declared size, then one more
    extra = [mk(50 + i) for i in range(declared - held + 1)]
    for o in extra[:-1]:
        h.add_theta(o)
    if not must_raise("add_theta(full)", lambda: h.add_theta(extra[-1])):
        bad("add_theta|grew", f"the collection accepted sample number {declared + 1}")
    elif len(h.thetas) != declared:
        bad("add_theta|grew", f"after the refused add the collection holds {len(h.thetas)} samples")
    col.nontriv("refusal", typ, declared, held)


# ---------------------------------------------------------------- plan / run / replay
def _chunks(seq, size):
    return [seq[i:i + size] for i in range(0, len(seq), size)]


def plan(tier, seed):
    items = []
    for part in _chunks(roundtrip_specs(tier), 6):
        items.append({"check": "roundtrip", "specs": part})
    items.append({"check": "concat", "specs": concat_specs(tier)})
    ev = evaluate_specs(tier)
    for part in _chunks(ev, 12):
        items.append({"check": "evaluate", "specs": part})
    items.append({"check": "refusal", "specs": refusal_specs(tier)})
    return items


def _dispatch(check, spec, col, scratch, cache=None, verbose=False):
    if check == "roundtrip":
        check_roundtrip(spec, col, scratch, verbose)
    elif check == "concat":
        check_concat(spec, col)
    elif check == "evaluate":
        check_evaluate(spec, col, scratch, cache, verbose)
    elif check == "refusal":
        check_refusal(spec, col, scratch)
    else:
        raise KeyError(check)


def run_item(item, col, tier):
    scratch = env.scratch_dir("c10")
    cache = {}
    try:
        for i, spec in enumerate(item["specs"]):
            if i == 0:
                col.sample({"check": item["check"], "spec": spec if item["check"] != "roundtrip" else
                            {k: spec[k] for k in ("typ", "shape", "declared", "table", "what")} | {"n": len(spec["thetas"])}})
            col.count("check:" + item["check"])
            _dispatch(item["check"], spec, col, scratch, cache)
    finally:
        shutil.rmtree(scratch, ignore_errors=True)


def replay(case, col):
    scratch = env.scratch_dir("c10-replay")
    try:
        print(f"check {case['check']}: {case['spec'] if case['check'] != 'roundtrip' else {k: case['spec'][k] for k in ('typ', 'shape', 'declared', 'table', 'what')}}")
        _dispatch(case["check"], case["spec"], col, scratch, None, verbose=True)
    finally:
        shutil.rmtree(scratch, ignore_errors=True)
