"""C07  Pairwise-distance chunks partition the work and assemble to the same matrix.

Work items (all on the real batchie code):

* ``partition``  every (n_thetas, n_chunks): all chunk index lists from
                 ``get_lower_triangular_indices_chunk``: valid pairs i>j, pairwise disjoint, every pair
                 exactly once, sizes differ by at most one.
* ``assemble``   every (n_thetas, n_chunks, metric, pattern of identical thetas): each chunk computed by
                 ``calculate_pairwise_distance_matrix_on_predictions`` (stub thetas in a real ThetaHolder),
                 saved; then EVERY sequence of chunk files that contains each chunk at least once plus a
                 bounded number of repeats, in every order (choice tree), is loaded from disk, combined with
                 ``ChunkedDistanceMatrix.concat`` and densified; also every proper subset of the chunks.
* ``densify``    every proper subset of the pairs of an n x n matrix added through ``add_value``: to_dense
                 must refuse; the full set must densify to the values added.
* ``metric``     ``MSEDistance`` (both sigmoid settings) on every ordered pair of equal-length vectors over a
                 small alphabet: symmetric, non-negative, zero on identical predictions.
* ``cli``        ``batchie.cli.calculate_distance_matrix.main`` in-process for 4 real posterior samples
                 saved with ThetaHolder.save_h5 and a real Screen on disk.
"""
import itertools
import os
import shutil
import sys

import numpy as np

from .. import env

env.setup()

from ..core import short_exc  # noqa: E402
from ..explore import explore  # noqa: E402

from batchie import distance_calculation as DC  # noqa: E402
from batchie.core import DistanceMetric, ThetaHolder  # noqa: E402
from batchie.distance.mse import MSEDistance  # noqa: E402

PROP = "C07"
LEVEL = "model_checking"
ENGINE = "E1-input-enumeration+E2-choice-tree"
TECHNIQUE = (
    "bounded-exhaustive enumeration of (n_thetas, n_chunks, metric, zero pattern) with the full choice tree of "
    "chunk-file sequences (every order, bounded repeats), real save/load/concat/to_dense against a reference matrix"
)
LEVEL_TEXT = (
    "every input and every combination order inside the stated bounds is executed on the real code and compared "
    "with a reference matrix built from direct metric calls; nothing is sampled.  Larger n_thetas / n_chunks and "
    "distance values outside the menu rest on the small-scope argument"
)
RULE = (
    "cases = (a) every (n_thetas, n_chunks) of the partition; (b) every (n_thetas, n_chunks, metric, pattern of "
    "identical thetas, sequence of chunk files) where the sequences are ALL orders of the multiset 'each chunk once "
    "plus <= R repeated chunks', and every proper non-empty subset of the chunks; (c) every proper subset of pairs "
    "fed through add_value; (d) every ordered pair of equal-length vectors over the alphabet for the metric; (e) the "
    "CLI chunks for 4 real thetas.  A partition case is non-trivial when there are >= 2 non-empty chunks; an "
    "assembly is non-trivial when >= 2 non-empty chunk files are combined (distinct class = the whole case incl. the "
    "sequence); outcome = digest of the dense matrix or 'refused'"
)

BOUNDS = {
    "quick": {
        "partition": {"n_thetas": [0, 8], "n_chunks": "1..pairs+2"},
        "assemble": {"n_thetas": [0, 5], "n_chunks": "1..4 (4 only for n_thetas >= 3)", "repeats": 1,
                     "metrics": ["MSEDistance(sigmoid=True)", "MSEDistance(sigmoid=False)",
                                 "symmetric injective stub (patterns 'all distinct' and 'first two identical' only)"],
                     "patterns": ["all distinct", "first two identical", "last two identical", "first and last identical", "all identical"]},
        "densify": {"n": [0, 4]},
        "metric": {"alphabet": [-1.5, 0.0, 2.0], "length": [1, 3], "near_identical": "vectors over [-1.5, 0.3, 2.0, 40.0], length 1..3, every sign pattern of a relative perturbation 1e-7 / 1e-9 / 1e-11"},
        "sparse_probe": "300 posterior samples in 300 chunks (149-150 entries each): chunks 0, 1, 150, 218, 299 computed, saved, loaded, every entry compared",
        "cli": {"n_thetas": 4, "n_chunks": [1, 3]},
    },
    "thorough": {
        "partition": {"n_thetas": [0, 20], "n_chunks": "1..pairs+2"},
        "assemble": {"n_thetas": [0, 6], "n_chunks": "1..5 (5 only for n_thetas >= 3)", "repeats": "2 for n_chunks <= 3, else 1",
                     "metrics": ["MSEDistance(sigmoid=True)", "MSEDistance(sigmoid=False)", "symmetric injective stub"],
                     "patterns": ["all distinct", "first two identical", "last two identical", "first and last identical", "all identical"]},
        "densify": {"n": [0, 5]},
        "metric": {"alphabet": [-1.5, 0.0, 2.0, 40.0], "length": [1, 3], "near_identical": "as quick"},
        "cli": {"n_thetas": 4, "n_chunks": [1, 4]},
    },
}
ASSUMPTIONS = [
    "thetas are stubs with a fixed viability vector inside a real batchie.core.ThetaHolder (the prediction code is "
    "C09's subject); the CLI item uses real SparseDrugComboMCMCSample thetas and a real Screen",
    "the reference entry (i,j) is the metric called directly on the two prediction vectors; either argument order "
    "is accepted (the statement does not fix one), tolerance 1e-12",
    "'the same matrix' is compared at 1e-12 (values only travel through float64 h5 datasets); symmetry and the zero "
    "diagonal of the assembled matrix at 1e-12; the metric's 'zero on identical predictions' is exact 0.0",
    "distance values come from a menu: 6 prediction vectors whose pairwise distances are all distinct under every "
    "metric used, and exact zeros from identical thetas (including a zero in the first slot (1,0) and in the last slot)",
    "a chunk count larger than the number of pairs gives empty chunk files; they are saved, loaded and combined like "
    "any other",
    "which pairs a chunk holds is not fixed by the statement: a subset of the chunk files must refuse densification "
    "exactly when the union of the index lists returned by get_lower_triangular_indices_chunk misses a pair",
    "ChunkedDistanceMatrix.add_value called directly with a duplicate pair is outside the statement and not explored",
]

TOL = 1e-12
DATA = object()  # opaque token handed to predict_viability; the stub checks it gets it back

# prediction vectors (length 3); index = group code
VECS = [
    (0.10, 0.80, 0.35),
    (0.55, 0.20, 0.90),
    (0.95, 0.45, 0.05),
    (0.30, 0.65, 0.70),
    (0.75, 0.05, 0.50),
    (0.40, 0.99, 0.15),
]


class StubTheta:
    def __init__(self, group):
        self.group = group
        self.vec = np.array(VECS[group], dtype=float)

    def predict_viability(self, data):
        if data is not DATA:
            raise AssertionError("harness: stub theta received a different data object")
        return self.vec.copy()


class PairStubMetric(DistanceMetric):
    """Symmetric, injective on unordered pairs of distinct VECS, 0 on identical vectors, dyadic values."""

    @staticmethod
    def _code(v):
        v = np.asarray(v, dtype=float)
        for g, ref in enumerate(VECS):
            if v.shape == (3,) and all(float(a) == b for a, b in zip(v, ref)):
                return g
        raise AssertionError(f"harness: stub metric got an unknown vector {v!r}")

    def distance(self, a, b):
        ca, cb = self._code(a), self._code(b)
        if ca == cb:
            return 0.0
        lo, hi = min(ca, cb), max(ca, cb)
        return (1 + 8 * lo + hi) / 64.0


METRICS = ["mse-sigmoid", "mse-raw", "pair-stub"]


def make_metric(name):
    if name == "mse-sigmoid":
        return MSEDistance(sigmoid=True)
    if name == "mse-raw":
        return MSEDistance(sigmoid=False)
    if name == "pair-stub":
        return PairStubMetric()
    raise ValueError(name)


def patterns_for(n):
    """Assignments theta -> prediction vector; identical vectors give distance exactly 0."""
    out = []

    def add(name, groups):
        if groups not in [g for _, g in out]:
            out.append((name, groups))

    add("distinct", list(range(n)))
    if n >= 2:
        add("first-two-identical", [0, 0] + list(range(1, n - 1)))
        add("last-two-identical", list(range(n - 1)) + [n - 2])
        add("ends-identical", list(range(n - 1)) + [0])
        add("all-identical", [0] * n)
    return out


def menu_separation(metric_name):
    """Smallest gap between the sorted pairwise distances of the menu (0 = two pairs collide).
    Only the harness's own sensitivity depends on it, never a verdict."""
    m = make_metric(metric_name)
    vals = sorted(
        float(m.distance(np.array(VECS[a]), np.array(VECS[b]))) for a, b in itertools.combinations(range(len(VECS)), 2)
    )
    return min([vals[0]] + [y - x for x, y in zip(vals, vals[1:])])


assert menu_separation("pair-stub") > 0, "harness: stub metric is not injective"


def holder_for(groups):
    h = ThetaHolder(n_thetas=len(groups))
    for g in groups:
        h.add_theta(StubTheta(g))
    return h


def all_pairs(n):
    return [(i, j) for i in range(n) for j in range(i)]


def close(a, b):
    return abs(a - b) <= TOL * (1.0 + abs(b))


def reference_matrix(groups, metric):
    """(lower, upper): entry (i,j) = metric(pred_i, pred_j) resp. metric(pred_j, pred_i), direct calls."""
    n = len(groups)
    preds = [np.array(VECS[g], dtype=float) for g in groups]
    a = np.zeros((n, n))
    b = np.zeros((n, n))
    for i in range(n):
        for j in range(n):
            if i != j:
                a[i, j] = float(metric.distance(preds[i].copy(), preds[j].copy()))
                b[i, j] = float(metric.distance(preds[j].copy(), preds[i].copy()))
    return a, b


def judge_dense(dense, n, ref):
    """Return (sig_suffix, text) or None."""
    a, b = ref
    dense = np.asarray(dense)
    if dense.shape != (n, n):
        return "shape", f"dense matrix has shape {dense.shape}, expected {(n, n)}"
    d = dense.astype(float)
    for i in range(n):
        if not abs(d[i, i]) <= TOL:
            return "diagonal", f"diagonal entry ({i},{i}) is {d[i, i]!r}, expected 0"
    for i in range(n):
        for j in range(i):
            if not close(d[i, j], d[j, i]):
                return "asymmetric", f"entries ({i},{j})={d[i, j]!r} and ({j},{i})={d[j, i]!r} differ"
    for i in range(n):
        for j in range(n):
            if i == j:
                continue
            if not (close(d[i, j], a[i, j]) or close(d[i, j], b[i, j])):
                return "wrong-entry", f"entry ({i},{j}) is {d[i, j]!r}, the metric on predictions {i} and {j} gives {a[i, j]!r}"
    return None


# ------------------------------------------------------------------ partition
def check_partition(col, n, n_chunks):
    case = {"kind": "partition", "n": n, "n_chunks": n_chunks}
    col.states += 1
    chunks = []
    for ci in range(n_chunks):
        col.evaluations += 1
        col.transitions += 1
        try:
            chunks.append([tuple(int(x) for x in p) for p in DC.get_lower_triangular_indices_chunk(n, ci, n_chunks)])
        except Exception as exc:  # noqa: BLE001
            col.violation(f"{PROP}|partition|raised", f"chunk {ci} of {n_chunks} for n={n} raised {short_exc(exc)}", case)
            return
    want = set(all_pairs(n))
    flat = [p for c in chunks for p in c]
    sizes = [len(c) for c in chunks]
    bad = [p for p in flat if len(p) != 2 or not (0 <= p[1] < p[0] < n)]
    if bad:
        col.violation(f"{PROP}|partition|invalid-pair", f"n={n}, n_chunks={n_chunks}: {bad[:3]} are not pairs i>j below {n}", case)
    elif len(set(flat)) != len(flat):
        dup = sorted(p for p in set(flat) if flat.count(p) > 1)
        col.violation(f"{PROP}|partition|overlap", f"n={n}, n_chunks={n_chunks}: pairs {dup[:3]} occur in more than one chunk (sizes {sizes})", case)
    elif set(flat) != want:
        col.violation(f"{PROP}|partition|missing", f"n={n}, n_chunks={n_chunks}: pairs {sorted(want - set(flat))[:3]} are in no chunk (sizes {sizes})", case)
    elif max(sizes) - min(sizes) > 1:
        col.violation(f"{PROP}|partition|unbalanced", f"n={n}, n_chunks={n_chunks}: chunk sizes {sizes} differ by more than one", case)
    if sum(1 for s in sizes if s) >= 2:
        col.nontriv("partition", n, n_chunks)
    col.outcome("partition", tuple(sizes))
    if n_chunks in (2, 3) and n >= 3:
        col.sample({"partition": {"n": n, "n_chunks": n_chunks, "sizes": sizes}})


# ------------------------------------------------------------------ assembly
class Assembly:
    """Chunks of one (groups, metric, n_chunks) computed by the real function and saved to disk."""

    def __init__(self, col, groups, metric_name, n_chunks, tmp):
        self.col = col
        self.groups = list(groups)
        self.n = len(groups)
        self.metric_name = metric_name
        self.metric = make_metric(metric_name)
        self.n_chunks = n_chunks
        self.base = {"kind": "assemble", "groups": self.groups, "metric": metric_name, "n_chunks": n_chunks}
        self.ok = False
        self.ref = reference_matrix(self.groups, self.metric)
        self.files = []
        self.index_lists = []
        col.states += 1
        # single-chunk computation, never saved
        try:
            col.evaluations += 1
            col.transitions += 2
            single = DC.calculate_pairwise_distance_matrix_on_predictions(
                thetas=holder_for(self.groups), distance_metric=self.metric, data=DATA, chunk_index=0, n_chunks=1
            )
            self.single_dense = np.array(single.to_dense(), dtype=float)
        except Exception as exc:  # noqa: BLE001
            col.violation(
                f"{PROP}|single-chunk|raised",
                f"single-chunk computation for groups={self.groups}, {metric_name} raised {short_exc(exc)}",
                dict(self.base, seq=None),
            )
            return
        v = judge_dense(self.single_dense, self.n, self.ref)
        if v:
            col.violation(f"{PROP}|single-chunk|{v[0]}", f"single-chunk matrix for groups={self.groups}, {metric_name}: {v[1]}", dict(self.base, seq=None))
            return
        for ci in range(n_chunks):
            try:
                col.evaluations += 1
                col.transitions += 2
                m = DC.calculate_pairwise_distance_matrix_on_predictions(
                    thetas=holder_for(self.groups), distance_metric=self.metric, data=DATA, chunk_index=ci, n_chunks=n_chunks
                )
                fn = os.path.join(tmp, f"chunk_{self.n}_{n_chunks}_{ci}.h5")
                m.save(fn)
                self.files.append(fn)
                self.index_lists.append(
                    [tuple(int(x) for x in p) for p in DC.get_lower_triangular_indices_chunk(self.n, ci, n_chunks)]
                )
            except Exception as exc:  # noqa: BLE001
                col.violation(
                    f"{PROP}|chunk|raised",
                    f"computing/saving chunk {ci} of {n_chunks} for groups={self.groups}, {metric_name} raised {short_exc(exc)}",
                    dict(self.base, seq=None),
                )
                return
        self.ok = True

    def covered(self, seq):
        return set(p for ci in set(seq) for p in self.index_lists[ci])

    def run_sequence(self, seq):
        """Load the files of `seq` fresh from disk, combine in that order, densify, judge."""
        col = self.col
        case = dict(self.base, seq=list(seq))
        col.evaluations += 1
        col.transitions += 2 * len(seq)
        missing = set(all_pairs(self.n)) - self.covered(seq)
        try:
            mats = [DC.ChunkedDistanceMatrix.load(self.files[ci]) for ci in seq]
            combined = DC.ChunkedDistanceMatrix.concat(mats)
        except Exception as exc:  # noqa: BLE001
            col.violation(
                f"{PROP}|assemble|combine-raised",
                f"loading/combining chunk files {list(seq)} (of {self.n_chunks}) for groups={self.groups}, {self.metric_name} raised {short_exc(exc)}",
                case,
            )
            return
        try:
            dense = combined.to_dense()
        except Exception as exc:  # noqa: BLE001
            if missing:
                col.refused += 1
                col.count("incomplete_subsets_refused")
                col.outcome("refused")
                return
            col.violation(
                f"{PROP}|assemble|densify-raised",
                f"chunk files {list(seq)} (of {self.n_chunks}) cover every pair of groups={self.groups} but to_dense raised {short_exc(exc)}",
                case,
            )
            return
        if missing:
            col.violation(
                f"{PROP}|densify|incomplete-accepted",
                f"chunk files {list(seq)} (of {self.n_chunks}, n={self.n}) miss the pairs {sorted(missing)[:3]} but to_dense returned a matrix",
                case,
            )
            return
        v = judge_dense(dense, self.n, self.ref)
        if v:
            col.violation(
                f"{PROP}|assemble|{v[0]}",
                f"chunk files {list(seq)} (of {self.n_chunks}) for groups={self.groups}, {self.metric_name}: {v[1]}",
                case,
            )
            return
        d = np.asarray(dense, dtype=float)
        if d.shape != self.single_dense.shape or not all(
            close(x, y) for x, y in zip(d.ravel().tolist(), self.single_dense.ravel().tolist())
        ):
            col.violation(
                f"{PROP}|assemble|differs-from-single-chunk",
                f"chunk files {list(seq)} (of {self.n_chunks}) for groups={self.groups}, {self.metric_name} give a matrix different from the single-chunk one",
                case,
            )
            return
        if sum(1 for ci in set(seq) if self.index_lists[ci]) >= 2:
            col.nontriv("assemble", tuple(self.groups), self.metric_name, self.n_chunks, tuple(seq))
        col.outcome("dense", d)
        # history: the caller works on the dense matrix it was given (fills the diagonal, rescales) and asks again
        if isinstance(dense, np.ndarray) and dense.size and dense.flags.writeable:
            np.fill_diagonal(dense, 9.0)
            dense *= 0.5
            col.evaluations += 1
            col.transitions += 1
            v2 = judge_dense(combined.to_dense(), self.n, self.ref)
            if v2:
                col.violation(f"{PROP}|densify|second-call|{v2[0]}",
                              f"chunk files {list(seq)} (of {self.n_chunks}) for groups={self.groups}: asked for the dense matrix a second time, after the caller edited the first one in place: {v2[1]}", case)


def run_shared_head(asm):
    """History: ONE accumulator (the combination of the first n_chunks-2 chunk files) is extended twice, by the last two chunks
    in either order.  Both results are complete matrices equal to the single-chunk one; the accumulator itself is not touched."""
    col = asm.col
    nc = asm.n_chunks
    if nc < 3:
        return
    for descending in (False, True):
        _shared_head_one(asm, descending)


def _shared_head_one(asm, descending):
    col = asm.col
    nc = asm.n_chunks
    ids = list(range(nc))[::-1] if descending else list(range(nc))  # descending: the head starts from the last (often empty) chunk file
    load = lambda pos: DC.ChunkedDistanceMatrix.load(asm.files[ids[pos]])  # noqa: E731
    case = dict(asm.base, seq=ids, shared_head=True)
    col.evaluations += 1
    col.transitions += 2 * nc
    try:
        head = load(0)
        for ci in range(1, nc - 2):
            head = head.combine(load(ci))
        k0 = int(head.current_index)
        snap = (np.asarray(head.row_indices[:k0]).tolist(), np.asarray(head.col_indices[:k0]).tolist(), np.asarray(head.values[:k0]).tolist())
        results = []
        for order in ((nc - 2, nc - 1), (nc - 1, nc - 2)):
            results.append((order, head.combine(load(order[0])).combine(load(order[1])).to_dense()))
            k1 = int(head.current_index)
            now = (np.asarray(head.row_indices[:k1]).tolist(), np.asarray(head.col_indices[:k1]).tolist(), np.asarray(head.values[:k1]).tolist())
            if now != snap:
                col.violation(f"{PROP}|assemble|operand-changed", f"combining changed its left operand (chunk files {ids[:nc - 2]} of {nc}, groups={asm.groups})", case)
                return
    except Exception as exc:  # noqa: BLE001
        col.violation(f"{PROP}|assemble|combine-raised",
                      f"one accumulator (chunk files {ids[:nc - 2]} of {nc}) extended by chunk files {ids[nc - 2:]} in both orders, groups={asm.groups}, {asm.metric_name}: {short_exc(exc)}", case)
        return
    for order, dense in results:
        v = judge_dense(dense, asm.n, asm.ref)
        if v:
            col.violation(f"{PROP}|assemble|{v[0]}", f"accumulator of chunk files {ids[:nc - 2]} extended by {[ids[o] for o in order]}: {v[1]}", case)
            return
    col.nontriv("assemble-shared-head", tuple(asm.groups), asm.metric_name, nc, descending)


def sequence_body(n_chunks, repeats):
    """Choice-tree body: leaves are exactly the distinct sequences that contain each chunk once plus a
    multiset of at most `repeats` extra chunks, in every order."""

    def body(ch):
        extra = []
        low = 0
        for _ in range(repeats):
            # 0 = no further repeat; k>0 = chunk (low + k - 1) once more (non-decreasing, so each multiset once)
            c = ch.choose(n_chunks - low + 1, "repeat")
            if c == 0:
                break
            low = low + c - 1
            extra.append(low)
        counts = {ci: 1 for ci in range(n_chunks)}
        for e in extra:
            counts[e] += 1
        seq = []
        while counts:
            keys = sorted(counts)
            j = ch.choose(len(keys), "next-file") if len(keys) > 1 else 0
            v = keys[j]
            seq.append(v)
            counts[v] -= 1
            if not counts[v]:
                del counts[v]
        return seq

    return body


class _FirstFixed:
    """Chooser front answering the first choice point (which chunk is repeated) with a fixed value, so that a
    large sequence tree can be split into one work item per first answer."""

    def __init__(self, ch, first):
        self._ch = ch
        self._first = first
        self._used = False

    def choose(self, n, label=None):
        if not self._used:
            self._used = True
            if self._first >= n:
                raise AssertionError(f"harness: first answer {self._first} out of arity {n}")
            return self._first
        return self._ch.choose(n, label)


def run_assemble(col, n, metric_name, pattern_name, groups, n_chunks, repeats, first=None):
    tmp = env.scratch_dir("c07")
    try:
        asm = Assembly(col, groups, metric_name, n_chunks, tmp)
        if not asm.ok:
            return
        inner = sequence_body(n_chunks, repeats)
        body = inner if first is None else (lambda ch: inner(_FirstFixed(ch, first)))
        n_seq = 0
        for _ch, seq in explore(body):
            col.states += 1
            n_seq += 1
            asm.run_sequence(seq)
        col.count("assembly_sequences", n_seq)
        if first not in (None, 0):
            return
        run_shared_head(asm)
        # every proper non-empty subset of the chunk files, in index order
        for r in range(1, n_chunks):
            for sub in itertools.combinations(range(n_chunks), r):
                col.states += 1
                col.count("proper_subsets")
                asm.run_sequence(list(sub))
                # ... and the same incomplete set with one file listed twice (the counts may
                # then add up to the full number of pairs although pairs are missing)
                for x in sub:
                    for seq in (list(sub) + [x], [x] + list(sub)):
                        col.states += 1
                        col.count("proper_subsets_with_a_repeat")
                        asm.run_sequence(seq)
        if n >= 3 and n_chunks == 3 and pattern_name == "first-two-identical":
            col.sample({"assemble": {"groups": groups, "metric": metric_name, "n_chunks": n_chunks, "sequences": n_seq,
                                      "chunk_index_lists": asm.index_lists}})
    finally:
        shutil.rmtree(tmp, ignore_errors=True)


# ------------------------------------------------------------------ densify through add_value
def _densify_value(k, zero_values):
    return 0.0 if zero_values else 0.5 + 0.125 * k


def densify_case(col, n, sub, zero_values):
    pairs = all_pairs(n)
    sub = sorted(sub)
    r = len(sub)
    case = {"kind": "densify", "n": n, "subset": list(sub), "zero_values": bool(zero_values)}
    col.states += 1
    col.evaluations += 1
    col.transitions += len(sub) + 1
    try:
        m = DC.ChunkedDistanceMatrix(size=n)
        for k in sub:
            m.add_value(pairs[k][0], pairs[k][1], _densify_value(k, zero_values))
    except Exception as exc:  # noqa: BLE001
        col.violation(f"{PROP}|densify|add-raised", f"adding distinct pairs {[pairs[k] for k in sub]} to an empty {n}x{n} matrix raised {short_exc(exc)}", case)
        return
    try:
        dense = np.asarray(m.to_dense(), dtype=float)
    except Exception as exc:  # noqa: BLE001
        if r < len(pairs):
            col.refused += 1
            col.outcome("refused")
        else:
            col.violation(f"{PROP}|densify|complete-refused", f"a {n}x{n} matrix holding all {len(pairs)} pairs refused to_dense: {short_exc(exc)}", case)
        return
    if r < len(pairs):
        col.violation(
            f"{PROP}|densify|incomplete-accepted",
            f"a {n}x{n} matrix holding only {[pairs[k] for k in sub]} was densified although {[p for k, p in enumerate(pairs) if k not in sub][:3]} are missing",
            case,
        )
        return
    exp = np.zeros((n, n))
    for k, (i, j) in enumerate(pairs):
        exp[i, j] = exp[j, i] = _densify_value(k, zero_values)
    v = judge_dense(dense, n, (exp, exp))
    if v:
        col.violation(f"{PROP}|densify|{v[0]}", f"complete {n}x{n} matrix built with add_value: {v[1]}", case)
    col.outcome("dense", dense)
    if r >= 2:
        col.nontriv("densify", n, zero_values)


def check_densify(col, n, zero_values):
    n_pairs = len(all_pairs(n))
    for r in range(0, n_pairs + 1):
        for sub in itertools.combinations(range(n_pairs), r):
            densify_case(col, n, sub, zero_values)


# ------------------------------------------------------------------ sparse probe: many posterior samples, many small chunks
def run_assemble_sparse(col, n, n_chunks, chunk_ids):
    """Far above the exhaustive range: n posterior samples (indices beyond 255), n_chunks so large that a chunk holds fewer
    than 256 entries.  A few chunks are computed, saved and loaded; every entry must come back as it was computed and
    be the metric of the two samples it names.  (A handful of chunks, not an assembly: stated as a probe in BOUNDS.)"""
    groups = [i % len(VECS) for i in range(n)]
    holder = holder_for(groups)
    metric = make_metric("mse-raw")
    tmp = env.scratch_dir("c07s")
    try:
        for ci in chunk_ids:
            case = {"kind": "assemble-sparse", "n": n, "n_chunks": n_chunks, "chunk": ci}
            col.evaluations += 1
            col.states += 1
            col.transitions += 2
            m = DC.calculate_pairwise_distance_matrix_on_predictions(thetas=holder, distance_metric=metric, data=DATA, chunk_index=ci, n_chunks=n_chunks)
            k = int(m.current_index)
            before = list(zip(m.row_indices[:k].tolist(), m.col_indices[:k].tolist(), m.values[:k].tolist()))
            fn = os.path.join(tmp, f"chunk_{ci}.h5")
            m.save(fn)
            back = DC.ChunkedDistanceMatrix.load(fn)
            kb = int(back.current_index)
            after = list(zip(np.asarray(back.row_indices[:kb]).tolist(), np.asarray(back.col_indices[:kb]).tolist(), np.asarray(back.values[:kb]).tolist()))
            if sorted(after) != sorted(before):
                diff = [(a, b) for a, b in zip(sorted(before), sorted(after)) if a != b][:2]
                col.violation(f"{PROP}|sparse|save-load", f"{n} samples, chunk {ci} of {n_chunks} ({k} entries): after save/load the entries differ, e.g. {diff}", case)
                continue
            for i, j, v in after:
                want = float(metric.distance(np.array(VECS[groups[i]], dtype=float), np.array(VECS[groups[j]], dtype=float)))
                if not (i > j and close(v, want)):
                    col.violation(f"{PROP}|sparse|wrong-entry", f"{n} samples, chunk {ci} of {n_chunks}: entry ({i},{j}) holds {v!r}, the metric gives {want!r}", case)
                    break
            col.outcome("sparse", n, n_chunks, ci, k)
            col.nontriv("sparse", n, n_chunks, ci)
    finally:
        shutil.rmtree(tmp, ignore_errors=True)


# ------------------------------------------------------------------ metric
def metric_case(col, sigmoid, a, b):
    a, b = tuple(a), tuple(b)
    m = MSEDistance(sigmoid=sigmoid)
    case = {"kind": "metric", "sigmoid": sigmoid, "a": list(a), "b": list(b)}
    col.states += 1
    col.evaluations += 1
    col.transitions += 2
    try:
        ab = float(m.distance(np.array(a, dtype=float), np.array(b, dtype=float)))
        ba = float(m.distance(np.array(b, dtype=float), np.array(a, dtype=float)))
    except Exception as exc:  # noqa: BLE001
        col.violation(f"{PROP}|metric|raised", f"MSEDistance(sigmoid={sigmoid}).distance({a}, {b}) raised {short_exc(exc)}", case)
        return
    if not close(ab, ba):
        col.violation(f"{PROP}|metric|asymmetric", f"MSEDistance(sigmoid={sigmoid}): d({a},{b})={ab!r} but d({b},{a})={ba!r}", case)
    elif not (ab >= 0.0 and ba >= 0.0):
        col.violation(f"{PROP}|metric|negative", f"MSEDistance(sigmoid={sigmoid}): d({a},{b})={ab!r} is not >= 0", case)
    elif a == b and (ab != 0.0 or ba != 0.0):
        col.violation(f"{PROP}|metric|nonzero-on-identical", f"MSEDistance(sigmoid={sigmoid}): d({a},{a})={ab!r}, expected 0", case)
    if a != b:
        col.nontriv("metric", sigmoid, a, b)
    col.outcome("metric", ab)


NEAR_ALPHABET = [-1.5, 0.3, 2.0, 40.0]
NEAR_EPS = [1e-7, 1e-9, 1e-11]


def check_metric(col, alphabet, max_len):
    for sigmoid in (True, False):
        for length in range(1, max_len + 1):
            vecs = list(itertools.product(alphabet, repeat=length))
            for a in vecs:
                for b in vecs:
                    metric_case(col, sigmoid, a, b)
        # nearly (not exactly) identical predictions: two posterior samples that differ in the 7th..11th digit - the
        # regime where an algebraically equivalent rewrite of the metric can cancel to a negative number
        for length in (1, 2, 3):
            for a in itertools.product(NEAR_ALPHABET, repeat=length):
                for signs in itertools.product((-1.0, 0.0, 1.0), repeat=length):
                    if not any(signs):
                        continue
                    for eps in NEAR_EPS:
                        b = tuple(x + eps * sg * (1.0 + abs(x)) for x, sg in zip(a, signs))
                        metric_case(col, sigmoid, a, b)


# ------------------------------------------------------------------ CLI
def run_cli(col, max_chunks):
    from ..screens import make_screen
    from batchie.cli import calculate_distance_matrix as CLI
    from batchie.data import Screen
    from batchie.models.sparse_combo import SparseDrugComboMCMCSample

    tmp = env.scratch_dir("c07cli")
    argv0 = list(sys.argv)
    try:
        rows = [
            ("s0", "p0", (("a", 1.0), ("b", 1.0)), 0.1, False),
            ("s0", "p0", (("a", 1.0), ("c", 2.0)), 0.2, False),
            ("s1", "p1", (("b", 1.0), ("c", 2.0)), 0.3, False),
            ("s1", "p1", (("a", 1.0), ("", 0.0)), 0.4, False),
            ("s1", "p2", (("c", 2.0), ("b", 1.0)), 0.5, True),
        ]
        screen = make_screen(rows)
        data_fn = os.path.join(tmp, "data.h5")
        screen.save_h5(data_fn)
        n_t, n_s, d = int(screen.n_unique_treatments), int(screen.n_unique_samples), 2

        def theta(seed):
            g = np.arange(1, 200, dtype=float) * (0.37 + 0.11 * seed)
            f = lambda shape, off: (np.sin(g[off:off + int(np.prod(shape))]) * 0.9).reshape(shape)  # noqa: E731
            return SparseDrugComboMCMCSample(
                W=f((n_s, d), 0), W0=f((n_s,), 10), V2=f((n_t, d), 20), V1=f((n_t, d), 40), V0=f((n_t,), 60),
                alpha=0.25 * seed - 0.3, precision=10.0,
            )

        REFS = {}
        for cfg, SEEDS in (("distinct", [1, 2, 3, 4]), ("zero-at-(2,0)", [1, 2, 1, 3])):
            seeds = SEEDS
            thetas = [theta(s) for s in seeds]
            one = ThetaHolder(n_thetas=4)
            for t in thetas:
                one.add_theta(t)
            one_fn = os.path.join(tmp, f"thetas_{cfg[:4]}_all.h5")
            one.save_h5(one_fn)
            halves = []
            for k in range(2):
                h = ThetaHolder(n_thetas=2)
                for t in thetas[2 * k:2 * k + 2]:
                    h.add_theta(t)
                fn = os.path.join(tmp, f"thetas_{cfg[:4]}_{k}.h5")
                h.save_h5(fn)
                halves.append(fn)

            loaded_screen = Screen.load_h5(data_fn)
            loaded = ThetaHolder.load_h5(one_fn)
            preds = [np.asarray(loaded.get_theta(i).predict_viability(loaded_screen), dtype=float) for i in range(4)]
            metric = MSEDistance()
            a = np.zeros((4, 4))
            b = np.zeros((4, 4))
            for i in range(4):
                for j in range(4):
                    if i != j:
                        a[i, j] = float(metric.distance(preds[i].copy(), preds[j].copy()))
                        b[i, j] = float(metric.distance(preds[j].copy(), preds[i].copy()))
            offdiag = sorted(a[i, j] for i in range(4) for j in range(i))
            if cfg == "distinct" and (offdiag[0] <= 1e-9 or any(y - x <= 1e-9 for x, y in zip(offdiag, offdiag[1:]))):
                col.count("cli_menu_not_separating")  # sensitivity note only, never a verdict
            if cfg != "distinct" and a[2, 0] != 0.0:
                col.count("cli_menu_without_exact_zero")
            ref = (a, b)
            REFS[cfg[:4]] = ref

            # the same two files under names whose given order is not their lexicographic order (chain 9 before chain 10)
            renamed = [os.path.join(tmp, f"chain{cfg[:4]}_9.h5"), os.path.join(tmp, f"chain{cfg[:4]}_10.h5")]
            for src, dst in zip(halves, renamed):
                shutil.copyfile(src, dst)
            for theta_files, label in ((([one_fn]), "one-file"), (halves, "two-files"), (renamed, "two-files-9-then-10")):
                for n_chunks in range(1, max_chunks + 1):
                    files = []
                    base = {"kind": "cli", "config": cfg, "thetas": label, "n_chunks": n_chunks}
                    ok = True
                    for ci in range(n_chunks):
                        out = os.path.join(tmp, f"cli_{cfg[:4]}_{label}_{n_chunks}_{ci}.h5")
                        sys.argv = [
                            "calculate_distance_matrix", "--distance-metric", "MSEDistance", "--n-chunks", str(n_chunks),
                            "--chunk-index", str(ci), "--data", data_fn, "--thetas", *theta_files, "--output", out,
                        ]
                        col.evaluations += 1
                        col.transitions += 1
                        try:
                            CLI.main()
                        except SystemExit as exc:
                            col.violation(f"{PROP}|cli|raised", f"calculate_distance_matrix exited with {exc.code!r} for chunk {ci} of {n_chunks}", base)
                            ok = False
                            break
                        except Exception as exc:  # noqa: BLE001
                            col.violation(f"{PROP}|cli|raised", f"calculate_distance_matrix raised {short_exc(exc)} for chunk {ci} of {n_chunks}", base)
                            ok = False
                            break
                        finally:
                            sys.argv = argv0
                        files.append(out)
                    if not ok:
                        continue
                    seqs = [list(p) for p in itertools.permutations(range(n_chunks))]
                    seqs += [list(p) + [p[0]] for p in itertools.permutations(range(n_chunks))]
                    for seq in seqs:
                        case = dict(base, seq=seq)
                        col.states += 1
                        col.evaluations += 1
                        col.transitions += 2 * len(seq)
                        try:
                            dense = DC.ChunkedDistanceMatrix.concat([DC.ChunkedDistanceMatrix.load(files[ci]) for ci in seq]).to_dense()
                        except Exception as exc:  # noqa: BLE001
                            col.violation(f"{PROP}|cli|assemble-raised", f"CLI chunk files {seq} of {n_chunks} ({label}): {short_exc(exc)}", case)
                            continue
                        v = judge_dense(dense, 4, ref)
                        if v:
                            col.violation(f"{PROP}|cli|{v[0]}", f"CLI chunk files {seq} of {n_chunks} ({label}): {v[1]}", case)
                            continue
                        if n_chunks >= 2:
                            col.nontriv("cli", cfg, label, n_chunks, tuple(seq))
                        col.outcome("dense", np.asarray(dense, dtype=float))
                    # a proper subset of the CLI files must refuse
                    for r in range(1, n_chunks):
                        for sub in itertools.combinations(range(n_chunks), r):
                            col.states += 1
                            col.evaluations += 1
                            covered = set(p for ci in sub for p in DC.get_lower_triangular_indices_chunk(4, ci, n_chunks))
                            try:
                                DC.ChunkedDistanceMatrix.concat([DC.ChunkedDistanceMatrix.load(files[ci]) for ci in sub]).to_dense()
                            except Exception:  # noqa: BLE001
                                col.refused += 1
                                col.outcome("refused")
                                continue
                            if len(covered) < 6:
                                col.violation(f"{PROP}|densify|incomplete-accepted", f"CLI chunk files {list(sub)} of {n_chunks} were densified although pairs are missing", dict(base, seq=list(sub)))
        # the --output path of one invocation is reused by the next one (another set of posterior samples, same count and
        # chunking): the file must hold what the LAST invocation computed
        reuse = os.path.join(tmp, "reused_output.h5")
        for cfg_name in ("dist", "zero", "dist"):
            one_fn = os.path.join(tmp, f"thetas_{cfg_name}_all.h5")
            for ci in (0, 1):
                sys.argv = ["calculate_distance_matrix", "--distance-metric", "MSEDistance", "--n-chunks", "2", "--chunk-index", str(ci), "--data", data_fn,
                            "--thetas", one_fn, "--output", reuse]
                case = {"kind": "cli", "config": "reused-output", "thetas": cfg_name, "n_chunks": 2, "seq": [ci]}
                col.evaluations += 1
                col.transitions += 1
                try:
                    CLI.main()
                except BaseException as exc:  # noqa: BLE001
                    col.violation(f"{PROP}|cli|raised", f"calculate_distance_matrix into an existing output file raised {short_exc(exc)}", case)
                    continue
                finally:
                    sys.argv = argv0
                got = DC.ChunkedDistanceMatrix.load(reuse)
                k = int(got.current_index)
                want_pairs = sorted(DC.get_lower_triangular_indices_chunk(4, ci, 2))
                have = sorted(zip(np.asarray(got.row_indices[:k]).tolist(), np.asarray(got.col_indices[:k]).tolist()))
                refa = REFS[cfg_name][0]
                if have != [tuple(p_) for p_ in want_pairs]:
                    col.violation(f"{PROP}|cli|reused-output|pairs", f"output path reused: after computing chunk {ci} of 2 for {cfg_name} the file holds pairs {have}, expected {want_pairs}", case)
                elif any(not close(float(v), float(refa[i, j])) for i, j, v in zip(got.row_indices[:k], got.col_indices[:k], got.values[:k])):
                    col.violation(f"{PROP}|cli|reused-output|values", f"output path reused: after computing chunk {ci} of 2 for the {cfg_name} posterior samples the file still holds other values", case)
                col.nontriv("cli", "reused-output", cfg_name, ci)
        # the chunk files as their consumer sees them: calculate_scores is handed the files of 3 chunk jobs (one directory per job,
        # the same file name in each) in any order, also with one listed twice, and must work on the same complete matrix as with
        # the single-chunk file
        from batchie.cli import calculate_scores as SCORES
        from batchie.scoring.main import ChunkedScoresHolder

        one_fn = os.path.join(tmp, "thetas_dist_all.h5")
        job_files = []
        for ci in range(3):
            os.makedirs(os.path.join(tmp, f"job_{ci}"), exist_ok=True)
            job_files.append(os.path.join(tmp, f"job_{ci}", "distance_matrix.h5"))
        single = os.path.join(tmp, "distance_matrix_single.h5")
        for out, n_chunks, ci in [(single, 1, 0)] + [(job_files[ci], 3, ci) for ci in range(3)]:
            sys.argv = ["calculate_distance_matrix", "--distance-metric", "MSEDistance", "--n-chunks", str(n_chunks), "--chunk-index", str(ci),
                        "--data", data_fn, "--thetas", one_fn, "--output", out]
            try:
                CLI.main()
            finally:
                sys.argv = argv0

        def scores_with(files):
            out = os.path.join(tmp, "consumer_scores.h5")
            if os.path.exists(out):
                os.unlink(out)
            sys.argv = ["calculate_scores", "--data", data_fn, "--thetas", one_fn, "--distance-matrix", *files, "--scorer", "GaussianDBALScorer",
                        "--n-chunks", "1", "--chunk-index", "0", "--output", out, "--seed", "3"]
            try:
                SCORES.main()
            finally:
                sys.argv = argv0
            h = ChunkedScoresHolder.load_h5(out)
            k = int(h.current_index)
            order = np.argsort(np.asarray(h.plate_ids[:k]), kind="stable")
            return np.asarray(h.plate_ids[:k])[order].tolist(), np.asarray(h.scores[:k], dtype=float)[order].tolist()

        try:
            want_scores = scores_with([single])
        except BaseException as exc:  # noqa: BLE001
            want_scores = None
            col.count("consumer_reference_failed")
        if want_scores is not None:
            for seq in ([0, 1, 2], [2, 1, 0], [1, 2, 0], [1, 0, 2, 1], [2, 2, 0, 1]):
                case = {"kind": "cli", "config": "consumer", "thetas": "one-file", "n_chunks": 3, "seq": seq}
                col.evaluations += 1
                col.states += 1
                col.transitions += len(seq) + 1
                try:
                    got_scores = scores_with([job_files[ci] for ci in seq])
                except BaseException as exc:  # noqa: BLE001
                    col.violation(f"{PROP}|consumer|raised", f"calculate_scores given the complete chunk files job_<i>/distance_matrix.h5 in order {seq} failed: {short_exc(exc)}", case)
                    continue
                col.nontriv("cli", "consumer", tuple(seq))
                col.outcome("consumer", tuple(got_scores[0]))
                if got_scores[0] != want_scores[0] or any(not close(x, y) for x, y in zip(got_scores[1], want_scores[1])):
                    col.violation(f"{PROP}|consumer|other-matrix", f"calculate_scores on the chunk files in order {seq} gives scores {got_scores}, on the single-chunk file {want_scores}", case)
        col.sample({"cli": {"n_thetas": 4, "configs": ["distinct", "zero-at-(2,0)"], "theta_files": ["one", "two", "two named chain_9, chain_10 (given order != sorted order)"],
                            "reference_lower_triangle_last_config": [a[i, j] for i in range(4) for j in range(i)]}})
    finally:
        sys.argv = argv0
        shutil.rmtree(tmp, ignore_errors=True)


# ------------------------------------------------------------------ contract
def _tier(tier):
    if tier == "quick":
        return dict(part_n=8, asm_n=5, asm_chunks=4, dens_n=4, alphabet=[-1.5, 0.0, 2.0], cli_chunks=3)
    return dict(part_n=20, asm_n=6, asm_chunks=5, dens_n=5, alphabet=[-1.5, 0.0, 2.0, 40.0], cli_chunks=4)


def _repeats(tier, n_chunks):
    if tier == "thorough" and n_chunks <= 3:
        return 2
    return 1


def plan(tier, seed):
    t = _tier(tier)
    items = [{"kind": "cli", "max_chunks": t["cli_chunks"]}]
    small = [n for n in range(0, t["part_n"] + 1) if n <= 8]
    items.append({"kind": "partition", "ns": small})
    for n in range(9, t["part_n"] + 1):
        items.append({"kind": "partition", "ns": [n]})
    # sparse probes far above the exhaustive range (production sizes: 100-1000 posterior samples, 50 chunks)
    items.append({"kind": "partition-sparse", "cases": [[33, c] for c in (1, 2, 7, 32, 33, 34, 50, 527, 528, 529)] +
                  [[100, c] for c in (1, 3, 50, 99, 100, 101, 4949, 4950, 4951)] + [[300, c] for c in (50, 299, 301)]})
    items.append({"kind": "assemble-sparse", "n": 300, "n_chunks": 300, "chunks": [0, 1, 150, 218, 299]})
    items.append({"kind": "metric", "alphabet": t["alphabet"], "max_len": 3})
    items.append({"kind": "densify", "ns": list(range(0, t["dens_n"] + 1))})
    for n in range(0, t["asm_n"] + 1):
        for metric in METRICS:
            for pname, groups in patterns_for(n):
                if tier == "quick" and metric == "pair-stub" and pname not in ("distinct", "first-two-identical"):
                    continue  # quick tier: the stub metric only where it adds sensitivity
                light = [c for c in range(1, t["asm_chunks"] + 1) if c <= 3]
                items.append({"kind": "assemble", "n": n, "metric": metric, "pattern": pname, "groups": groups, "chunks": light})
                for c in range(4, t["asm_chunks"] + 1):
                    if n <= 2 and (c >= 5 or tier == "quick"):
                        continue  # at most one pair: nothing but empty chunk files to permute (covered by smaller n_chunks)
                    firsts = [None] if c < 5 else list(range(c + 1))  # split the big trees by the repeated chunk
                    for first in firsts:
                        items.append({"kind": "assemble", "n": n, "metric": metric, "pattern": pname, "groups": groups,
                                      "chunks": [c], "first": first})
    return items


def run_item(item, col, tier):
    kind = item["kind"]
    if kind == "partition-sparse":
        for n, n_chunks in item["cases"]:
            check_partition(col, n, n_chunks)
    elif kind == "partition":
        for n in item["ns"]:
            pairs = n * (n - 1) // 2
            for n_chunks in range(1, pairs + 3):
                check_partition(col, n, n_chunks)
    elif kind == "assemble":
        for c in item["chunks"]:
            run_assemble(col, item["n"], item["metric"], item["pattern"], item["groups"], c, _repeats(tier, c), item.get("first"))
    elif kind == "densify":
        for n in item["ns"]:
            for zero in (False, True):
                check_densify(col, n, zero)
    elif kind == "metric":
        check_metric(col, item["alphabet"], item["max_len"])
    elif kind == "cli":
        run_cli(col, item["max_chunks"])
    elif kind == "assemble-sparse":
        run_assemble_sparse(col, item["n"], item["n_chunks"], item["chunks"])
    else:
        raise ValueError(kind)


def replay(case, col):
    kind = case["kind"]
    if kind == "assemble-sparse":
        run_assemble_sparse(col, case["n"], case["n_chunks"], [case["chunk"]])
        return
    if kind == "partition":
        check_partition(col, case["n"], case["n_chunks"])
    elif kind == "assemble":
        tmp = env.scratch_dir("c07r")
        try:
            asm = Assembly(col, case["groups"], case["metric"], case["n_chunks"], tmp)
            if asm.ok and case.get("seq") is not None:
                asm.run_sequence(case["seq"])
        finally:
            shutil.rmtree(tmp, ignore_errors=True)
    elif kind == "densify":
        densify_case(col, case["n"], case["subset"], case["zero_values"])
    elif kind == "metric":
        metric_case(col, case["sigmoid"], case["a"], case["b"])
    elif kind == "cli":
        run_cli(col, case["n_chunks"])
    else:
        raise ValueError(case)
