"""C20  Evaluation metrics and synergy values equal their definitions.

Bounded-exhaustive input enumeration (E1).  Six families of inputs, each decided by a
plain-python loop re-computation derived from the property statement:

  metrics   ModelEvaluation.mse / mse_variance / inter_chain_mse_variance / mean_predictions
  h5        ModelEvaluation.save_h5 / load_h5 (bit-for-bit reload)
  effects   create_single_treatment_effect_map / _array            (arity 2 and 3)
  synergy   calculate_synergy, lenient and strict                  (arity 2, >= 1 non-control id per row)
  cmse      retrospective.calculate_mse
  corr      generate_full_combinatoric_space / correlation_matrix  (recording stub thetas)
"""
import itertools
import math
import os
import shutil

import numpy as np

from .. import env

env.setup()

from ..core import short_exc, floats  # noqa: E402
from ..screens import make_screen  # noqa: E402

from batchie.core import ThetaHolder  # noqa: E402
from batchie.data import (  # noqa: E402
    Screen,
    create_single_treatment_effect_array,
    create_single_treatment_effect_map,
)
from batchie.models.main import (  # noqa: E402
    ModelEvaluation,
    correlation_matrix,
    generate_full_combinatoric_space,
)
from batchie.retrospective import calculate_mse  # noqa: E402
from batchie.synergy import calculate_synergy  # noqa: E402

PROP = "C20"
LEVEL = "model_checking"
ENGINE = "E1-input-enumeration"
TECHNIQUE = "bounded-exhaustive input enumeration against loop re-computations of the stated definitions"
LEVEL_TEXT = (
    "every input of the stated bounded spaces is run through the real functions and compared with a "
    "plain-python loop evaluation of the definition in the property statement (rtol=atol=1e-9; reload bit-for-bit)"
)
RULE = (
    "metrics: every prediction matrix (E<=3 x T<=4) x observation vector x chain labelling (all set partitions of "
    "the T draws under a contiguous and a non-contiguous/non-monotone label map) - complete over {0,.5,1} for "
    "E*T<=6, binary/graded above; h5: every shape x labelling x sample-name menu; effects/synergy: every id array "
    "of <= N rows over sample {0,1} x ids {-1,0,1}^arity with graded distinct observations; cmse: every prediction "
    "table over {0,.5,1} on 1-3 row screens x 1-3 stub thetas; corr: stub prediction tables (complete over the "
    "alphabet for the small shapes, graded families otherwise) on 7 screen shapes.  Non-trivial = the input "
    "separates the definition from a near miss: a non-zero variance across experiments or across chains (metrics), a repeated single-agent "
    "measurement or control in the first column (effects), a produced synergy value or a refusal/skip (synergy), "
    ">=2 thetas with different predictions (cmse), >=2 non-constant rows (corr); counted per distinct input "
    "(metrics: per distinct (predictions, observations) pair)"
)
BOUNDS = {
    "quick": {
        "metrics": "E<=3, T<=4; {0,.5,1} complete for E*T<=6; (2,4),(3,3): binary predictions x {0,.5,1} observations; "
                   "(3,4): binary predictions x 1 graded observation vector x partitions under one label map",
        "h5": "12 shapes x all labellings x 4 sample-name menus, graded distinct values",
        "effects": "arity 2: <=3 rows (6174 arrays); arity 3: <=3 rows (160434 arrays); 1 observation vector; arity 2 again under 5 non-contiguous (treatment id, sample id) relabellings, and ids {-1,0,1,3} / {-1,4,0,2} with 3 rows",
        "synergy": "arity 2, ids {-1,0,1}: <=3 rows (4368 arrays) x strict/lenient",
        "screen_effects": "2 live screens x every non-empty union of unobserved plates filled in by set_observed x effects read before or not, through the screen and every plate view",
        "cmse": "E<=3 rows, T<=3 thetas, E*T<=6, predictions and observations over {0,.5,1}",
        "corr": "K1 (2 samples, 3 mapping rows): {0,1}^6 tables; K2 (3 samples): {0,1}^9 tables; K2..K7 (repeated drug name, no control, arity 3, custom non-sorted mappings with an absent sample and an unused treatment, two control rows): 6 graded tables x T in 1..3; generate_full_combinatoric_space on every shape x sample; K2/K3/K6 graded tables rescaled by 1e-7, 1e-8, 1e6",
    },
    "thorough": {
        "metrics": "E<=3, T<=4; {0,.5,1} complete for E*T<=6 and for (2,4); (3,3): {0,.5,1} predictions x {0,.5,1} "
                   "observations; (3,4): binary predictions x {0,.5,1} observations; all labellings",
        "h5": "12 shapes x all labellings x 4 sample-name menus, graded values and a special-value menu (-0.0, denormal, 1e300, inf, nan)",
        "effects": "arity 2: <=4 rows (111150 arrays); arity 3: <=3 rows, and 4 rows over ids {-1,0}; 2 observation vectors; non-contiguous relabellings as quick",
        "synergy": "arity 2, ids {-1,0,1}: <=4 rows (69904 arrays); ids {-1,0,1,2}: <=3 rows; x strict/lenient; 2 observation vectors",
        "cmse": "E<=3 rows, T<=3 thetas, E*T<=9 (E*T=9 binary), predictions and observations over {0,.5,1}",
        "corr": "K1: {0,.5,1}^6 tables x T in 1..2; K2: {0,.5,1}^9 tables; K2..K7: 24 graded tables x T in 1..3; generate_full_combinatoric_space on every shape x sample",
    },
}
ASSUMPTIONS = [
    "'variance' in the statement does not name the normalisation: the population (ddof=0) and the sample (ddof=1) "
    "variance are both accepted (for a single term: 0 or NaN)",
    "calculate_mse is not defined separately by the statement: both readings are accepted - MSE of the "
    "posterior-mean prediction (its docstring) and MSE over all (experiment, theta) pairs; they coincide for one theta",
    "single-agent effects: a (sample, treatment) without any single-agent measurement has no defined effect; what "
    "the map / array contain there is a don't-care (a KeyError from the array function is a refusal); the skip / "
    "refuse behaviour is judged on calculate_synergy, where the statement demands it",
    "synergy: order of the returned rows and order of the two ids within a returned row are don't-cares "
    "(compared as a multiset keyed on (sample, sorted ids)); only arity 2 with >= 1 non-control id per row is judged",
    "correlation matrix: rows/columns are addressed by their sample-name labels; entries that involve a sample whose "
    "centred prediction vector is zero (norm < 1e-9) are don't-cares (NaN in the code); the order in which the "
    "combinations are asked is a don't-care (multiset of (sample id, sorted ids) per call)",
    "ModelEvaluation inputs have E >= 1 experiments and T >= 1 draws (the MSE of an empty set is undefined)",
    "numpy's float64 arithmetic, h5py and pandas are trusted; values outside the stated alphabets are not claimed",
]

TOL = 1e-9
CTL = -1


# ======================================================================= helpers
def close(a, b, tol=TOL):
    a = float(a)
    b = float(b)
    if math.isnan(a) or math.isnan(b):
        return math.isnan(a) and math.isnan(b)
    if math.isinf(a) or math.isinf(b):
        return a == b
    return abs(a - b) <= tol + tol * abs(b)


def close_any(a, options):
    return any(close(a, b) for b in options)


def rgs(n):
    """All restricted-growth strings of length n (= set partitions of n labelled draws)."""
    out = []

    def rec(prefix, mx):
        if len(prefix) == n:
            out.append(tuple(prefix))
            return
        for v in range(mx + 2):
            rec(prefix + [v], max(mx, v))

    rec([], -1)
    return out


LABEL_MAPS = {"contiguous": [0, 1, 2, 3], "scattered": [7, 3, 12, 5]}


def labellings(T, maps=("contiguous", "scattered")):
    out = []
    for part in rgs(T):
        for m in maps:
            out.append([LABEL_MAPS[m][v] for v in part])
    return out


def var_options(xs):
    """Population and sample variance of a python list (loop evaluation)."""
    n = len(xs)
    m = 0.0
    for x in xs:
        m += x
    m /= n
    ss = 0.0
    for x in xs:
        ss += (x - m) * (x - m)
    opts = [ss / n]
    opts.append(ss / (n - 1) if n > 1 else float("nan"))
    return opts


# ======================================================================= family: metrics
def ref_sqerr(pred, obs):
    return [[(pred[e][t] - obs[e]) ** 2 for t in range(len(pred[e]))] for e in range(len(pred))]


def ref_mse(sq):
    tot = 0.0
    n = 0
    for row in sq:
        for v in row:
            tot += v
            n += 1
    return tot / n


def ref_per_experiment(sq):
    out = []
    for row in sq:
        s = 0.0
        for v in row:
            s += v
        out.append(s / len(row))
    return out


def ref_chain_mses(sq, chain):
    out = []
    for lab in sorted(set(chain)):
        tot = 0.0
        n = 0
        for row in sq:
            for t, v in enumerate(row):
                if chain[t] == lab:
                    tot += v
                    n += 1
        out.append(tot / n)
    return out


def ref_mean_predictions(pred):
    out = []
    for row in pred:
        s = 0.0
        for v in row:
            s += v
        out.append(s / len(row))
    return out


def _names(E):
    return np.array([f"s{e % 2}" for e in range(E)], dtype=str)


def check_metrics(pred, obs, chains, col, record=True, case=None):
    """One (pred, obs) pair against every chain labelling in `chains`."""
    E, T = len(pred), len(pred[0])
    P = np.array(pred, dtype=float).reshape(E, T)
    O = np.array(obs, dtype=float)
    names = _names(E)
    sq = ref_sqerr(pred, obs)
    want_mse = ref_mse(sq)
    want_var = var_options(ref_per_experiment(sq))
    want_mean = ref_mean_predictions(pred)
    base_case = case if case is not None else {"fam": "metrics", "pred": pred, "obs": obs}
    pred_show, obs_show = (pred, obs) if case is None else (f"<{E} x {T} graded predictions>", f"<{E} graded observations>")
    me = ModelEvaluation(predictions=P, observations=O, chain_ids=np.array(chains[0], dtype=int), sample_names=names)
    got_mse = me.mse()
    got_var = me.mse_variance()
    got_mean = me.mean_predictions
    col.evaluations += 3
    col.transitions += 3
    case0 = dict(base_case, chain=chains[0])
    if not close(got_mse, want_mse):
        col.violation("C20|mse|value", f"mse()={float(got_mse)!r}, mean over all (experiment, draw) pairs is {want_mse!r}; pred={pred_show} obs={obs_show}", case0)
    if not close_any(got_var, want_var):
        col.violation("C20|mse_variance|value", f"mse_variance()={float(got_var)!r}, variance across experiments of the per-experiment MSE is {want_var[0]!r}; pred={pred_show} obs={obs_show}", case0)
    gm = np.asarray(got_mean, dtype=float)
    if gm.shape != (E,) or not all(close(gm[e], want_mean[e]) for e in range(E)):
        col.violation("C20|mean_predictions|value", f"mean_predictions={gm.tolist()}, average over draws is {want_mean}; pred={pred_show}", case0)
    separating = want_var[0] > 0
    for chain in chains:
        col.states += 1
        if chain is not chains[0]:
            me = ModelEvaluation(predictions=P, observations=O, chain_ids=np.array(chain, dtype=int), sample_names=names)
        got = me.inter_chain_mse_variance()
        col.evaluations += 1
        col.transitions += 1
        cm = ref_chain_mses(sq, chain)
        want = var_options(cm)
        if not close_any(got, want):
            col.violation("C20|inter_chain|value", f"inter_chain_mse_variance()={float(got)!r}, variance of the per-chain MSEs {cm} is {want[0]!r}; pred={pred_show} obs={obs_show} chain={chain}", dict(base_case, chain=chain))
        if want[0] > 0:
            separating = True
        if record:
            col.outcome("metrics", round(float(got_mse), 9), round(float(got_var), 9), round(float(got), 9))
    # the same object asked again, in another order (a value cached on the object must not change any answer), and the
    # arrays it was built from must be untouched
    again = (me.mean_predictions, me.inter_chain_mse_variance(), me.mse_variance(), me.mse(), me.inter_chain_mse_variance())
    col.evaluations += 5
    first = (got_mean, got, got_var, got_mse, got)
    for name, a_, b_ in zip(("mean_predictions", "inter_chain_mse_variance", "mse_variance", "mse", "inter_chain_mse_variance"), first, again):
        if not np.array_equal(np.asarray(a_, dtype=float), np.asarray(b_, dtype=float), equal_nan=True):
            col.violation(f"C20|{name}|changes-when-asked-again", f"{name} answered {np.asarray(a_).tolist()} first and {np.asarray(b_).tolist()} when the same ModelEvaluation was asked again; pred={pred_show} obs={obs_show}", dict(base_case, chain=chains[-1]))
    if not (np.array_equal(P, np.array(pred, dtype=float).reshape(E, T)) and np.array_equal(O, np.array(obs, dtype=float), equal_nan=True)):
        col.violation("C20|metrics|inputs-mutated", f"computing the metrics changed the prediction / observation arrays; pred={pred_show} obs={obs_show}", case0)
    if record and separating:
        col.nontriv("metrics", pred, obs)


GRADED_OBS3 = [0.25, 0.75, 0.5]


def metrics_plan(tier):
    items = []
    full = [(1, 1), (1, 2), (1, 3), (1, 4), (2, 1), (2, 2), (2, 3), (3, 1), (3, 2)]
    for E, T in full:
        n_obs = 3 ** E
        if 3 ** (E * T) * n_obs * len(labellings(T)) <= 8000:
            items.append({"fam": "metrics", "E": E, "T": T, "palpha": 3, "oalpha": 3, "obs_idx": None, "maps": 2})
        else:
            for oi in range(n_obs):
                items.append({"fam": "metrics", "E": E, "T": T, "palpha": 3, "oalpha": 3, "obs_idx": oi, "maps": 2})
    if tier == "quick":
        for oi in range(9):
            items.append({"fam": "metrics", "E": 2, "T": 4, "palpha": 2, "oalpha": 3, "obs_idx": oi, "maps": 2})
        for oi in range(27):
            items.append({"fam": "metrics", "E": 3, "T": 3, "palpha": 2, "oalpha": 3, "obs_idx": oi, "maps": 2})
        for ch in range(4):
            items.append({"fam": "metrics", "E": 3, "T": 4, "palpha": 2, "oalpha": 0, "obs_idx": None, "maps": 1, "chunk": [ch, 4]})
    else:
        for oi in range(9):
            for ch in range(9):
                items.append({"fam": "metrics", "E": 2, "T": 4, "palpha": 3, "oalpha": 3, "obs_idx": oi, "maps": 2, "chunk": [ch, 9]})
        for oi in range(27):
            for ch in range(9):
                items.append({"fam": "metrics", "E": 3, "T": 3, "palpha": 3, "oalpha": 3, "obs_idx": oi, "maps": 2, "chunk": [ch, 9]})
        for oi in range(27):
            for ch in range(4):
                items.append({"fam": "metrics", "E": 3, "T": 4, "palpha": 2, "oalpha": 3, "obs_idx": oi, "maps": 2, "chunk": [ch, 4]})
    return items


ALPHA = {2: [0.0, 1.0], 3: [0.0, 0.5, 1.0]}


def metrics_run(item, col):
    E, T = item["E"], item["T"]
    maps = ("contiguous", "scattered") if item["maps"] == 2 else ("scattered",)
    chains = labellings(T, maps)
    if item["oalpha"] == 0:
        obs_list = [GRADED_OBS3[:E]]
    else:
        obs_list = [list(o) for o in itertools.product(ALPHA[item["oalpha"]], repeat=E)]
        if item["obs_idx"] is not None:
            obs_list = [obs_list[item["obs_idx"]]]
    pa = ALPHA[item["palpha"]]
    chunk = item.get("chunk")
    for obs in obs_list:
        for idx, flat in enumerate(itertools.product(pa, repeat=E * T)):
            if chunk and idx % chunk[1] != chunk[0]:
                continue
            pred = [list(flat[e * T:(e + 1) * T]) for e in range(E)]
            check_metrics(pred, obs, chains, col)
            if idx == len(pa) ** (E * T) // 2 + (chunk[0] if chunk else 0):
                col.sample({"fam": "metrics", "pred": pred, "obs": obs, "chains": len(chains)})


# ======================================================================= family: h5
NAME_MENUS = [
    ["s0", "s1", "s2"],
    ["a", "a", "b"],
    ["é", "β2", "s"],
    ["x", "a-much-longer-sample-name", "y z"],
]
SPECIAL = [-0.0, 5e-324, 1e300, float("inf"), float("nan"), -1.5, 0.1, 1.0 / 3.0, 2.0 ** -40, 0.0, 1.0, -float("inf")]


def graded_pred(E, T, menu="graded"):
    if menu == "graded":
        return [[round(0.1 * (e + 1) + 0.013 * (t + 1) * (t + 2), 6) for t in range(T)] for e in range(E)]
    return [[SPECIAL[(e * T + t) % len(SPECIAL)] for t in range(T)] for e in range(E)]


def graded_obs(E, menu="graded"):
    if menu == "graded":
        return [round(0.9 - 0.27 * e, 6) for e in range(E)]
    return [SPECIAL[(3 + 5 * e) % len(SPECIAL)] for e in range(E)]


def same_bits(a, b):
    a = np.ascontiguousarray(np.asarray(a))
    b = np.ascontiguousarray(np.asarray(b))
    return a.shape == b.shape and a.dtype == b.dtype and a.tobytes() == b.tobytes()


def check_h5(case, col, tmp):
    pred = floats(case["pred"])
    obs = floats(case["obs"])
    chain = case["chain"]
    names = case["names"]
    E, T = len(pred), len(pred[0])
    P = np.array(pred, dtype=float).reshape(E, T)
    O = np.array(obs, dtype=float)
    C = np.array(chain, dtype=int)
    N = np.array(names, dtype=str)
    me = ModelEvaluation(predictions=P, observations=O, chain_ids=C, sample_names=N)
    fn = os.path.join(tmp, "eval.h5")
    if os.path.exists(fn):
        os.unlink(fn)
    col.states += 1
    col.evaluations += 2
    col.transitions += 2
    try:
        me.save_h5(fn)
        back = ModelEvaluation.load_h5(fn)
    except Exception as exc:  # noqa: BLE001 - the statement demands that the file reloads
        col.violation("C20|h5|raised", f"save_h5/load_h5 raised {short_exc(exc)} for names={names} shape=({E},{T})", case)
        col.outcome("h5", "raised", type(exc).__name__)
        return
    ok = True
    if not same_bits(back.predictions, P):
        ok = False
        col.violation("C20|h5|predictions", f"predictions changed through save/load: {np.asarray(back.predictions).tolist()} vs {pred}", case)
    if not same_bits(back.observations, O):
        ok = False
        col.violation("C20|h5|observations", f"observations changed through save/load: {np.asarray(back.observations).tolist()} vs {obs}", case)
    bc = np.asarray(back.chain_ids)
    if bc.shape != C.shape or bc.dtype.kind not in "iu" or [int(x) for x in bc] != [int(x) for x in C]:
        ok = False
        col.violation("C20|h5|chain_ids", f"chain ids changed through save/load: {bc.tolist()} vs {chain}", case)
    bn = np.asarray(back.sample_names)
    if bn.shape != N.shape or [str(x) for x in bn] != [str(x) for x in N]:
        ok = False
        col.violation("C20|h5|sample_names", f"sample names changed through save/load: {bn.tolist()} vs {names}", case)
    if ok and case.get("menu") == "graded":
        # the reloaded object reports the same metrics
        for name in ("mse", "mse_variance", "inter_chain_mse_variance"):
            a, b = getattr(me, name)(), getattr(back, name)()
            col.evaluations += 2
            col.transitions += 2
            if not (a == b or (math.isnan(a) and math.isnan(b))):
                col.violation("C20|h5|metric-after-reload", f"{name} differs after reload: {a!r} vs {b!r}", case)
    if len(set(names)) < len(names) or any(ord(ch) > 127 for n in names for ch in n) or len(set(chain)) > 1:
        col.nontriv("h5", pred, obs, chain, names)
    col.outcome("h5", np.asarray(back.predictions).tobytes(), np.asarray(back.observations).tobytes(), bc.tolist(), bn.tolist())


def h5_plan(tier):
    items = []
    menus = ["graded"] if tier == "quick" else ["graded", "special"]
    for menu in menus:
        for E in (1, 2, 3):
            for T in (1, 2, 3, 4):
                items.append({"fam": "h5", "E": E, "T": T, "menu": menu})
    return items


def h5_cases(item):
    E, T, menu = item["E"], item["T"], item["menu"]
    for chain in labellings(T):
        for names in NAME_MENUS:
            yield {"fam": "h5", "pred": graded_pred(E, T, menu), "obs": graded_obs(E, menu), "chain": chain,
                   "names": names[:E], "menu": menu}


def h5_run(item, col):
    tmp = env.scratch_dir("c20")
    try:
        for i, case in enumerate(h5_cases(item)):
            check_h5(case, col, tmp)
            if i == 5:
                col.sample(case)
    finally:
        shutil.rmtree(tmp, ignore_errors=True)


# ======================================================================= family: effects
# the last two make single-agent effects whose mean is exactly 0.0 (a complete kill) at every position
OBS_VECTORS = [[0.5, 0.2, 0.9, 0.35], [0.0, 1.5, 0.25, 0.25], [0.0, 0.0, 0.7, 0.0], [0.6, 0.0, 0.0, 0.0]]


def ref_effects(samples, ids):
    """{(sample, treatment): [observation indices of the single-agent measurements]}"""
    meas = {}
    for i, (s, row) in enumerate(zip(samples, ids)):
        non = [t for t in row if t != CTL]
        if len(non) == 1:  # all but one id are control
            meas.setdefault((s, non[0]), []).append(i)
    return meas


def ref_effect_value(meas, obs, s, t):
    """Effect of (s, t): 1 for control, mean of the measurements, None when unmeasured."""
    if t == CTL:
        return 1.0
    idx = meas.get((s, t))
    if not idx:
        return None
    tot = 0.0
    for i in idx:
        tot += obs[i]
    return tot / len(idx)


def check_effects(case, col, record=True):
    samples, ids, obs = case["samples"], case["ids"], case["obs"]
    n = len(samples)
    S = np.array(samples, dtype=int)
    I = np.array(ids, dtype=int).reshape(n, -1)
    O = np.array(obs, dtype=float)
    meas = ref_effects(samples, ids)
    col.states += 1
    col.evaluations += 1
    col.transitions += 1
    emap = create_single_treatment_effect_map(sample_ids=S, treatment_ids=I, observation=O)
    got = {(int(k[0]), int(k[1])): float(v) for k, v in emap.items()}
    for s in sorted(set(samples)):
        for t in sorted({t for row in ids for t in row}):
            want = ref_effect_value(meas, obs, s, t)
            if want is None:
                continue  # unmeasured: don't-care
            if (s, t) not in got:
                needed = t != CTL or any(ss == s and CTL in row for ss, row in zip(samples, ids))
                if needed:
                    col.violation(f"C20|effect_map|{'control' if t == CTL else 'missing-key'}",
                                  f"effect map has no entry for sample {s}, treatment {t} although its effect is {want!r}; samples={samples} ids={ids} obs={obs}", case)
                continue
            if not close(got[(s, t)], want):
                col.violation(f"C20|effect_map|{'control' if t == CTL else 'value'}",
                              f"effect of (sample {s}, treatment {t}) is {got[(s, t)]!r}, expected {want!r} "
                              f"({'control' if t == CTL else 'mean of observations ' + str([obs[i] for i in meas[(s, t)]])}); samples={samples} ids={ids} obs={obs}", case)
    # array == per-entry effect
    col.evaluations += 1
    col.transitions += 1
    complete = all(ref_effect_value(meas, obs, s, t) is not None for s, row in zip(samples, ids) for t in row)
    try:
        arr = create_single_treatment_effect_array(sample_ids=S, treatment_ids=I, observation=O)
    except KeyError:
        col.refused += 1
        if complete:
            col.violation("C20|effect_array|refused-complete", f"effect array raised KeyError although every effect is measured; samples={samples} ids={ids}", case)
        if record:
            col.outcome("effects", tuple(sorted(got.items())), "KeyError")
        arr = None
    if arr is not None:
        arr = np.asarray(arr, dtype=float)
        if arr.shape != I.shape:
            col.violation("C20|effect_array|shape", f"effect array has shape {arr.shape}, ids have {I.shape}", case)
        else:
            for i in range(n):
                for j, t in enumerate(ids[i]):
                    want = ref_effect_value(meas, obs, samples[i], t)
                    if want is None:
                        continue
                    if not close(arr[i, j], want):
                        col.violation("C20|effect_array|value", f"effect array [{i},{j}] (sample {samples[i]}, treatment {t}) is {arr[i, j]!r}, expected {want!r}; samples={samples} ids={ids} obs={obs}", case)
        if record:
            col.outcome("effects", tuple(sorted(got.items())), arr.tobytes())
    if record:
        repeated = any(len(v) > 1 for v in meas.values())
        ctl_first = any(row[0] == CTL and sum(1 for t in row if t != CTL) == 1 for row in ids)
        if repeated or ctl_first:
            col.nontriv("effects", samples, ids, obs)


def row_options(arity, alphabet, synergy=False):
    out = []
    for s in (0, 1):
        for row in itertools.product(alphabet, repeat=arity):
            if synergy and all(t == CTL for t in row):
                continue
            out.append((s, list(row)))
    return out


def effects_plan(tier):
    items = []
    nobs = 1 if tier == "quick" else len(OBS_VECTORS)
    specs = [(2, [-1, 0, 1], 3 if tier == "quick" else 4), (3, [-1, 0, 1], 3)]
    if tier == "thorough":
        specs.append((3, [-1, 0], 4))
    for arity, alpha, maxrows in specs:
        nopt = len(row_options(arity, alpha))
        for n in range(1, maxrows + 1):
            if arity == 3 and alpha == [-1, 0] and n < 4:
                continue
            for ov in range(nobs):
                if nopt ** n <= 4000:
                    items.append({"fam": "effects", "arity": arity, "alpha": alpha, "rows": n, "first": None, "obs": ov})
                elif nopt ** (n - 1) <= 12000:
                    for f in range(nopt):
                        items.append({"fam": "effects", "arity": arity, "alpha": alpha, "rows": n, "first": [f], "obs": ov})
                else:
                    for f in range(nopt):
                        for g in range(nopt):
                            items.append({"fam": "effects", "arity": arity, "alpha": alpha, "rows": n, "first": [f, g], "obs": ov})
    # the same enumeration with ids that are NOT the contiguous range 0..n-1 (a plate subset, a screen encoded against a
    # larger experiment space): gaps, not starting at 0, descending; and sample ids with a gap
    for idmap, smap in (([0, 2], [0, 1]), ([1, 3], [0, 1]), ([5, 2], [0, 1]), ([0, 1], [1, 3]), ([0, 3], [2, 0])):
        for n in (1, 2, 3):
            items.append({"fam": "effects", "arity": 2, "alpha": [-1, 0, 1], "rows": n, "first": None, "obs": 0, "idmap": idmap, "smap": smap})
    for idmap in ([0, 1, 3], [4, 0, 2]):
        nopt = len(row_options(2, [-1, 0, 1, 2]))
        for f in range(nopt):
            items.append({"fam": "effects", "arity": 2, "alpha": [-1, 0, 1, 2], "rows": 3, "first": [f], "obs": 0, "idmap": idmap, "smap": [0, 1]})
    return items


def id_arrays(item, synergy=False):
    opts = row_options(item["arity"], item["alpha"], synergy=synergy)
    n = item["rows"]
    first = item["first"] or []
    head = [opts[f] for f in first]
    idmap, smap = item.get("idmap"), item.get("smap")
    for rest in itertools.product(opts, repeat=n - len(head)):
        rows = head + list(rest)
        if idmap is None:
            yield [r[0] for r in rows], [r[1] for r in rows]
        else:
            yield [smap[r[0]] for r in rows], [[t if t == CTL else idmap[t] for t in r[1]] for r in rows]


def effects_run(item, col):
    obs_full = OBS_VECTORS[item["obs"]]
    for k, (samples, ids) in enumerate(id_arrays(item)):
        case = {"fam": "effects", "samples": samples, "ids": ids, "obs": obs_full[:len(samples)]}
        check_effects(case, col)
        if k == 7:
            col.sample(case)


# ======================================================================= family: synergy
def ref_synergy(samples, ids, obs):
    """-> (list of (sample, sorted ids, synergy), any_missing)"""
    meas = ref_effects(samples, ids)
    out = []
    missing = False
    for i, (s, row) in enumerate(zip(samples, ids)):
        non = [t for t in row if t != CTL]
        if len(non) == 1:
            continue  # a single-agent measurement, not a combination
        prod = 1.0
        ok = True
        for t in non:
            e = ref_effect_value(meas, obs, s, t)
            if e is None:
                ok = False
                break
            prod *= e
        if not ok:
            missing = True
            continue
        out.append((s, tuple(sorted(non)), prod - obs[i]))
    return out, missing


def _canon_synergy(res):
    rs, rt, rv = res
    rs = np.asarray(rs)
    rv = np.asarray(rv, dtype=float)
    rt = np.asarray(rt)
    if not (len(rs) == len(rt) == len(rv)):
        return None
    out = []
    for i in range(len(rs)):
        out.append((int(rs[i]), tuple(sorted(int(x) for x in np.atleast_1d(rt[i]))), float(rv[i])))
    return out


def _match(got, want):
    """Multiset comparison keyed on (sample, sorted ids), values within tolerance."""
    if len(got) != len(want):
        return False
    g = sorted(got)
    w = sorted(want)
    for a, b in zip(g, w):
        if a[0] != b[0] or a[1] != b[1] or not close(a[2], b[2]):
            # sorting by value may interleave near-equal values of the same key: fall back to greedy matching
            return _greedy(got, want)
    return True


def _greedy(got, want):
    left = list(want)
    for a in got:
        for k, b in enumerate(left):
            if a[0] == b[0] and a[1] == b[1] and close(a[2], b[2]):
                del left[k]
                break
        else:
            return False
    return not left


def check_synergy(case, col, record=True):
    samples, ids, obs = case["samples"], case["ids"], case["obs"]
    n = len(samples)
    S = np.array(samples, dtype=int)
    I = np.array(ids, dtype=int).reshape(n, 2)
    O = np.array(obs, dtype=float)
    want, missing = ref_synergy(samples, ids, obs)
    col.states += 1
    desc = f"samples={samples} ids={ids} obs={obs}"
    # lenient
    col.evaluations += 1
    col.transitions += 1
    try:
        got = _canon_synergy(calculate_synergy(S, I, O, strict=False))
    except Exception as exc:  # noqa: BLE001 - inside the stated shape the lenient mode must answer
        col.violation("C20|synergy|lenient|raised", f"lenient calculate_synergy raised {short_exc(exc)}; {desc}", case)
        got = "raised"
    if got is None:
        col.violation("C20|synergy|lenient|ragged", f"lenient calculate_synergy returned arrays of different lengths; {desc}", case)
    elif got != "raised" and not _match(got, want):
        sig = "C20|synergy|lenient|value" if len(got) == len(want) else "C20|synergy|lenient|skip"
        col.violation(sig, f"lenient synergy returned {got}, product of single-agent effects minus observation gives {want} "
                           f"(combinations lacking a measurement skipped: {missing}); {desc}", case)
    # strict
    col.evaluations += 1
    col.transitions += 1
    try:
        gots = _canon_synergy(calculate_synergy(S, I, O, strict=True))
        raised = None
    except Exception as exc:  # noqa: BLE001
        gots = None
        raised = exc
    if raised is not None:
        col.refused += 1
        if not missing:
            col.violation("C20|synergy|strict|refused-complete", f"strict calculate_synergy raised {short_exc(raised)} although every combination has its single-agent measurements; {desc}", case)
    else:
        if missing:
            col.violation("C20|synergy|strict|not-refused", f"strict calculate_synergy returned {gots} although a combination lacks a single-agent measurement; {desc}", case)
        elif gots is None or not _match(gots, want):
            col.violation("C20|synergy|strict|value", f"strict synergy returned {gots}, expected {want}; {desc}", case)
    if record:
        if want or missing:
            col.nontriv("synergy", samples, ids, obs)
        col.outcome("synergy", "raised" if got == "raised" else tuple(sorted((a, b, round(c, 9)) for a, b, c in (got or []))),
                    "refused" if raised is not None else "answered")


def synergy_plan(tier):
    items = []
    nobs = len(OBS_VECTORS)
    specs = [([-1, 0, 1], 3 if tier == "quick" else 4)]
    if tier == "thorough":
        specs.append(([-1, 0, 1, 2], 3))
    for alpha, maxrows in specs:
        nopt = len(row_options(2, alpha, synergy=True))
        for n in range(1, maxrows + 1):
            for ov in range(nobs):
                if nopt ** n <= 5000:
                    items.append({"fam": "synergy", "arity": 2, "alpha": alpha, "rows": n, "first": None, "obs": ov})
                else:
                    for f in range(nopt):
                        items.append({"fam": "synergy", "arity": 2, "alpha": alpha, "rows": n, "first": [f], "obs": ov})
    return items


def synergy_run(item, col):
    obs_full = OBS_VECTORS[item["obs"]]
    for k, (samples, ids) in enumerate(id_arrays(item, synergy=True)):
        case = {"fam": "synergy", "samples": samples, "ids": ids, "obs": obs_full[:len(samples)]}
        check_synergy(case, col)
        if k == 40:
            col.sample(case)


# ======================================================================= stub thetas
class TableTheta:
    """Stub posterior draw: the prediction for a row is looked up in a table keyed on
    (sample id, sorted treatment ids); every question is recorded."""

    def __init__(self, table, default=0.0):
        self.table = table
        self.default = default
        self.asked = []
        self.unknown = []

    def _predict(self, screen):
        sids = [int(x) for x in screen.sample_ids]
        tids = [tuple(int(y) for y in row) for row in screen.treatment_ids]
        named = [
            tuple(sorted((str(screen.treatment_names[i, j]), float(screen.treatment_doses[i, j]), int(screen.treatment_ids[i, j]))
                         for j in range(screen.treatment_ids.shape[1])))
            for i in range(len(sids))
        ]
        self.asked.append((sids, tids, named))
        out = np.zeros((len(sids),), dtype=float)
        for i, (s, row) in enumerate(zip(sids, tids)):
            key = (s, tuple(sorted(row)))
            if key in self.table:
                out[i] = self.table[key]
            else:
                self.unknown.append(key)
                out[i] = self.default
        return out

    def predict_viability(self, screen):
        return self._predict(screen)

    def predict_conditional_mean(self, screen):
        return self._predict(screen)

    def predict_conditional_variance(self, screen):
        return np.ones((screen.size,), dtype=float)

    def private_parameters_dict(self):
        return {}


def holder_of(tables):
    h = ThetaHolder(n_thetas=len(tables))
    thetas = [TableTheta(t) for t in tables]
    for th in thetas:
        h.add_theta(th)
    return h, thetas


# ======================================================================= family: cmse
CMSE_ROWS = [
    ("s0", "p", (("a", 1.0), ("b", 1.0))),
    ("s1", "p", (("b", 1.0), ("", 0.0))),
    ("s0", "p", (("", 0.0), ("a", 2.0))),
]


def cmse_screen(obs):
    rows = [(s, p, tr, o, True) for (s, p, tr), o in zip(CMSE_ROWS, obs)]
    return make_screen(rows, control="")


def check_cmse(case, col, screen=None, record=True):
    obs = case["obs"]
    pred = case["pred"]  # E x T
    E, T = len(pred), len(pred[0])
    if screen is None:
        screen = cmse_screen(obs)
    keys = [(int(screen.sample_ids[e]), tuple(sorted(int(x) for x in screen.treatment_ids[e]))) for e in range(E)]
    tables = [{keys[e]: pred[e][t] for e in range(E)} for t in range(T)]
    holder, thetas = holder_of(tables)
    col.states += 1
    col.evaluations += 1
    col.transitions += 1
    got = calculate_mse(screen, holder)
    # reading 1: MSE of the posterior-mean prediction
    tot = 0.0
    for e in range(E):
        m = 0.0
        for t in range(T):
            m += pred[e][t]
        m /= T
        tot += (m - obs[e]) ** 2
    want_mean = tot / E
    # reading 2: MSE over all (experiment, theta) pairs
    want_pairs = ref_mse(ref_sqerr(pred, obs))
    if not close_any(got, [want_mean, want_pairs]):
        col.violation("C20|calculate_mse|value", f"calculate_mse={float(got)!r}; MSE of the mean prediction is {want_mean!r}, MSE over all pairs is {want_pairs!r}; pred={pred} obs={obs}", case)
    if record:
        if not close(want_mean, want_pairs):
            col.nontriv("cmse", pred, obs)
        col.outcome("cmse", round(float(got), 9))


def cmse_plan(tier):
    items = []
    for E in (1, 2, 3):
        for obs in itertools.product(ALPHA[3], repeat=E):
            items.append({"fam": "cmse", "E": E, "obs": list(obs)})
    return items


def cmse_run(item, col, tier):
    E, obs = item["E"], item["obs"]
    screen = cmse_screen(obs)
    for T in (1, 2, 3):
        if E * T <= 6:
            alpha = ALPHA[3]
        elif tier == "thorough":
            alpha = ALPHA[2]
        else:
            continue
        for k, flat in enumerate(itertools.product(alpha, repeat=E * T)):
            pred = [list(flat[e * T:(e + 1) * T]) for e in range(E)]
            case = {"fam": "cmse", "obs": obs, "pred": pred}
            check_cmse(case, col, screen=screen)
            if k == 5 and T == 2:
                col.sample(case)


# ======================================================================= family: corr
A1, A2, B1, C1, CT, A0 = ("a", 1.0), ("a", 2.0), ("b", 1.0), ("c", 1.0), ("", 0.0), ("a", 0.0)
CORR_SHAPES = {
    # name: (rows [(sample, treatments)], treatment_mapping or None, sample_mapping or None)
    "K1": ([("s0", (A1, B1)), ("s1", (A1, CT)), ("s1", (CT, B1))], None, None),
    "K2": ([("s0", (A1, B1)), ("s1", (A1, CT)), ("s2", (CT, B1))], None, None),
    "K3": ([("s0", (A1, B1)), ("s1", (A2, CT)), ("s2", (B1, A2)), ("s0", (A1, A2))], None, None),
    "K4": ([("s0", (A1, B1)), ("s1", (C1, A1))], None, None),
    "K5": ([("s0", (A1, B1, C1)), ("s1", (A1, CT, CT)), ("s2", (CT, B1, C1))], None, None),
    "K6": ([("s2", (A1, B1)), ("s0", (B1, CT)), ("s1", (CT, A1))],
           (["b", "", "a", "a"], [1.0, 0.0, 2.0, 1.0], [0, -1, 2, 1]),
           (["s0", "s1", "s2", "zz"], [2, 0, 3, 1])),
    "K7": ([("s0", (A1, B1)), ("s1", (A0, B1)), ("s1", (CT, A1))], None, None),
}


# sparse probes for the space generator only: treatment counts around 170 (the largest n with a finite float n!) and beyond
for _n, _ar in ((170, 1), (171, 1), (172, 2), (200, 2)):
    _tr = [(f"t{i:03d}", 1.0 + (i % 2)) for i in range(_n)]
    if _ar == 1:
        _rows = [(f"s{i % 2}", (_tr[i],)) for i in range(_n)]
    else:
        _rows = [(f"s{i % 2}", (_tr[2 * i], _tr[2 * i + 1])) for i in range(_n // 2)]
    CORR_SHAPES[f"Z{_n}a{_ar}"] = (_rows, None, None)


def corr_screen(shape):
    rows, tm, sm = CORR_SHAPES[shape]
    kw = {}
    if tm is not None:
        kw["treatment_mapping"] = (np.array(tm[0], dtype=str), np.array(tm[1], dtype=float), np.array(tm[2], dtype=int))
    if sm is not None:
        kw["sample_mapping"] = (np.array(sm[0], dtype=str), np.array(sm[1], dtype=int))
    full = [(s, f"p{i}", tr, 0.5, True) for i, (s, tr) in enumerate(rows)]
    return make_screen(full, control="", with_obs=False, **kw)


def corr_space(shape, screen=None):
    """Reference description of the experiment space, from the screen's own mappings:
    (present samples [(name, id)], combos [sorted id tuple per unordered combination of mapping rows])"""
    rows, _, _ = CORR_SHAPES[shape]
    if screen is None:
        screen = corr_screen(shape)
    arity = len(rows[0][1])
    name_to_id = {}
    for nm, i in zip(screen.sample_mapping[0], screen.sample_mapping[1]):
        name_to_id[str(nm)] = int(i)
    present = []
    for s, _ in rows:
        if (s, name_to_id[s]) not in present:
            present.append((s, name_to_id[s]))
    mapping_rows = [(str(a), float(b), int(c)) for a, b, c in zip(*screen.treatment_mapping)]
    combos = []
    for comb in itertools.combinations(range(len(mapping_rows)), arity):
        combos.append(tuple(sorted(mapping_rows[k][2] for k in comb)))
    return present, mapping_rows, combos, arity


def corr_keys(shape):
    present, _, combos, _ = corr_space(shape)
    keys = []
    for _, sid in present:
        for c in sorted(set(combos)):
            keys.append((sid, c))
    return keys


def graded_table(keys, g, k):
    return {key: ((3 * key[0] + 5 * sum((i + 2) * (i + 3) for i in key[1]) + 7 * g * (j + 1) + 11 * k + (g * j) % 5) % 13) / 13.0
            for j, key in enumerate(keys)}


def check_space(shape, col):
    """generate_full_combinatoric_space: every unordered combination of mapping rows, screen's own ids."""
    screen = corr_screen(shape)
    present, mapping_rows, combos, arity = corr_space(shape, screen)
    case = {"fam": "space", "shape": shape}
    want_named = sorted(
        tuple(sorted((mapping_rows[k][0], mapping_rows[k][1], mapping_rows[k][2]) for k in comb))
        for comb in itertools.combinations(range(len(mapping_rows)), arity)
    )
    for name, sid in present:
        col.states += 1
        col.evaluations += 1
        col.transitions += 1
        sp = generate_full_combinatoric_space(sid, screen)
        got_named = sorted(
            tuple(sorted((str(sp.treatment_names[i, j]), float(sp.treatment_doses[i, j]), int(sp.treatment_ids[i, j])) for j in range(sp.treatment_ids.shape[1])))
            for i in range(sp.size)
        )
        if got_named != want_named:
            col.violation("C20|space|combos", f"{shape}: full combinatoric space for sample {name} has rows {got_named}, every unordered combination of the mapping rows is {want_named}", case)
        if [int(x) for x in sp.sample_ids] != [sid] * sp.size or [str(x) for x in sp.sample_names] != [name] * sp.size:
            col.violation("C20|space|sample-id", f"{shape}: space for sample {name} (id {sid}) carries sample ids {sp.sample_ids.tolist()} names {sp.sample_names.tolist()}", case)
        col.outcome("space", shape, name, tuple(got_named))
        col.nontriv("space", shape, name)


def check_corr(case, col, record=True):
    shape = case["shape"]
    tables = [{(int(s), tuple(int(x) for x in ids)): float(v) for s, ids, v in tab} for tab in case["tables"]]
    screen = corr_screen(shape)
    present, mapping_rows, combos, arity = corr_space(shape, screen)
    holder, thetas = holder_of(tables)
    col.states += 1
    col.evaluations += 1
    col.transitions += 1
    df = correlation_matrix(screen, holder)
    T = len(tables)
    # ---- ids the stubs were asked about
    named_combos = [tuple(sorted(mapping_rows[k] for k in comb)) for comb in itertools.combinations(range(len(mapping_rows)), arity)]
    want_calls = sorted(sorted((sid, c) for c in named_combos) for _, sid in present)
    for th in thetas:
        got_calls = sorted(sorted(zip(sids, named)) for sids, tids, named in th.asked)
        if got_calls != want_calls:
            col.violation("C20|corr|ids", f"{shape}: a posterior draw was asked about (sample id, [(name, dose, id)]) {got_calls}; the screen's own mappings give, per present sample, "
                                          f"every unordered combination of mapping rows: {want_calls}", case)
            break
    # ---- reference matrix (loop evaluation of the code's definition)
    S = len(present)
    C = len(combos)
    P = [[0.0] * C for _ in range(S)]
    for i, (_, sid) in enumerate(present):
        for c, ids in enumerate(combos):
            acc = 0.0
            for t in range(T):
                acc += tables[t].get((sid, ids), 0.0)
            P[i][c] = acc / T
    X = [[0.0] * C for _ in range(S)]
    for c in range(C):
        mu = 0.0
        for i in range(S):
            mu += P[i][c]
        mu /= S
        for i in range(S):
            X[i][c] = P[i][c] - mu
    norm = []
    for i in range(S):
        ss = 0.0
        for c in range(C):
            ss += X[i][c] * X[i][c]
        norm.append(math.sqrt(ss))
    live = [norm[i] >= 1e-9 for i in range(S)]
    labels = [str(x) for x in df.index]
    cols = [str(x) for x in df.columns]
    names = [n for n, _ in present]
    if sorted(labels) != sorted(names) or sorted(cols) != sorted(names):
        col.violation("C20|corr|labels", f"{shape}: matrix labelled {labels} x {cols}, present samples are {names}", case)
        return
    if labels != cols:
        # "symmetric with unit diagonal" is a statement about the matrix as it is handed out (its values, a heat map of it)
        col.violation("C20|corr|row-and-column-order", f"{shape}: rows are labelled {labels} but columns {cols}: entry [i, j] and entry [j, i] belong to different pairs of samples", case)
    M = np.asarray(df.values, dtype=float)

    def at(a, b):
        return float(M[labels.index(a), cols.index(b)])

    out_key = []
    for i in range(S):
        for j in range(S):
            if not (live[i] and live[j]):
                continue
            want = 0.0
            for c in range(C):
                want += X[i][c] * X[j][c]
            want /= norm[i] * norm[j]
            got = at(names[i], names[j])
            out_key.append(round(got, 9) if not math.isnan(got) else "nan")
            if i == j and not close(got, 1.0):
                col.violation("C20|corr|diagonal", f"{shape}: diagonal entry for {names[i]} is {got!r}", case)
            if not close(got, at(names[j], names[i]), tol=1e-12):
                col.violation("C20|corr|symmetric", f"{shape}: entry ({names[i]},{names[j]})={got!r} but ({names[j]},{names[i]})={at(names[j], names[i])!r}", case)
            if not close(got, want):
                col.violation("C20|corr|value", f"{shape}: correlation ({names[i]},{names[j]})={got!r}, loop evaluation over every mapping-row combination gives {want!r}", case)
    if record:
        if sum(live) >= 2:
            col.nontriv("corr", shape, case["tables"])
        col.outcome("corr", shape, tuple(out_key), tuple(live))


def _tab_json(table):
    return [[k[0], list(k[1]), v] for k, v in sorted(table.items())]


def corr_plan(tier):
    items = [{"fam": "space"}]
    if tier == "quick":
        items += [{"fam": "corr", "shape": "K1", "mode": "enum", "alpha": 2, "T": 1, "chunk": [c, 2]} for c in range(2)]
        items += [{"fam": "corr", "shape": "K2", "mode": "enum", "alpha": 2, "T": 1, "chunk": [c, 16]} for c in range(16)]
        G = 6
    else:
        items += [{"fam": "corr", "shape": "K1", "mode": "enum", "alpha": 3, "T": t, "chunk": [c, 8]} for c in range(8) for t in (1, 2)]
        items += [{"fam": "corr", "shape": "K2", "mode": "enum", "alpha": 3, "T": 1, "chunk": [c, 243]} for c in range(243)]
        G = 24
    for shape in ("K3", "K4", "K5", "K6", "K7", "K2"):
        for T in (1, 2, 3):
            items.append({"fam": "corr", "shape": shape, "mode": "graded", "G": G, "T": T})
    # a correlation does not depend on the scale of the profiles: the graded tables again, multiplied by 1e-7 / 1e-8 / 1e6
    # (multiplication keeps full relative precision, so the loop evaluation is as exact as before)
    for shape in ("K2", "K3", "K6"):
        for scale in (1e-7, 1e-8, 1e6):
            items.append({"fam": "corr", "shape": shape, "mode": "graded", "G": G, "T": 2, "scale": scale})
    return items


def corr_run(item, col):
    if item["fam"] == "space":
        for shape in sorted(CORR_SHAPES):
            check_space(shape, col)
        return
    shape = item["shape"]
    keys = corr_keys(shape)
    T = item["T"]
    if item["mode"] == "graded":
        for g in range(item["G"]):
            tables = [graded_table(keys, g, k) for k in range(T)]
            if item.get("scale"):
                tables = [{k_: v * item["scale"] for k_, v in t.items()} for t in tables]
            case = {"fam": "corr", "shape": shape, "tables": [_tab_json(t) for t in tables]}
            check_corr(case, col)
            if g == 1:
                col.sample({"fam": "corr", "shape": shape, "T": T, "table0": _tab_json(tables[0])[:4]})
        return
    alpha = ALPHA[item["alpha"]]
    chunk = item["chunk"]
    for idx, flat in enumerate(itertools.product(alpha, repeat=len(keys))):
        if idx % chunk[1] != chunk[0]:
            continue
        tables = [dict(zip(keys, flat))] + [graded_table(keys, 3, k) for k in range(1, T)]
        case = {"fam": "corr", "shape": shape, "tables": [_tab_json(t) for t in tables]}
        check_corr(case, col)


# ======================================================================= contract
def plan(tier, seed):
    items = []
    items += metrics_plan(tier)
    items += h5_plan(tier)
    items += effects_plan(tier)
    items += synergy_plan(tier)
    items += cmse_plan(tier)
    items += corr_plan(tier)
    items.append({"fam": "screen-effects"})
    for E, T in ((4101, 2), (4096, 3), (9000, 1)):
        items.append({"fam": "metrics-large", "E": E, "T": T})
    items.append({"fam": "analyze-cli"})
    items.append({"fam": "evaluate-cli"})
    return items


# ======================================================================= family: effects read off a live Screen
SCREEN_EFFECT_ROWS = [
    # (sample, plate, treatments, observation, observed)
    [("s0", "p0", (("a", 1.0), ("", 0.0)), 0.8, True), ("s0", "p0", (("b", 1.0), ("", 0.0)), 0.6, True),
     ("s0", "p1", (("a", 1.0), ("b", 1.0)), 0.3, True), ("s0", "p2", (("", 0.0), ("a", 1.0)), 0.4, False),
     ("s1", "p2", (("a", 1.0), ("", 0.0)), 0.5, False), ("s1", "p3", (("b", 1.0), ("", 0.0)), 0.7, False),
     ("s1", "p1", (("b", 1.0), ("a", 1.0)), 0.2, True)],
    [("s0", "q0", (("a", 1.0), ("", 0.0)), 0.9, False), ("s0", "q1", (("a", 1.0), ("", 0.0)), 0.1, False),
     ("s0", "q2", (("a", 1.0), ("a", 2.0)), 0.5, True), ("s0", "q2", (("a", 2.0), ("", 0.0)), 0.25, True)],
]


def check_screen_effects(case, col):
    """History on ONE Screen object: [read the effects] -> set_observed(plates, new values) -> read the effects (through the
    screen and through a plate view): they are the means of the CURRENT single-agent observations."""
    from ..screens import make_screen

    rows = SCREEN_EFFECT_ROWS[case["screen"]]
    screen = make_screen(rows, control="")
    names = [r[1] for r in rows]
    col.states += 1
    col.evaluations += 1
    col.transitions += 2
    if case["read_first"]:
        screen.single_treatment_effects
        for p in screen.plates:
            p.single_treatment_effects
    sel = np.array([n in case["plates"] for n in names], dtype=bool)
    new = np.array([0.05 + 0.11 * k for k in range(int(sel.sum()))], dtype=float)
    screen.set_observed(sel, new)
    obs = [float(x) for x in screen.observations]
    samples = [int(x) for x in screen.sample_ids]
    ids = [[int(t) for t in row] for row in screen.treatment_ids]
    meas = ref_effects(samples, ids)
    got = screen.single_treatment_effects
    complete = all(ref_effect_value(meas, obs, s_, t) is not None for s_, row in zip(samples, ids) for t in row)
    if got is None:
        col.refused += 1
        if complete:
            col.violation("C20|screen_effects|none-although-complete", f"Screen.single_treatment_effects is None although every effect is measured ({case})", case)
        col.outcome("screen-effects", "none")
        return
    got = np.asarray(got, dtype=float)
    views = [("screen", got, np.ones(len(rows), dtype=bool))]
    for p in screen.plates:
        v = p.single_treatment_effects
        if v is not None:
            views.append((f"plate {p.plate_name}", np.asarray(v, dtype=float), np.asarray(p.selection_vector, dtype=bool)))
    for label, arr, svec in views:
        idx = np.flatnonzero(svec)
        for k, i in enumerate(idx):
            for j, t in enumerate(ids[i]):
                want = ref_effect_value(meas, obs, samples[i], t)
                if want is not None and not close(arr[k, j], want):
                    col.violation("C20|screen_effects|stale" if case["read_first"] else "C20|screen_effects|value",
                                  f"after set_observed on plates {case['plates']}{' (effects had been read before)' if case['read_first'] else ''}: {label} reports effect "
                                  f"{arr[k, j]!r} for row {i} slot {j}, the mean of the current single-agent observations is {want!r}", case)
    col.outcome("screen-effects", got.tobytes())
    col.nontriv("screen-effects", case["screen"], tuple(case["plates"]), case["read_first"])


def screen_effects_run(item, col):
    for si, rows in enumerate(SCREEN_EFFECT_ROWS):
        unobs = sorted({r[1] for r in rows if not r[4]})
        for k in range(1, len(unobs) + 1):
            for plates in itertools.combinations(unobs, k):
                for read_first in (False, True):
                    check_screen_effects({"fam": "screen-effects", "screen": si, "plates": list(plates), "read_first": read_first}, col)


def metrics_large_run(item, col):
    """Sparse probe far above the enumerated sizes (a block-wise / bounded-memory rewrite of a metric only shows there):
    E experiments x T draws of graded values, every metric against the loop definitions."""
    E, T = item["E"], item["T"]
    pred = [[0.05 + 0.9 * (((e * 7 + t * 3) % 19) / 19.0) * (1.0 if e < E - 5 else 0.02) for t in range(T)] for e in range(E)]
    obs = [0.1 + 0.8 * ((e * 5) % 13) / 13.0 for e in range(E)]
    chains = [[t % 2 for t in range(T)]] if T > 1 else [[0]]
    check_metrics(pred, obs, chains, col, record=True, case={"fam": "metrics-large", "E": E, "T": T})


def analyze_cli_run(item, col):
    """analyze_model_evaluation run twice into the SAME output directory, for two different evaluations: the summary it
    leaves behind reports the metrics of the evaluation that was analysed last."""
    import json
    from ..cli import run_cli
    from ..screens import make_screen
    from batchie.data import ExperimentSpace
    from batchie.models.sparse_combo import SparseDrugComboMCMCSample

    tmp = env.scratch_dir("c20cli")
    try:
        rows = [("s0", "p0", (("a", 1.0), ("b", 1.0)), 0.3, True), ("s1", "p0", (("a", 1.0), ("", 0.0)), 0.6, True),
                ("s0", "p1", (("b", 1.0), ("", 0.0)), 0.8, True), ("s1", "p1", (("b", 1.0), ("a", 1.0)), 0.4, True)]
        screen = make_screen(rows, control="")
        sfn = os.path.join(tmp, "screen.h5")
        screen.save_h5(sfn)
        es = ExperimentSpace.from_screen(screen)
        ns, nt = int(es.n_unique_samples), int(es.n_unique_treatments)
        holder = ThetaHolder(n_thetas=2)
        for k in range(2):
            g = lambda shape, off: (np.arange(int(np.prod(shape)), dtype=float).reshape(shape) * 0.11 + off + 0.2 * k)  # noqa: E731
            holder.add_theta(SparseDrugComboMCMCSample(W=g((ns, 2), 0.1), W0=g((ns,), -0.2), V2=g((nt, 2), 0.05), V1=g((nt, 2), -0.1),
                                                      V0=g((nt,), 0.3), alpha=0.2, precision=2.0))
        tfn = os.path.join(tmp, "thetas.h5")
        holder.save_h5(tfn)
        out = os.path.join(tmp, "analysis")
        evals = {"A": ([[0.2, 0.4], [0.7, 0.5], [0.9, 0.6], [0.3, 0.5]], [0.3, 0.6, 0.8, 0.4]),
                 "B": ([[0.9, 0.1], [0.2, 0.2], [0.4, 0.8], [0.6, 0.1]], [0.1, 0.9, 0.5, 0.5])}
        for order in (("A", "B"), ("B", "A", "A")):
            for name in order:
                pred, obs = evals[name]
                case = {"fam": "analyze-cli", "order": list(order), "last": name}
                me = ModelEvaluation(predictions=np.array(pred), observations=np.array(obs), chain_ids=np.array([0, 1]), sample_names=np.array(["s0", "s1", "s0", "s1"], dtype=str))
                efn = os.path.join(tmp, f"eval_{name}.h5")
                me.save_h5(efn)
                col.evaluations += 1
                col.states += 1
                col.transitions += 1
                try:
                    run_cli("analyze_model_evaluation", ["--model-evaluation", efn, "--screen", sfn, "--thetas", tfn, "--output-dir", out])
                except BaseException as exc:  # noqa: BLE001
                    col.violation("C20|analyze-cli|raised", f"analyze_model_evaluation ({order}, now {name}): {short_exc(exc)}", case)
                    return
                with open(os.path.join(out, "summary_statistics.json")) as f:
                    got = json.load(f)
                sq = ref_sqerr(pred, obs)
                want = {"mse": [ref_mse(sq)], "mse_variance": var_options(ref_per_experiment(sq)), "inter_chain_mse_variance": var_options(ref_chain_mses(sq, [0, 1]))}
                col.outcome("analyze-cli", name, round(float(got.get("mse", -1)), 9))
                col.nontriv("analyze-cli", order, name)
                for k_, opts in want.items():
                    if k_ not in got or not close_any(got[k_], opts):
                        col.violation(f"C20|analyze-cli|{k_}", f"output directory used for evaluations {list(order)} in turn: after analysing {name} the summary reports {k_}={got.get(k_)!r}, "
                                                               f"the definition gives {opts[0]!r}", case)
    finally:
        shutil.rmtree(tmp, ignore_errors=True)


def evaluate_cli_run(item, col):
    """The metrics of an evaluation as the command line produces it: evaluate_model over several chain files of UNEQUAL length,
    then the library metrics on the file it wrote, against the definitions applied to the per-sample predictions and the true
    chain partition."""
    from ..cli import run_cli
    from ..screens import make_screen
    from batchie.data import ExperimentSpace
    from batchie.models.sparse_combo import SparseDrugComboMCMCSample

    tmp = env.scratch_dir("c20ev")
    try:
        rows = [("s0", "p0", (("a", 1.0), ("b", 1.0)), 0.3, True), ("s1", "p0", (("a", 1.0), ("", 0.0)), 0.6, True),
                ("s0", "p1", (("b", 1.0), ("", 0.0)), 0.8, True), ("s1", "p1", (("b", 1.0), ("a", 1.0)), 0.4, True), ("s1", "p1", (("b", 2.0), ("a", 1.0)), 0.15, True)]
        screen = make_screen(rows, control="")
        sfn = os.path.join(tmp, "screen.h5")
        screen.save_h5(sfn)
        es = ExperimentSpace.from_screen(screen)
        ns, nt = int(es.n_unique_samples), int(es.n_unique_treatments)

        def theta(k):
            g = lambda shape, off: (np.sin(np.arange(int(np.prod(shape)), dtype=float) * (0.7 + 0.13 * k) + off).reshape(shape))  # noqa: E731
            return SparseDrugComboMCMCSample(W=g((ns, 2), 0.1), W0=g((ns,), -0.2), V2=g((nt, 2), 0.05), V1=g((nt, 2), -0.1), V0=g((nt,), 0.3), alpha=0.2 - 0.1 * k, precision=2.0)

        for lengths in ([2, 4], [3, 2, 4], [1, 3], [4, 2], [2, 2, 2], [5]):
            case = {"fam": "evaluate-cli", "lengths": lengths}
            files, thetas, k = [], [], 0
            for c, n in enumerate(lengths):
                h = ThetaHolder(n_thetas=n)
                for _ in range(n):
                    t = theta(k)
                    h.add_theta(t)
                    thetas.append(t)
                    k += 1
                fn = os.path.join(tmp, f"chain_{'-'.join(map(str, lengths))}_{c}.h5")
                h.save_h5(fn)
                files.append(fn)
            out = os.path.join(tmp, "evaluation.h5")
            if os.path.exists(out):
                os.remove(out)
            col.evaluations += 1
            col.states += 1
            col.transitions += 2
            try:
                run_cli("evaluate_model", ["--screen", sfn, "--thetas", *files, "--output", out])
                me = ModelEvaluation.load_h5(out)
                got = {"mse": float(me.mse()), "inter_chain_mse_variance": float(me.inter_chain_mse_variance())}
            except BaseException as exc:  # noqa: BLE001
                col.violation("C20|evaluate-cli|raised", f"evaluate_model with chain files of lengths {lengths}: {short_exc(exc)}", case)
                continue
            loaded = Screen.load_h5(sfn)
            pred = [[float(x) for x in col_] for col_ in np.array([np.asarray(t.predict_viability(loaded), dtype=float) for t in thetas]).T]
            obs = [float(x) for x in loaded.observations]
            chain = [c for c, n in enumerate(lengths) for _ in range(n)]
            sq = ref_sqerr(pred, obs)
            want = {"mse": [ref_mse(sq)], "inter_chain_mse_variance": var_options(ref_chain_mses(sq, chain))}
            col.outcome("evaluate-cli", tuple(lengths), round(got["mse"], 9), round(got["inter_chain_mse_variance"], 12))
            col.nontriv("evaluate-cli", tuple(lengths))
            for k_, opts in want.items():
                if not close_any(got[k_], opts):
                    col.violation(f"C20|evaluate-cli|{k_}", f"evaluate_model over chain files of lengths {lengths}: {k_} of the evaluation it wrote is {got[k_]!r}, "
                                                            f"the definition on the per-sample predictions and the true chains gives {opts[0]!r}", case)
    finally:
        shutil.rmtree(tmp, ignore_errors=True)


def run_item(item, col, tier):
    fam = item["fam"]
    if fam == "evaluate-cli":
        col.count("items:" + fam)
        return evaluate_cli_run(item, col)
    if fam == "metrics-large":
        col.count("items:" + fam)
        return metrics_large_run(item, col)
    if fam == "analyze-cli":
        col.count("items:" + fam)
        return analyze_cli_run(item, col)
    if fam == "screen-effects":
        col.count("items:" + fam)
        screen_effects_run(item, col)
        return
    col.count("items:" + fam)
    before = col.evaluations
    if fam == "metrics":
        metrics_run(item, col)
    elif fam == "h5":
        h5_run(item, col)
    elif fam == "effects":
        effects_run(item, col)
    elif fam == "synergy":
        synergy_run(item, col)
    elif fam == "cmse":
        cmse_run(item, col, tier)
    elif fam in ("corr", "space"):
        corr_run(item, col)
    else:
        raise KeyError(fam)
    col.count("calls:" + ("corr" if fam == "space" else fam), col.evaluations - before)


def replay(case, col):
    fam = case["fam"]
    print("replaying", {k: v for k, v in case.items() if k != "tables"})
    if fam == "metrics":
        check_metrics(floats(case["pred"]), floats(case["obs"]), [case["chain"]], col, record=False)
    elif fam == "h5":
        tmp = env.scratch_dir("c20r")
        try:
            check_h5(case, col, tmp)
        finally:
            shutil.rmtree(tmp, ignore_errors=True)
    elif fam == "effects":
        check_effects(case, col, record=False)
    elif fam == "synergy":
        check_synergy(case, col, record=False)
    elif fam == "cmse":
        check_cmse(case, col, record=False)
    elif fam == "corr":
        check_corr(case, col, record=False)
    elif fam == "space":
        check_space(case["shape"], col)
    elif fam == "screen-effects":
        check_screen_effects(case, col)
    elif fam == "metrics-large":
        metrics_large_run(case, col)
    elif fam == "analyze-cli":
        analyze_cli_run(case, col)
    elif fam == "evaluate-cli":
        evaluate_cli_run(case, col)
    else:
        raise KeyError(fam)
