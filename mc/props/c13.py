"""C13  Generated, smoothed and initial plates satisfy their documented shape guarantees."""
from . import retro

PROP = "C13"
LEVEL = "model_checking"
ENGINE = "E2-choice-tree"
TECHNIQUE = "stateless exploration of the full answer tree of a scripted random source (every rng.choice / rng.permutation outcome) for every operation x parameter x plate layout, against a Counter / set reference model"
LEVEL_TEXT = (
    "Decides the documented shape guarantees of generated, smoothed and initial plates: every shipped operation is executed on the real code for every plate layout of the bounded "
    "family and for EVERY answer its random generator could give (ordered samples without replacement, permutations, choices with "
    "replacement are all choice points of a DFS explorer), and the oracle compares plate sample sets, sizes and observation status of the returned screen against set-comprehension / greedy references. "
    "'For any generator state' therefore becomes 'for every possible answer', which no seed-based test reaches."
)
RULE = (
    "every shipped generator / smoother / hold-out x every parameter setting x every plate layout "
    "(<=3 samples, <=3 plates per sample, sizes 1..3, bounded total rows, with and without an observed plate, "
    "duplicate conditions with distinct observation values, single-agent rows) x the FULL answer tree of the "
    "scripted random source; an execution is non-trivial (and counted once per distinct output) when the "
    "operation changed the rows/plates or took >= 1 non-default random answer"
)
BOUNDS = {
    "quick": {"max_unobserved_rows": 5, "samples": 3, "plates_per_sample": 3, "leaf_cap_per_item": retro.LEAF_CAP,
              "row_order": "layouts of 3-4 (thorough 5) rows over >= 2 samples also with their rows interleaved across samples and reversed; permutation generator also with a plate named twice in force_include_plate_names",
              "fractions": retro.FRACTIONS,
              "row_pools": "two-column pools (mixed, rotated, combinations only) and a three-column pool for the pairwise / segregating generators (<= 4 rows)",
              "cli_holdout": "C11: prepare_retrospective_simulation --holdout-fraction f on layouts of 2-4 rows / >= 2 plates, 7 fractions, <= 2 deviations from the default answers",
              "sparse_wide_probes": "4 layouts with 11-24 rows / 3-12 plates x 11 operations, default random answers only"},
    "thorough": {"max_unobserved_rows": 6, "samples": 3, "plates_per_sample": 3, "leaf_cap_per_item": retro.LEAF_CAP,
                 "fractions": retro.FRACTIONS,
                 "sparse_wide_probes": "as quick, plus every single deviation from the default answers"},
}
ASSUMPTIONS = [
    "observation values are distinct per row, so a swapped / duplicated / altered experiment is visible",
    "an exception from the operation is a refusal ('whenever it returns'), counted but not judged",
    "non-dyadic hold-out fractions accept ceil of the float product and of the exact product",
]


def plan(tier, seed):
    return retro.plan(tier, PROP)


def run_item(item, col, tier):
    retro.run_item(PROP, item, col)


def replay(case, col):
    retro.replay(PROP, case, col)
