"""C17  Sampling follows the burn-in / thinning schedule; each chain gets its own stream.

Bounded-exhaustive enumeration of (burn-in, thinning, count) x (seed, number of chains,
chain index) on the real `batchie.sampling.sample`, with a counting model that records
every call it receives (and, at the moment a generator is handed over, a copy of its
bit-generator state), a counting variational model, and the real SparseDrugCombo.
"""
import contextlib
import copy
import itertools
import logging
import os

import numpy as np

from .. import env

env.setup()

from ..core import exception_origin_in_repo, short_exc  # noqa: E402
from ..screens import make_screen  # noqa: E402
from ..logctx import package_logger_at_debug  # noqa: E402

import batchie.sampling as S  # noqa: E402
from batchie.core import BayesianModel, MCMCModel, Theta, ThetaHolder, VIModel  # noqa: E402
from batchie.data import ExperimentSpace  # noqa: E402
from batchie.models.sparse_combo import SparseDrugCombo  # noqa: E402

PROP = "C17"
LEVEL = "model_checking"
ENGINE = "E1-input-enumeration"
TECHNIQUE = (
    "every (burn-in, thinning, count, seed, n_chains, chain index) inside the bounds is run through the real "
    "sample() with a call-recording model; recorded step counts and the first 1000 outputs of the handed generator "
    "are compared with the schedule of the statement and across chain indices"
)
LEVEL_TEXT = (
    "Exhaustive over the stated finite grid of schedules and (seed, n_chains, index) triples: the order of "
    "reset/step/record calls is decided exactly; stream identity is decided on the first 1000 64-bit outputs and "
    "stream separation as disjointness of those output sets (every relative lag below 1000). Non-overlap of the "
    "infinite streams is not decided - it rests on numpy's SeedSequence.spawn."
)
RULE = (
    "inputs = b x t x n x seed x n_chains x every chain index (counting MCMC model), n x seed (counting variational "
    "model, with and without chain arguments), seed x n_chains x index x two schedules (real SparseDrugCombo); one "
    "call of sample() each.  A schedule case is non-trivial (distinct key (b,t,n)) when b >= 1 and t >= 2, i.e. both "
    "the burn-in and the thinning skip states; a stream case is non-trivial (distinct key (seed,n_chains,index)) when "
    "n_chains >= 2"
)
_SEEDS_Q = [0, 1, 12, 2**32 - 1, 2**40 + 3]
_SEEDS_T = [0, 1, 2, 3, 5, 7, 12, 42, 255, 256, 65535, 65536, 2**31 - 1, 2**31, 2**32 - 1, 2**32,
            2**63 - 1, 2**64 - 1, 123456789, 987654321]
BOUNDS = {
    "quick": {"burn_in": [0, 4], "thin": [1, 4], "n": [1, 4], "seeds": _SEEDS_Q, "n_chains": [1, 4],
              "chain_index": "every index below n_chains", "stream_prefix_outputs": 1000,
              "vi_n": [1, 4], "real_model_schedules": [[0, 1, 1], [1, 2, 2]],
              "command_line": "6 schedules x 2 screens, each twice into one output; stream identity CLI == library for seeds 0 / default / 7 x chain index 1 and 0 x "
                              "{plain environment, batch-scheduler variables (SLURM_ARRAY_TASK_ID, RANK, ... = 1)}",
              "cross_process": "7 (seed, n_chains, index) triples in this process and in 2 child interpreters with other PYTHONHASHSEED values"},
    "thorough": {"burn_in": [0, 8], "thin": [1, 6], "n": [1, 6], "seeds": _SEEDS_T, "n_chains": [1, 6],
                 "chain_index": "every index below n_chains", "stream_prefix_outputs": 1000,
                 "vi_n": [1, 6], "real_model_schedules": [[0, 1, 1], [1, 2, 2], [3, 3, 2]], "command_line": "as quick", "cross_process": "as quick, 4 child interpreters"},
}
ASSUMPTIONS = [
    "the relative order of reset_model and set_rng is not stated: don't-care; a reset after the last recorded state is not judged either",
    "the counting model starts 'dirty' (1000 steps on its counter) so that a missing reset is visible; states are identified by the number of steps since the last reset",
    "the generator handed to the model is identified by a copy of its bit-generator state taken inside set_rng (if several are handed, the last one handed before the first step counts) and, when the model steps, by the state of that same generator object at the model's first step - the stream the chain really works with",
    "history dimension: the same call on a model object that has been through sample() once before with another (seed, n_chains, index); the stream at its first step must be the fresh model's",
    "environment dimension: the package logger at its default level and at DEBUG (what --verbose sets); identical triples must give identical streams in both",
    "stream identity / separation is decided on the first 1000 raw 64-bit outputs (identical sequence; pairwise disjoint output sets, which covers every relative lag < 1000); true non-overlap of the infinite streams is numpy's SeedSequence.spawn guarantee - trusted, not checked",
    "how the stream is derived from (seed, n_chains, index) is not stated and not compared with any reference derivation; nothing is demanded between different seeds or different n_chains",
    "variational models: 'asked for exactly n samples once' and 'leaving the collection complete' are judged; whether they are reset and which generator they get is don't-care except that an identical call must hand an identical generator",
    "seeds are a finite menu (small, byte/word boundaries, 2**63-1, 2**64-1); numpy's primitives are trusted",
]

NRAW = 1000
DIRTY = 1000


# ------------------------------------------------------------------ recording models
class StepTheta(Theta):
    """What the counting model returns as its state."""

    def __init__(self, since_reset, total, serial):
        self.since_reset, self.total, self.serial = since_reset, total, serial

    def predict_viability(self, data):
        raise NotImplementedError

    def predict_conditional_mean(self, data):
        raise NotImplementedError

    def predict_conditional_variance(self, data):
        raise NotImplementedError

    def private_parameters_dict(self):
        return {"since_reset": np.array([self.since_reset])}

    def shared_parameters_dict(self):
        return {}

    @classmethod
    def from_dicts(cls, private_params, shared_params):
        return cls(int(private_params["since_reset"][0]), -1, -1)


class _Recording(BayesianModel):
    def __init__(self):  # no experiment space needed
        self.log = []
        self._rng = None

    def set_rng(self, rng):
        state = None
        if isinstance(rng, np.random.Generator):
            state = copy.deepcopy(rng.bit_generator.state)
        self.log.append(("set_rng", state, type(rng).__name__))
        self._rng = rng

    @property
    def rng(self):
        return self._rng

    def _add_observations(self, data):
        raise NotImplementedError

    def n_obs(self):
        return 0

    def reset_model(self):
        self.log.append(("reset",))


class CountingMCMC(_Recording, MCMCModel):
    def __init__(self):
        super().__init__()
        self.since_reset = DIRTY
        self.total = 0
        self.serial = 0

    def reset_model(self):
        super().reset_model()
        self.since_reset = 0

    def step(self):
        if self.since_reset in (0, DIRTY) and isinstance(self._rng, np.random.Generator):
            # the stream the model actually works with: state of its generator when it is first asked to step
            self.log.append(("rng_at_first_step", copy.deepcopy(self._rng.bit_generator.state)))
        self.since_reset += 1
        self.total += 1
        self.log.append(("step",))

    def get_model_state(self):
        self.serial += 1
        self.log.append(("get", self.since_reset))
        return StepTheta(self.since_reset, self.total, self.serial)


class CountingVI(_Recording, VIModel):
    def __init__(self):
        super().__init__()
        self.made = []

    def sample(self, *args, **kwargs):
        self.log.append(("sample", list(args), dict(kwargs)))
        n = kwargs.get("num_samples", args[0] if args else None)
        out = [StepTheta(i, i, len(self.made) + i) for i in range(int(n))] if isinstance(n, (int, np.integer)) else []
        self.made.extend(out)
        return out


class ProbeSparse(SparseDrugCombo):
    """The real model; only set_rng is extended to copy the state of what is handed over."""

    def set_rng(self, rng):
        if not hasattr(self, "handed"):
            self.handed = []
        self.handed.append((copy.deepcopy(rng.bit_generator.state) if isinstance(rng, np.random.Generator) else None,
                            type(rng).__name__))
        super().set_rng(rng)

    def step(self):
        if not hasattr(self, "at_first_step"):
            r = self.rng
            self.at_first_step = copy.deepcopy(r.bit_generator.state) if isinstance(r, np.random.Generator) else None
        return super().step()


_SPACE = None


def _space():
    global _SPACE
    if _SPACE is None:
        rows = [("s0", "p0", (("a", 1.0), ("b", 1.0)), 0.5, True), ("s1", "p1", (("a", 1.0), ("c", 2.0)), 0.25, True),
                ("s0", "p2", (("b", 1.0), ("c", 2.0)), 0.75, False)]
        _SPACE = ExperimentSpace.from_screen(make_screen(rows))
    return _SPACE


def first_outputs(state):
    """First NRAW raw 64-bit outputs of a generator in the recorded state (the state is copied)."""
    bg = getattr(np.random, state["bit_generator"])()
    bg.state = copy.deepcopy(state)
    return bg.random_raw(NRAW)


# ------------------------------------------------------------------ single calls
def _call(model, n, p):
    holder = ThetaHolder(n_thetas=n)
    # debug: what `--verbose` does (batchie.log_config): the package logger at DEBUG
    with (package_logger_at_debug() if p.get("debug") else contextlib.nullcontext()):
        S.sample(model=model, results=holder, seed=p["seed"], n_chains=p["n_chains"], chain_index=p["index"],
                 n_burnin=p["b"], thin=p["t"], progress_bar=False)
    return holder


def _handed_state(col, handed, n_steps_before, case, tag):
    """handed: [(state|None, typename, position)], the last one handed before the first step counts."""
    if not handed:
        col.violation(f"C17|rng|none-handed|{tag}", "sample() never handed a generator to the model", case)
        return None
    before = [h for h in handed if h[2] <= n_steps_before] or handed
    state, tname = before[-1][0], before[-1][1]
    if state is None:
        col.violation(f"C17|rng|not-a-generator|{tag}", f"the model was handed a {tname}, not a numpy Generator", case)
    return state


class FailingMCMC(CountingMCMC):
    """A model whose k-th step() raises (a numerical failure inside a sweep)."""

    def __init__(self, fail_at, exc_type):
        super().__init__()
        self.fail_at, self.exc_type, self.calls = fail_at, exc_type, 0

    def step(self):
        self.calls += 1
        if self.calls == self.fail_at:
            raise self.exc_type("sweep failed")
        super().step()


def run_failing_step(p, fail_at, exc_type, col):
    """If a step fails, sample() either lets the failure through or - should it return - has still advanced the model exactly
    b + n*t times by step() calls and recorded at b+t, ...: a failed call that is quietly repeated shifts everything."""
    b, t, n = p["b"], p["t"], p["n"]
    case = dict(p, kind="failing-step", fail_at=fail_at, exc=exc_type.__name__)
    col.evaluations += 1
    col.states += 1
    col.transitions += 1
    model = FailingMCMC(fail_at, exc_type)
    try:
        holder = _call(model, n, p)
    except exc_type:
        col.refused += 1
        col.outcome("failing-step", "propagated")
        col.nontriv("failing-step", b, t, n, fail_at, exc_type.__name__)
        return
    except Exception as exc:  # noqa: BLE001
        if not exception_origin_in_repo(exc):
            raise
        col.refused += 1
        col.outcome("failing-step", "other-exception", type(exc).__name__)
        return
    col.outcome("failing-step", "returned", model.calls)
    if model.calls != b + n * t:
        col.violation("C17|schedule|failed-step-repeated", f"b={b} t={t} n={n}: step() call number {fail_at} raised {exc_type.__name__}; sample() returned a complete collection "
                                                         f"after {model.calls} step() calls, the schedule has exactly {b + n * t}", case)


def warm_params(p):
    c = p["n_chains"] + 1
    return {"seed": p["seed"] + 7, "n_chains": c, "index": (p["index"] + 1) % c, "b": 1, "t": 1}


def run_mcmc_stub(p, col):
    """One sample() call on the counting model; returns the first outputs of the handed generator."""
    b, t, n = p["b"], p["t"], p["n"]
    case = dict(p, kind="mcmc-stub")
    col.evaluations += 1
    col.states += 1
    col.transitions += 1
    model = CountingMCMC()
    try:
        if p.get("warm"):
            # the model object has been through sample() before, with ANOTHER triple: what it is handed now must not depend on that
            _call(model, 1, warm_params(p))
            model.log, model.total, model.serial, model.since_reset = [], 0, 0, DIRTY
        holder = _call(model, n, p)
    except Exception as exc:  # noqa: BLE001
        if not exception_origin_in_repo(exc):
            raise
        col.violation("C17|raised|mcmc", f"sample() raised for b={b} t={t} n={n}: {short_exc(exc)}", case)
        return None
    log = model.log
    kinds = [e[0] for e in log]
    first_step = kinds.index("step") if "step" in kinds else len(kinds)
    resets = [i for i, k_ in enumerate(kinds) if k_ == "reset"]
    recorded = [getattr(th, "since_reset", None) for th in holder.thetas]
    expected = [b + j * t for j in range(1, n + 1)]
    if b >= 1 and t >= 2:
        col.nontriv("schedule", b, t, n)
    col.outcome("recorded", tuple(recorded))
    # -- reset before the first step
    reset_before = any(i < first_step for i in resets)
    if not reset_before:
        col.violation("C17|reset|not-before-first-step",
                      f"b={b} t={t} n={n}: the model was {'never reset' if not resets else 'reset only after it had been stepped'}", case)
    # -- exactly b + n*t steps
    if model.total != b + n * t:
        col.violation("C17|schedule|total-steps", f"b={b} t={t} n={n}: the model was stepped {model.total} times, expected {b + n * t}", case)
    # -- recorded states
    if recorded != expected:
        last_get = max((i for i, k_ in enumerate(kinds) if k_ == "get"), default=-1)
        mid_reset = any(first_step < i < last_get for i in resets)
        if reset_before and mid_reset:
            col.violation("C17|reset|again-after-stepping",
                          f"b={b} t={t} n={n}: the model was reset again after it had been stepped; recorded states (steps since reset) {recorded}, expected {expected}", case)
        elif reset_before:
            col.violation("C17|schedule|recorded-at-wrong-steps",
                          f"b={b} t={t} n={n}: states recorded after steps {recorded}, expected {expected}", case)
    # -- collection complete
    if len(holder.thetas) != n or not holder.is_complete:
        col.violation("C17|collection|incomplete", f"b={b} t={t} n={n}: {len(holder.thetas)} states in a collection of {n}; is_complete={holder.is_complete}", case)
    # -- generator
    steps_seen, handed = 0, []
    for e in log:
        if e[0] == "step":
            steps_seen += 1
        elif e[0] == "set_rng":
            handed.append((e[1], e[2], steps_seen))
    state = _handed_state(col, handed, 0, case, "mcmc")
    at_step = [e[1] for e in log if e[0] == "rng_at_first_step"]
    if state is not None and at_step:
        if not np.array_equal(first_outputs(at_step[0]), first_outputs(state)):
            col.count("generator state moved between hand-over and the first step (judged through the same-triple comparison)")
        state = at_step[0]
    return None if state is None else first_outputs(state)


def run_mcmc_sparse(p, col):
    b, t, n = p["b"], p["t"], p["n"]
    case = dict(p, kind="mcmc-sparse")
    col.evaluations += 1
    col.states += 1
    col.transitions += 1
    model = ProbeSparse(experiment_space=_space(), n_embedding_dimensions=2)
    try:
        if p.get("warm"):
            _call(model, 1, warm_params(p))
            model.handed = []
            del model.at_first_step
        holder = _call(model, n, p)
    except Exception as exc:  # noqa: BLE001
        if not exception_origin_in_repo(exc):
            raise
        col.violation("C17|raised|mcmc", f"sample() raised on SparseDrugCombo for b={b} t={t} n={n}: {short_exc(exc)}", case)
        return None
    if len(holder.thetas) != n or not holder.is_complete:
        col.violation("C17|collection|incomplete", f"SparseDrugCombo b={b} t={t} n={n}: {len(holder.thetas)} states in a collection of {n}", case)
    handed = [(s, tn, 0) for s, tn in getattr(model, "handed", [])]
    state = _handed_state(col, handed, 0, case, "mcmc")
    if state is None:
        return None
    if getattr(model, "at_first_step", None) is not None:
        state = model.at_first_step
    out = first_outputs(state)
    now = model.rng
    if isinstance(now, np.random.Generator) and not np.array_equal(first_outputs(now.bit_generator.state), out):
        col.count("real model: generator state moved between hand-over and the end of sample() (not judged)")
    return out


def run_vi(p, col):
    n = p["n"]
    case = dict(p, kind="vi")
    streams = []
    for _rep in range(2):
        col.evaluations += 1
        col.transitions += 1
        model = CountingVI()
        try:
            holder = _call(model, n, p)
        except Exception as exc:  # noqa: BLE001
            if not exception_origin_in_repo(exc):
                raise
            col.violation("C17|raised|vi", f"sample() raised on a variational model for n={n}: {short_exc(exc)}", case)
            return
        asks = [e for e in model.log if e[0] == "sample"]
        asked = [e[2].get("num_samples", e[1][0] if e[1] else None) for e in asks]
        col.outcome("vi", tuple(asked), len(holder.thetas))
        if len(asks) != 1 or asked[0] != n:
            col.violation("C17|vi|not-asked-once-for-n", f"n={n}: the variational model was asked {len(asks)} time(s), for {asked} samples", case)
        elif len(holder.thetas) != n or not holder.is_complete:
            col.violation("C17|vi|collection-incomplete",
                          f"n={n}: the model returned {len(model.made)} samples, the collection holds {len(holder.thetas)}; is_complete={holder.is_complete}", case)
        hs = [e[1] for e in model.log if e[0] == "set_rng" and e[1] is not None]
        streams.append(first_outputs(hs[-1]) if hs else None)
    col.states += 1
    if streams[0] is not None and streams[1] is not None and not np.array_equal(streams[0], streams[1]):
        col.violation("C17|vi|generator-differs-for-identical-call", f"two identical calls (seed={p['seed']}) handed different generators", case)
    if streams[0] is not None:
        col.nontriv("vi-stream", p["seed"])


# ------------------------------------------------------------------ cross-call oracles
# ------------------------------------------------------------------ the schedule through the command line
# variables a batch scheduler / MPI launcher sets for an array task or a rank (none of them is an input of the sampler)
SCHEDULER_ENV = ["SLURM_ARRAY_TASK_ID", "SLURM_PROCID", "SLURM_LOCALID", "PBS_ARRAYID", "PBS_ARRAY_INDEX", "LSB_JOBINDEX", "SGE_TASK_ID",
                 "RANK", "LOCAL_RANK", "OMPI_COMM_WORLD_RANK", "PMI_RANK", "NF_TASK_INDEX"]


def run_cli_schedule(col):
    """train_model --n-burnin b --thin t --n-samples n on an observed and on a wholly unobserved screen: the real model is
    stepped exactly b + n*t times and its state is taken after steps b+t, ..., b+n*t (class-level counting wrapper around
    SparseDrugCombo.step / get_model_state / reset_model, removed afterwards)."""
    import shutil
    from batchie.models import sparse_combo as SCM
    from ..cli import run_cli

    rows_obs = [("s0", "p0", (("a", 1.0), ("b", 1.0)), 0.5, True), ("s1", "p1", (("a", 1.0), ("c", 2.0)), 0.25, True),
                ("s0", "p2", (("b", 1.0), ("c", 2.0)), 0.75, False)]
    rows_un = [(r[0], r[1], r[2], r[3], False) for r in rows_obs]
    tmp = env.scratch_dir("c17cli")
    log = []
    saved = {n: getattr(SCM.SparseDrugCombo, n) for n in ("step", "get_model_state", "reset_model")}

    def wrap(name):
        real = saved[name]

        def w(self, *a, **k):
            log.append(name)
            return real(self, *a, **k)
        return w

    try:
        for n in saved:
            setattr(SCM.SparseDrugCombo, n, wrap(n))
        for label, rows in (("observed", rows_obs), ("nothing observed", rows_un)):
            data = os.path.join(tmp, f"{label[:3]}.h5")
            make_screen(rows).save_h5(data)
            # each schedule twice in a row into the SAME --output (the second time with one more burn-in step and another
            # seed): a finished file at the output path is no reason not to sample
            for (b, t, n, seed_) in ((7, 2, 3, 3), (8, 2, 3, 4), (0, 1, 1, 3), (1, 1, 1, 5), (3, 1, 2, 3), (1, 3, 1, 3)):
                del log[:]
                case = {"kind": "cli-schedule", "screen": label, "b": b, "t": t, "n": n, "seed": seed_}
                col.evaluations += 1
                col.states += 1
                col.transitions += 1
                out = os.path.join(tmp, "thetas.h5")
                try:
                    run_cli("train_model", ["--data", data, "--output", out, "--model", "SparseDrugCombo", "--model-param", "n_embedding_dimensions=2",
                                            "--n-samples", n, "--n-burnin", b, "--thin", t, "--seed", seed_])
                except BaseException as exc:  # noqa: BLE001
                    col.violation("C17|cli|raised", f"train_model on a screen with {label}, b={b} t={t} n={n}: {short_exc(exc)}", case)
                    continue
                steps = 0
                taken = []
                reset_before_first_step = False
                for ev in log:
                    if ev == "reset_model" and steps == 0:
                        reset_before_first_step = True
                    elif ev == "reset_model":
                        steps = 0
                        taken = []
                    elif ev == "step":
                        steps += 1
                    elif ev == "get_model_state":
                        taken.append(steps)
                want = [b + j * t for j in range(1, n + 1)]
                col.outcome("cli-schedule", label, b, t, n, tuple(taken))
                col.nontriv("cli-schedule", label, b, t, n)
                if steps != b + n * t:
                    col.violation("C17|cli|total-steps", f"train_model --n-burnin {b} --thin {t} --n-samples {n} on a screen with {label}: the model was stepped {steps} times, expected {b + n * t}", case)
                elif taken != want:
                    col.violation("C17|cli|recorded-at-wrong-steps", f"train_model b={b} t={t} n={n} ({label}): states taken after steps {taken}, expected {want}", case)
                if not reset_before_first_step:
                    col.violation("C17|cli|not-reset", f"train_model b={b} t={t} n={n} ({label}): the model was not reset before its first step", case)
        # the same request through the command line (twice) and through sampling.sample: one triple, one chain.  Seeds incl. 0
        # (a seed of 0 is a seed) and the option left out (documented default 0).
        from batchie.data import ExperimentSpace, Screen as _Screen
        data = os.path.join(tmp, "obs.h5")
        # ... for chain index 1 and chain index 0 (an index of 0 is an index), in a plain environment and inside a batch-scheduler
        # job (array / rank variables set to 1): the stream depends on (seed, number of chains, chain index) only
        for seed_, argv_seed in ((0, ["--seed", 0]), (0, []), (7, ["--seed", 7])):
            for chain in (1, 0):
                for sched in (False, True):
                    case = {"kind": "cli-schedule", "stream": True, "seed": seed_, "explicit": bool(argv_seed), "chain": chain, "scheduler_env": sched}
                    outs = []
                    saved_env = {k: os.environ.get(k) for k in SCHEDULER_ENV}
                    try:
                        if sched:
                            os.environ.update({k: "1" for k in SCHEDULER_ENV})
                        for rep in range(2 if not sched else 1):
                            out = os.path.join(tmp, f"stream_{rep}.h5")
                            col.evaluations += 1
                            col.transitions += 1
                            run_cli("train_model", ["--data", data, "--output", out, "--model", "SparseDrugCombo", "--model-param", "n_embedding_dimensions=2",
                                                    "--n-samples", 2, "--n-burnin", 1, "--thin", 1, "--n-chains", 2, "--chain-index", chain] + argv_seed)
                            outs.append([np.asarray(th.W).tobytes() for th in ThetaHolder.load_h5(out).thetas])
                    finally:
                        for k, v_ in saved_env.items():
                            if v_ is None:
                                os.environ.pop(k, None)
                            else:
                                os.environ[k] = v_
                    scr = _Screen.load_h5(data)
                    m = SCM.SparseDrugCombo(experiment_space=ExperimentSpace.from_screen(scr), n_embedding_dimensions=2)
                    m.add_observations(scr.subset_observed())
                    lib = S.sample(model=m, results=ThetaHolder(n_thetas=2), seed=seed_, n_chains=2, chain_index=chain, n_burnin=1, thin=1, progress_bar=False)
                    lib = [np.asarray(th.W).tobytes() for th in lib.thetas]
                    col.outcome("cli-stream", seed_, bool(argv_seed), chain, sched, outs[0] == outs[-1], outs[0] == lib)
                    col.nontriv("cli-stream", seed_, bool(argv_seed), chain, sched)
                    where = f"(chain {chain} of 2{', batch-scheduler variables set to 1' if sched else ''})"
                    if outs[0] != outs[-1]:
                        col.violation("C17|cli|rng|differs-for-identical-triple", f"train_model {'--seed ' + str(seed_) if argv_seed else 'without --seed'} {where} run twice gives different chains", case)
                    elif outs[0] != lib:
                        col.violation("C17|cli|rng|differs-from-library", f"train_model {'--seed ' + str(seed_) if argv_seed else 'without --seed (default 0)'} {where} gives another chain than sampling.sample(seed={seed_}, n_chains=2, chain_index={chain}) for the same request", case)
    finally:
        for n, f in saved.items():
            setattr(SCM.SparseDrugCombo, n, f)
        shutil.rmtree(tmp, ignore_errors=True)


CROSS_TRIPLES = [(0, 1, 0), (0, 2, 0), (0, 2, 1), (7, 3, 2), (12, 4, 0), (12, 4, 3), (2**32 - 1, 2, 1)]


def stream_table():
    """{"seed|n_chains|index": digest of the generator state the model works with} for CROSS_TRIPLES (this interpreter)."""
    import hashlib

    out = {}
    for seed, c, i in CROSS_TRIPLES:
        m = CountingMCMC()
        S.sample(model=m, results=ThetaHolder(n_thetas=1), seed=seed, n_chains=c, chain_index=i, n_burnin=0, thin=1, progress_bar=False)
        states = [e[1] for e in m.log if e[0] == "rng_at_first_step"]
        raw = first_outputs(states[0]) if states else None
        out[f"{seed}|{c}|{i}"] = None if raw is None else hashlib.sha256(np.asarray(raw).tobytes()).hexdigest()[:20]
    return out


def child_main():
    import json as _json

    print("C17CHILD" + _json.dumps(stream_table(), sort_keys=True))


def run_cross_process(col, hashseeds):
    """'identical for identical triples' also between interpreter processes: two chain jobs of one training run are separate
    processes (with their own string-hash salt), and a rerun of a job must reproduce its chain."""
    import json as _json
    import subprocess
    import sys

    here = stream_table()
    tables = {"this process": here}
    for hs in hashseeds:
        e = dict(os.environ, PYTHONHASHSEED=str(hs), PYTHONDONTWRITEBYTECODE="1")
        r = subprocess.run([sys.executable, "-c", "import sys; sys.path.insert(0, %r); from mc.props import c17; c17.child_main()" % env.VERIF],
                           env=e, capture_output=True, text=True, timeout=600)
        line = next((ln for ln in r.stdout.splitlines() if ln.startswith("C17CHILD")), None)
        if line is None:
            raise RuntimeError(f"child interpreter failed: {r.stderr[-400:]}")
        tables[f"PYTHONHASHSEED={hs}"] = _json.loads(line[len("C17CHILD"):])
        col.evaluations += len(CROSS_TRIPLES)
        col.transitions += len(CROSS_TRIPLES)
    for key, d0 in here.items():
        col.states += 1
        col.outcome("cross-process-stream", key, d0)
        col.nontriv("cross-process-stream", key)
        for name, tab in tables.items():
            if tab.get(key) != d0:
                seed, c, i = key.split("|")
                col.violation("C17|rng|differs-across-processes",
                              f"sample(seed={seed}, n_chains={c}, chain_index={i}) hands the model another stream in a second interpreter process ({name}) than in this one",
                              {"kind": "cross-process", "hashseeds": hashseeds})
                break


def _judge_same(col, ref, ref_p, out, p):
    if out is None or ref is None:
        return
    if not np.array_equal(ref, out):
        col.violation("C17|rng|differs-for-identical-triple",
                      f"(seed={p['seed']}, n_chains={p['n_chains']}, index={p['index']}): the handed generator differs between "
                      f"{ref_p['model']} b={ref_p['b']} t={ref_p['t']} n={ref_p['n']} and {p['model']} b={p['b']} t={p['t']} n={p['n']}"
                      f"{' with the batchie logger at DEBUG' if p.get('debug') else ''}{' on a model object sample() had used before with another triple' if p.get('warm') else ''}",
                      {"kind": "same-triple", "a": ref_p, "b": p})


def _judge_pair(col, seed, c, i, a, j, bb, pa, pb):
    if a is None or bb is None:
        return
    if np.array_equal(a, bb):
        col.violation("C17|rng|same-stream-for-two-chains", f"seed={seed} n_chains={c}: chains {i} and {j} were handed identical generators",
                      {"kind": "pair", "a": pa, "b": pb})
        return
    common = np.intersect1d(a, bb)
    if common.size:
        col.violation("C17|rng|streams-overlap",
                      f"seed={seed} n_chains={c}: the first {NRAW} outputs of chains {i} and {j} share {common.size} value(s)",
                      {"kind": "pair", "a": pa, "b": pb})


def _run(p, col):
    return run_mcmc_sparse(p, col) if p["model"] == "sparse" else run_mcmc_stub(p, col)


# ------------------------------------------------------------------ contract
def plan(tier, seed):
    b = BOUNDS[tier]
    items = [{"kind": "mcmc", "seed": s} for s in b["seeds"]]
    items.append({"kind": "vi", "seeds": b["seeds"]})
    items.append({"kind": "cli-schedule"})
    items.append({"kind": "cross-process", "hashseeds": [1, 2] if tier == "quick" else [1, 2, 3, 4]})
    return items


def run_item(item, col, tier):
    B = BOUNDS[tier]
    if item["kind"] == "cli-schedule":
        run_cli_schedule(col)
        return
    if item["kind"] == "cross-process":
        run_cross_process(col, item["hashseeds"])
        return
    if item["kind"] == "vi":
        for seed in item["seeds"]:
            # the small range completely, plus counts around powers of two and typical chunk sizes (a 'bounded memory'
            # loop that asks in pieces only shows for large n)
            for n in list(range(B["vi_n"][0], B["vi_n"][1] + 1)) + [63, 64, 65, 100, 127, 128, 129, 255, 256, 257, 511, 512, 513, 1000, 1023, 1024, 1025, 4097]:
                run_vi({"seed": seed, "n": n, "n_chains": None, "index": None, "b": None, "t": None}, col)
                run_vi({"seed": seed, "n": n, "n_chains": 3, "index": 1, "b": 2, "t": 2}, col)
        return
    seed = item["seed"]
    grid = list(itertools.product(range(B["burn_in"][0], B["burn_in"][1] + 1), range(B["thin"][0], B["thin"][1] + 1),
                                  range(B["n"][0], B["n"][1] + 1)))
    # schedules far outside the small grid (the CLI defaults 1000/10/100, counts around 256, large thinning):
    # a special-cased fast path only shows there
    if item.get("large", True):
        for (b, t, n) in [(1000, 10, 100), (0, 1, 300), (7, 3, 257), (256, 256, 2), (255, 1, 513), (3, 100, 3),
                          # more than 1000 / 4096 sampling iterations with thinnings that divide neither
                          (4, 3, 400), (0, 7, 500), (2, 1500, 2), (5, 999, 3), (1, 7, 700), (0, 4097, 1)]:
            run_mcmc_stub({"model": "stub", "seed": seed, "n_chains": 2, "index": 1, "b": b, "t": t, "n": n}, col)
        for (b, t, n) in [(2, 2, 2), (0, 1, 3), (3, 1, 1)]:
            for fail_at in range(1, b + n * t + 1):
                for exc_type in (np.linalg.LinAlgError, FloatingPointError, ValueError):
                    run_failing_step({"model": "stub", "seed": seed, "n_chains": 2, "index": 1, "b": b, "t": t, "n": n}, fail_at, exc_type, col)
    sampled = False
    for c in range(B["n_chains"][0], B["n_chains"][1] + 1):
        per_index = {}
        for i in range(c):
            ref, ref_p = None, None
            for (b, t, n) in grid:
                p = {"model": "stub", "seed": seed, "n_chains": c, "index": i, "b": b, "t": t, "n": n}
                out = run_mcmc_stub(p, col)
                if ref is None:
                    ref, ref_p = out, p
                else:
                    _judge_same(col, ref, ref_p, out, p)
            for (b, t, n) in B["real_model_schedules"]:
                p = {"model": "sparse", "seed": seed, "n_chains": c, "index": i, "b": b, "t": t, "n": n}
                _judge_same(col, ref, ref_p, run_mcmc_sparse(p, col), p)
            # the same triple with the package logger at DEBUG (--verbose): the chain must work with the same stream
            for model, (b, t, n) in (("stub", (0, 1, 1)), ("stub", (2, 2, 2)), ("sparse", (1, 2, 2))):
                p = {"model": model, "seed": seed, "n_chains": c, "index": i, "b": b, "t": t, "n": n, "debug": True}
                _judge_same(col, ref, ref_p, _run(p, col), p)
                col.nontriv("debug-logging", seed, c, i, model)
            # the same triple on a model object that sample() has used before with another triple
            for model, (b, t, n) in (("stub", (0, 1, 1)), ("stub", (2, 2, 2)), ("sparse", (1, 2, 2))):
                p = {"model": model, "seed": seed, "n_chains": c, "index": i, "b": b, "t": t, "n": n, "warm": True}
                _judge_same(col, ref, ref_p, _run(p, col), p)
                col.nontriv("reused-model", seed, c, i, model)
            per_index[i] = (ref, ref_p)
            if ref is not None:
                col.outcome("stream", ref[:4].tobytes())
                if c >= 2:
                    col.nontriv("stream", seed, c, i)
                if not sampled and c >= 2:
                    sampled = True
                    col.sample({"seed": seed, "n_chains": c, "index": i, "first_outputs": [int(x) for x in ref[:3]]})
        for i in range(c):
            for j in range(i + 1, c):
                _judge_pair(col, seed, c, i, per_index[i][0], j, per_index[j][0], per_index[i][1], per_index[j][1])


def replay(case, col):
    kind = case.get("kind")
    if kind == "failing-step":
        p = {k_: case[k_] for k_ in ("model", "seed", "n_chains", "index", "b", "t", "n")}
        run_failing_step(p, case["fail_at"], {"LinAlgError": np.linalg.LinAlgError, "FloatingPointError": FloatingPointError, "ValueError": ValueError}[case["exc"]], col)
        return
    if kind == "cli-schedule":
        run_cli_schedule(col)
        return
    if kind == "cross-process":
        run_cross_process(col, case["hashseeds"])
        return
    if kind == "vi":
        run_vi({k_: case[k_] for k_ in ("seed", "n", "n_chains", "index", "b", "t")}, col)
    elif kind in ("mcmc-stub", "mcmc-sparse"):
        p = {k_: case[k_] for k_ in ("model", "seed", "n_chains", "index", "b", "t", "n", "debug", "warm") if k_ in case}
        _run(p, col)
    elif kind == "same-triple":
        _judge_same(col, _run(case["a"], col), case["a"], _run(case["b"], col), case["b"])
    elif kind == "pair":
        a, b = case["a"], case["b"]
        _judge_pair(col, a["seed"], a["n_chains"], a["index"], _run(a, col), b["index"], _run(b, col), a, b)
    else:
        raise ValueError(f"unknown replay case kind {kind!r}")
