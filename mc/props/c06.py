"""C06  Every candidate plate is scored once; the minimum-score allowed plate is chosen.

Four kinds of work item, all on the real code:

* ``cover``   E1: every (screen, observation pattern, batch, n_chunks) of the bounded family;
              ``score_chunk`` is called for every chunk index with a recording Scorer.
* ``select``  E1 x E2: small screens; every assignment of the score menu to the candidates;
              chunk holders saved, then *every order* of the chunk files is a leaf of the
              choice-tree explorer (fresh ``load_h5`` per leaf, ``concat``), and
              ``select_next_plate`` is called under every policy of the policy family.
* ``real``    E2: the shipped ``RandomScorer`` (its ``rng.random()`` answers are choice
              points) and ``SizeScorer`` through the same pipeline.
* ``cli``     one work item: ``batchie.cli.calculate_scores.main`` and
              ``batchie.cli.select_next_plate.main`` in-process (``sys.argv`` patched).

The oracle is a plain-Python model of the *statement* (candidates = unobserved plates
not in the batch; conditions computed from the input rows, not from batchie's ids).
"""
import itertools
import os
import shutil
import sys
from collections import Counter

import numpy as np

from .. import env

env.setup()

from ..core import floats, jsonable, short_exc  # noqa: E402
from ..explore import Chooser, NondeterminismError, ScriptedGenerator, explore  # noqa: E402
from ..screens import make_screen  # noqa: E402

from batchie.core import PlatePolicy, Scorer  # noqa: E402
from batchie.policies.k_per_sample import KPerSamplePlatePolicy  # noqa: E402
from batchie.scoring.main import ChunkedScoresHolder, score_chunk, select_next_plate  # noqa: E402
from batchie.scoring.rand import RandomScorer  # noqa: E402
from batchie.scoring.size import SizeScorer  # noqa: E402

PROP = "C06"
EPILOGUE_ITEMS = 4
LEVEL = "model_checking"
ENGINE = "E1-input-enumeration+E2-choice-tree"
TECHNIQUE = (
    "bounded-exhaustive enumeration of (screen, observation pattern, batch, n_chunks, score assignment, "
    "policy) on the real score_chunk / ChunkedScoresHolder / select_next_plate with a recording Scorer; "
    "every order of the saved chunk files is a leaf of the choice-tree explorer; reference model in plain Python"
)
LEVEL_TEXT = (
    "For every input of the bounded family the real functions were executed and compared with a reference "
    "model of the statement: no sampling; all chunk indices, all chunk-file orders (<= 4 files), all score "
    "assignments from the menu and all policies of the family were run."
)
RULE = (
    "cover: every screen of the family (P plates of 1-2 rows drawn from a pool with duplicate / swapped / "
    "other-sample / control conditions) x every per-plate observation pattern x every batch (None and every "
    "subset of all plate ids, observed ones included) x n_chunks 1..P+2, score_chunk run for every chunk "
    "index; an input is one state, a call of score_chunk/save/load+concat/select_next_plate/CLI main one "
    "transition, a judged execution (one cover input, or one select_next_plate call) one evaluation. "
    "A cover input is non-trivial (distinct by input) when >= 2 chunks are non-empty, or the candidates are "
    "a proper subset of the plates, or the batch reduction dropped >= 1 duplicate row. "
    "select: every score assignment x every order of the chunk files x every policy; non-trivial (distinct by "
    "input, assignment and policy; orders are not counted separately) when >= 2 plates are allowed or the "
    "allowed plates are a proper subset of the candidates."
)

NEG_INF = float("-inf")
MENU = [NEG_INF, 0.0, 1.0, 2.5]           # every assignment => every tie pattern, -inf ties included
MENU_SMALL = [NEG_INF, 0.0, 1.0]          # used when 4 candidates are assigned in every way
COVER_SCORES = [1.0, 0.0, NEG_INF, 0.0, 2.5, 1.0]

BOUNDS = {
    "quick": {
        "cover": {"plates": "1..4", "rows_per_plate": "1..2", "variants": ["mix0", "mix2", "alt", "sgl"],
                  "variants_at_4_plates": ["mix0", "alt", "sgl"], "n_chunks": "1..P+2",
                  "batches": "None + every subset of plate ids"},
        "select": {"plates": "1..3", "variants": ["alt"], "variants_at_1_2_plates": ["alt", "mix2"], "n_chunks": "1..4", "orders": "all (<= 4!)",
                   "scores": "menu {-inf,0,1,2.5} in every way", "policies": "none, k-per-sample k=1,2, stub allowing every subset of the candidates (+ all ids, + non-candidates)"},
        "real": {"plates": "1..3", "scorers": ["RandomScorer (3-value answer menu per draw)", "SizeScorer"],
                 "n_chunks": "1..4 (RandomScorer at 3 plates: 1..3)", "orders": "all"},
        "cli_names_and_layout": "2-3 plate screens also with plates named '1', '2', ... (a name that spells another plate's id) and the chunk files in one directory per chunk under one file name",
        "cli": {"plates": "1..3", "n_chunks": "1..P+1 (3 plates: 2 and 4)", "scorers": ["SizeScorer", "RandomScorer (<= 2 plates)"],
                "orders": "all for <= 3 files, 3 orders for 4 files; k-per-sample policies on one order each"},
    },
    "thorough": {
        "cover": {"plates": "1..5", "rows_per_plate": "1..2", "variants": ["mix0", "mix2", "mix4", "alt", "blk"],
                  "variants_at_5_plates": ["mix0", "mix2", "alt"], "n_chunks": "1..P+2",
                  "batches": "None + every subset of plate ids"},
        "select": {"plates": "1..4", "variants": ["alt", "blk", "mix2"], "variants_at_4_plates": ["alt"],
                   "n_chunks": "1..4", "orders": "all (<= 4!)",
                   "scores": "menu {-inf,0,1,2.5} in every way for <= 3 candidates, {-inf,0,1} for 4",
                   "policies": "none, k-per-sample k=1,2, stub allowing every subset of the candidates (+ all ids, + non-candidates)"},
        "real": {"plates": "1..3 (RandomScorer, 3-value answer menu per draw), 1..4 (SizeScorer)", "n_chunks": "1..4", "orders": "all"},
        "cli": {"plates": "1..3", "n_chunks": "1..P+1", "scorers": ["SizeScorer", "RandomScorer"],
                "orders": "all for <= 3 files, 3 orders for 4 files; k-per-sample policies on one order each"},
    },
}
ASSUMPTIONS = [
    "plates are observed atomically (every row of a plate shares the mask); partially observed plates are not generated",
    "batch ids are ids of plates of the screen (any subset, observed plates included)",
    "'distinct condition' = (sample, treatments); accepted with ordered or with unordered treatment pairs, "
    "whichever reading the handed subset satisfies completely (no two rows equal, every condition represented)",
    "don't-care: which duplicate survives the reduction; whether observed batch plates contribute to the union "
    "(rows must come from own + all batch plates, conditions of own + unobserved batch plates must be represented)",
    "don't-care: with no batch the statement only says the plate itself is scored: rows handed must be own rows "
    "and represent every own condition",
    "don't-care: which of several minimal allowed plates is returned; -inf is an ordinary score",
    "'allowed by the policy' for KPerSamplePlatePolicy = the answer of the real policy object called by the "
    "harness on (batch plates, candidates); its answer depends on the order of the batch plates, so any order "
    "is accepted; a policy that raises (multi-sample plates) ends the execution without a verdict",
    "the score of a plate is the value the Scorer returned for it (CLI item: the value stored in the chunk file)",
    "score menu {-inf, 0.0, 1.0, 2.5}: the design's menu lists 0.0 twice, which adds no assignment",
    "CLI item: RandomScorer draws from an unseeded generator inside score_chunk; only value-independent facts are "
    "judged and recorded there, so counts are reproducible",
]

CTL = ""
A1, A2, B1 = ("a", 1.0), ("a", 2.0), ("b", 1.0)
C0 = (CTL, 0.0)
POOL = [
    ("s0", A1, B1),
    ("s0", A1, B1),   # exact duplicate condition
    ("s0", B1, A1),   # swapped order
    ("s1", A1, B1),   # other sample
    ("s0", A1, C0),   # single agent
    ("s0", C0, A1),   # control first
    ("s0", A2, B1),   # other dose
    ("s1", B1, A1),
    ("s0", C0, B1),   # control first, other drug
    ("s0", A2, C0),   # single agent at the second dose
]
TPOOL = [(A1, B1), (A1, B1), (A1, B1), (B1, A1), (A1, C0), (A2, B1)]
SPOOL = [(A1, C0), (C0, B1), (A2, C0), (A1, B1), (B1, A1), (C0, C0), (A2, B1), (C0, A1)]


class HarnessAssumption(Exception):
    pass


# ------------------------------------------------------------------ screens
def plate_name(j, names=None):
    # "numeric": plates named "1", "2", ... - each name spells the ID of the next plate (ids follow the sorted names: 0, 1, ...)
    return str(j + 1) if names == "numeric" else f"p{j}"


def build_rows(sizes, variant, obs, names=None):
    rows = []
    g = 0
    for j, size in enumerate(sizes):
        for _ in range(size):
            if variant.startswith("mix"):
                s, t1, t2 = POOL[(g + int(variant[3:])) % len(POOL)]
            elif variant == "alt":
                s = f"s{j % 2}"
                t1, t2 = TPOOL[g % len(TPOOL)]
            elif variant == "sgl":  # one sample; single-agent / control-first / vehicle rows next to combinations
                s = "s0"
                t1, t2 = SPOOL[g % len(SPOOL)]
            elif variant == "blk":
                s = "s0" if j < 2 else "s1"
                t1, t2 = TPOOL[g % len(TPOOL)]
            else:
                raise KeyError(variant)
            rows.append((s, plate_name(j, names), (t1, t2), round(0.05 + 0.1 * g, 4), bool(obs[j])))
            g += 1
    return rows


def _norm(t):
    name, dose = t
    return (CTL, 0.0) if (name == CTL or dose <= 0) else (name, float(dose))


class Ctx:
    """A screen of the family plus the reference view of it."""

    def __init__(self, spec):
        self.spec = spec
        sizes, variant, obs = spec["sizes"], spec["variant"], spec["obs"]
        self.rows = build_rows(sizes, variant, obs, spec.get("names"))
        self.screen = make_screen(self.rows, control=CTL)
        self.P = len(sizes)
        if not np.array_equal(np.asarray(self.screen.observations, float), np.array([r[3] for r in self.rows])):
            raise HarnessAssumption("Screen does not keep the observation values it was given")
        self.obs_index = {float(r[3]).hex(): i for i, r in enumerate(self.rows)}
        self.cond_ord = [(r[0], (_norm(r[2][0]), _norm(r[2][1]))) for r in self.rows]
        self.cond_un = [(s, tuple(sorted(t))) for s, t in self.cond_ord]
        # plate index -> id as encoded by the screen under test (not assumed to be the index)
        self.pid = []
        self.plate_rows = {}
        pids = np.asarray(self.screen.plate_ids)
        for j in range(self.P):
            idx = [i for i, r in enumerate(self.rows) if r[1] == plate_name(j, spec.get("names"))]
            ids = {int(pids[i]) for i in idx}
            if len(ids) != 1:
                raise HarnessAssumption("rows of one plate carry different plate ids (C01 territory)")
            self.pid.append(ids.pop())
            self.plate_rows[self.pid[-1]] = frozenset(idx)
        if len(set(self.pid)) != self.P:
            raise HarnessAssumption("two plates share a plate id (C01 territory)")
        self.all_ids = sorted(self.pid)
        self.observed_ids = {self.pid[j] for j in range(self.P) if obs[j]}

    def candidates(self, batch):
        b = set(batch or [])
        return sorted(i for i in self.all_ids if i not in self.observed_ids and i not in b)

    def handed_rows(self, sub):
        if getattr(sub, "screen", None) is self.screen and hasattr(sub, "selection_vector"):
            return tuple(int(i) for i in np.flatnonzero(np.asarray(sub.selection_vector)))
        out = []
        for v in np.asarray(sub.observations, float).tolist():
            if float(v).hex() not in self.obs_index:
                raise HarnessAssumption("cannot identify a row handed to the scorer")
            out.append(self.obs_index[float(v).hex()])
        return tuple(out)


def all_batches(ids):
    out = [None]
    for k in range(len(ids) + 1):
        for c in itertools.combinations(ids, k):
            out.append(list(c))
    return out


# ------------------------------------------------------------------ stubs
class _Recorder:
    def _record(self, plates, scores):
        rec = {}
        for k, v in plates.items():
            rec[int(k)] = self.ctx.handed_rows(v)
        self.calls.append(rec)
        self.returned.append({int(k): float(v) for k, v in scores.items()})


class RecordingScorer(_Recorder, Scorer):
    def __init__(self, ctx, score_of, reverse=False):
        self.ctx, self.score_of, self.reverse = ctx, score_of, reverse
        self.calls, self.returned = [], []

    def score(self, plates, distance_matrix, samples, rng, progress_bar):
        # the Scorer contract fixes the keys of the answer, not their order: reverse=True answers back to front
        keys = list(plates)[::-1] if self.reverse else list(plates)
        out = {k: self.score_of.get(int(k), NEG_INF) for k in keys}
        self._record(plates, out)
        return out


class SpyRandomScorer(_Recorder, RandomScorer):
    def __init__(self, ctx):
        self.ctx = ctx
        self.calls, self.returned = [], []

    def score(self, plates, distance_matrix, samples, rng, progress_bar):
        out = RandomScorer.score(self, plates, distance_matrix, samples, rng, progress_bar)
        self._record(plates, out)
        return out


class SpySizeScorer(_Recorder, SizeScorer):
    def __init__(self, ctx):
        self.ctx = ctx
        self.calls, self.returned = [], []

    def score(self, plates, distance_matrix, samples, rng, progress_bar):
        out = SizeScorer.score(self, plates, distance_matrix, samples, rng, progress_bar)
        self._record(plates, out)
        return out


class SubsetPolicy(PlatePolicy):
    """Allows exactly the plates whose id is in ``allowed`` (answers in reversed order)."""

    def __init__(self, allowed):
        self.allowed = set(allowed)

    def filter_eligible_plates(self, batch_plates, unobserved_plates, rng):
        return [p for p in reversed(list(unobserved_plates)) if int(p.plate_id) in self.allowed]


def make_policy(desc):
    if desc[0] == "none":
        return None
    if desc[0] == "stub":
        return SubsetPolicy(desc[1])
    if desc[0] == "kps":
        return KPerSamplePlatePolicy(int(desc[1]))
    raise KeyError(desc)


def allowed_sets(ctx, batch, desc):
    """Reference: list of alternative allowed-id sets (any of them may be the one the
    code under test works with), or None when the policy itself refuses."""
    cand = ctx.candidates(batch)
    if desc[0] == "none":
        return [frozenset(cand)]
    if desc[0] == "stub":
        return [frozenset(cand) & frozenset(desc[1])]
    pol = make_policy(desc)
    cand_plates = [ctx.screen.get_plate(i) for i in cand]
    b_ids = [i for i in ctx.all_ids if i in set(batch or [])]
    out = []
    for perm in itertools.permutations(b_ids):
        try:
            res = pol.filter_eligible_plates(
                batch_plates=[ctx.screen.get_plate(i) for i in perm],
                unobserved_plates=list(cand_plates),
                rng=np.random.default_rng(0),
            )
        except Exception:  # noqa: BLE001  the policy refuses: no verdict
            return None
        s = frozenset(int(p.plate_id) for p in res)
        if s not in out:
            out.append(s)
    return out


def policy_family(ctx, batch, tier, small=False):
    cand = ctx.candidates(batch)
    fam = [["none"], ["kps", 1], ["kps", 2]]
    if small:
        return fam[:2] + [["stub", list(reversed(cand))]]
    for k in range(len(cand) + 1):
        for c in itertools.combinations(cand, k):
            fam.append(["stub", list(c)])
    if cand != ctx.all_ids:
        fam.append(["stub", list(ctx.all_ids)])
        fam.append(["stub", [i for i in ctx.all_ids if i not in cand]])
    return fam


# ------------------------------------------------------------------ oracles
def _reading_ok(conds, R, need):
    cs = [conds[i] for i in R]
    return len(set(cs)) == len(cs) and need <= set(cs)


def judge_cover(ctx, batch, n_chunks, calls, returned, holders):
    """-> (violations [(sig, msg)], facts dict)"""
    bad = []
    cand = ctx.candidates(batch)
    bset = set(batch or [])
    scored = Counter()
    for rec in calls:
        for pid in rec:
            scored[pid] += 1
    miss = [p for p in cand if p not in scored]
    if miss:
        bad.append(("C06|cover|missing", f"candidate plate id(s) {miss} were scored by no chunk index"))
    for pid, c in sorted(scored.items()):
        if pid not in cand:
            if pid in bset:
                bad.append(("C06|cover|batch-member-scored", f"plate id {pid} is in the batch but was handed to the scorer"))
            elif pid in ctx.observed_ids:
                bad.append(("C06|cover|observed-scored", f"plate id {pid} is observed but was handed to the scorer"))
            else:
                bad.append(("C06|cover|unknown-id", f"id {pid} handed to the scorer is not a plate id of the screen"))
        if c > 1:
            bad.append(("C06|cover|twice", f"plate id {pid} was scored {c} times across the chunk indices"))
    dropped = 0
    has_batch = bool(batch)
    batch_rows_all, batch_rows_unobs = set(), set()
    for b in bset:
        if b in ctx.plate_rows:
            batch_rows_all |= ctx.plate_rows[b]
            if b not in ctx.observed_ids:
                batch_rows_unobs |= ctx.plate_rows[b]
    for rec in calls:
        for pid, R in rec.items():
            if pid not in ctx.plate_rows or pid not in cand:
                continue
            own = ctx.plate_rows[pid]
            if len(set(R)) != len(R):
                bad.append(("C06|handed|row-twice", f"plate id {pid}: the subset handed to the scorer repeats a row"))
                continue
            if has_batch:
                umax = own | batch_rows_all
                umin = own | batch_rows_unobs
                if not set(R) <= umax:
                    bad.append(("C06|handed|foreign-row", f"plate id {pid} with batch {batch}: scored on rows {sorted(set(R) - umax)} that belong neither to it nor to a batch plate"))
                    continue
                ok_ord = _reading_ok(ctx.cond_ord, R, {ctx.cond_ord[i] for i in umin})
                ok_un = _reading_ok(ctx.cond_un, R, {ctx.cond_un[i] for i in umin})
                if not (ok_ord or ok_un):
                    got_un = {ctx.cond_un[i] for i in R}
                    cs_ord = [ctx.cond_ord[i] for i in R]
                    if not {ctx.cond_un[i] for i in umin} <= got_un:
                        bad.append(("C06|handed|condition-missing", f"plate id {pid} with batch {batch}: rows {list(R)} do not represent every condition of the union {sorted(umin)}"))
                    elif len(set(cs_ord)) != len(cs_ord):
                        bad.append(("C06|handed|condition-duplicated", f"plate id {pid} with batch {batch}: rows {list(R)} contain two experiments of the same condition"))
                    else:
                        bad.append(("C06|handed|reduction-inconsistent", f"plate id {pid} with batch {batch}: rows {list(R)} are a one-per-condition reduction under neither the ordered nor the unordered reading"))
                dropped += len(umax) - len(R)
            else:
                if not set(R) <= own:
                    bad.append(("C06|handed|wrong-plate", f"plate id {pid}, no batch: scored on rows {sorted(set(R) - own)} of another plate"))
                elif not {ctx.cond_un[i] for i in own} <= {ctx.cond_un[i] for i in R}:
                    bad.append(("C06|handed|plate-incomplete", f"plate id {pid}, no batch: rows {list(R)} do not represent every experiment condition of the plate {sorted(own)}"))
    for ci, (ret, h) in enumerate(zip(returned, holders)):
        entries = list(zip(np.asarray(h.plate_ids).tolist(), np.asarray(h.scores, float).tolist()))
        for pid, s in ret.items():
            vals = [v for i, v in entries if int(i) == pid]
            if vals != [s]:
                bad.append(("C06|holder|contents", f"chunk {ci}: the scorer returned {s} for plate id {pid}, the chunk result holds {vals}"))
    sizes = [len(r) for r in calls]
    facts = {"cand": cand, "chunk_sizes": sizes, "dropped": dropped,
             "nontrivial": sum(1 for s in sizes if s) >= 2 or len(cand) < ctx.P or dropped > 0}
    return bad, facts


def judge_select(ctx, batch, score_of, alts, ret_id, returned_none):
    """alts: alternative allowed sets (non-empty list).  -> [(sig, msg)]"""
    cand = set(ctx.candidates(batch))
    if returned_none:
        if any(len(a) == 0 for a in alts):
            return []
        return [("C06|select|nothing-although-allowed", f"nothing was returned although plate id(s) {sorted(alts[0])} are allowed")]
    pid = ret_id
    if pid not in cand:
        if pid in set(batch or []):
            return [("C06|select|batch-member", f"returned plate id {pid} is already in the batch {batch}")]
        if pid in ctx.observed_ids:
            return [("C06|select|observed", f"returned plate id {pid} is an observed plate")]
        return [("C06|select|unknown-id", f"returned plate id {pid} is not a candidate plate of the screen")]
    if not any(pid in a for a in alts):
        return [("C06|select|not-allowed", f"returned plate id {pid} is not allowed by the policy (allowed: {[sorted(a) for a in alts]})")]
    if pid not in score_of:
        return [("C06|select|unscored", f"returned plate id {pid} has no score")]
    for a in alts:
        if pid in a and not any(score_of.get(q, NEG_INF) < score_of[pid] for q in a if q != pid):
            return []
    a = next(a for a in alts if pid in a)
    better = sorted(q for q in a if score_of.get(q, NEG_INF) < score_of[pid])
    return [("C06|select|not-minimal", f"returned plate id {pid} (score {score_of[pid]}) although allowed plate id(s) {better} score strictly lower ({[score_of.get(q) for q in better]})")]


# ------------------------------------------------------------------ execution helpers
def run_chunks(ctx, batch, n_chunks, scorer, rng, col):
    """Call score_chunk for every chunk index.  -> (holders, error or None)"""
    holders = []
    for ci in range(n_chunks):
        col.transitions += 1
        try:
            h = score_chunk(scorer=scorer, thetas=None, screen=ctx.screen, distance_matrix=None, rng=rng,
                            progress_bar=False, n_chunks=n_chunks, chunk_index=ci,
                            batch_plate_ids=None if batch is None else list(batch))
        except (HarnessAssumption, NondeterminismError):
            raise
        except Exception as exc:  # noqa: BLE001
            return holders, (ci, exc)
        holders.append(h)
    return holders, None


def score_list(ctx, score_of):
    return [score_of.get(ctx.pid[j], NEG_INF) for j in range(ctx.P)]


def case_of(kind, ctx, batch, n_chunks, **kw):
    c = {"kind": kind, "spec": ctx.spec, "batch": batch, "n_chunks": n_chunks}
    c.update(kw)
    return jsonable(c)


def cover_once(ctx, batch, n_chunks, score_of, col, kind="cover", count=True):
    """One judged cover execution with the recording scorer.  -> (holders or None, facts or None)"""
    scorer = RecordingScorer(ctx, score_of)
    holders, err = run_chunks(ctx, batch, n_chunks, scorer, np.random.default_rng(0), col)
    case = case_of("cover", ctx, batch, n_chunks, scores=score_list(ctx, score_of))
    if count:
        col.evaluations += 1
        col.states += 1
    if err is not None:
        ci, exc = err
        col.violation("C06|score_chunk|raised", f"score_chunk(n_chunks={n_chunks}, chunk_index={ci}, batch={batch}) raised {short_exc(exc)} on {describe(ctx)}", case)
        return None, None
    bad, facts = judge_cover(ctx, batch, n_chunks, scorer.calls, scorer.returned, holders)
    for sig, msg in bad:
        col.violation(sig, f"{describe(ctx)}, n_chunks={n_chunks}: {msg}", case)
    if any(len(c) > 1 for c in scorer.calls):
        # same execution with a scorer that answers in the opposite order
        rscorer = RecordingScorer(ctx, score_of, reverse=True)
        rholders, rerr = run_chunks(ctx, batch, n_chunks, rscorer, np.random.default_rng(0), col)
        if count:
            col.evaluations += 1
            col.count("answer-order-reversed")
        if rerr is not None:
            col.violation("C06|score_chunk|raised", f"score_chunk(n_chunks={n_chunks}, chunk_index={rerr[0]}, batch={batch}) raised {short_exc(rerr[1])} "
                          f"on {describe(ctx)} when the scorer answers in reversed order", case)
        else:
            rbad, _ = judge_cover(ctx, batch, n_chunks, rscorer.calls, rscorer.returned, rholders)
            for sig, msg in rbad:
                col.violation(sig, f"{describe(ctx)}, n_chunks={n_chunks}, scorer answering in reversed order: {msg}", case)
    return holders, facts


def describe(ctx):
    return f"screen sizes={ctx.spec['sizes']} variant={ctx.spec['variant']} observed={ctx.spec['obs']}"


def save_all(holders, d):
    files = []
    for i, h in enumerate(holders):
        fn = os.path.join(d, f"chunk{i}.h5")
        h.save_h5(fn)
        files.append(fn)
    return files


def load_combined(files, order):
    return ChunkedScoresHolder.concat([ChunkedScoresHolder.load_h5(files[i]) for i in order])


def load_combined_nested(files, order):
    """the same chunk files combined in the same order, but grouped from the right: h0.combine(h1.combine(h2 ...)) -
    concat of a holder that is itself the result of a combine ("combined in any order" covers the grouping as well)"""
    hs = [ChunkedScoresHolder.load_h5(files[i]) for i in order]
    acc = hs[-1]
    for h in reversed(hs[:-1]):
        acc = h.combine(acc)
    return acc


def select_and_judge(ctx, batch, H, desc, alts, score_of, col, case):
    """One select_next_plate call, judged (``case``: callable giving the replay case).  -> outcome label"""
    col.transitions += 1
    col.evaluations += 1
    try:
        ret = select_next_plate(scores=H, screen=ctx.screen, policy=make_policy(desc),
                                batch_plate_ids=None if batch is None else list(batch),
                                rng=np.random.default_rng(0))
        ret_id = None if ret is None else int(ret.plate_id)
    except (HarnessAssumption, NondeterminismError):
        raise
    except Exception as exc:  # noqa: BLE001
        if alts is None:
            col.refused += 1
            return "refused"
        col.violation("C06|select|raised", f"select_next_plate raised {short_exc(exc)} ({describe(ctx)}, batch={batch}, policy={desc})", case())
        return "raised"
    if alts is None:
        col.refused += 1
        return "no-verdict"
    for sig, msg in judge_select(ctx, batch, score_of, alts, ret_id, ret is None):
        col.violation(sig, f"{describe(ctx)}, batch={batch}, policy={desc}, scores by plate id={jsonable(score_of)}: {msg}", case())
    return "none" if ret is None else f"plate{ctx.pid.index(ret_id) if ret_id in ctx.pid else '?'}"


# ------------------------------------------------------------------ kind: cover
def run_cover_item(item, col):
    for sizes in item["layouts"]:
        P = len(sizes)
        first = True
        for obs in itertools.product((0, 1), repeat=P):
            if item.get("obs_first") is not None and obs[0] != item["obs_first"]:
                continue
            spec = {"sizes": list(sizes), "variant": item["variant"], "obs": list(obs)}
            ctx = Ctx(spec)
            score_of = {ctx.pid[j]: COVER_SCORES[j] for j in range(P)}
            for batch in all_batches(ctx.all_ids):
                for n_chunks in range(1, P + 3):
                    holders, facts = cover_once(ctx, batch, n_chunks, score_of, col)
                    if facts is None:
                        col.outcome("cover", "raised")
                        continue
                    col.outcome("cover", P, tuple(facts["chunk_sizes"]), facts["dropped"])
                    if facts["nontrivial"]:
                        col.nontriv("cover", spec, batch, n_chunks)
                    if first and facts["nontrivial"] and batch:
                        first = False
                        col.sample({"kind": "cover", "rows": ctx.rows, "batch": batch, "n_chunks": n_chunks,
                                    "candidates": facts["cand"], "chunk_sizes": facts["chunk_sizes"]})


def run_cover_large_item(item, col):
    """Sparse probe far above the enumerated sizes: P one-row plates (ids beyond 255), the first `observed` of them observed;
    every chunk of a few chunk counts, with and without a batch - the same judgement as the small cover items."""
    P, n_obs = item["plates"], item["observed"]
    spec = {"sizes": [1] * P, "variant": "alt", "obs": [1 if j < n_obs else 0 for j in range(P)]}
    ctx = Ctx(spec)
    score_of = {ctx.pid[j]: float((j * 37) % 101) - 50.0 for j in range(P)}
    un = [i for i in ctx.all_ids if i not in ctx.observed_ids]
    for batch in (None, [un[-1], un[3]]):
        for n_chunks in item["n_chunks"]:
            holders, facts = cover_once(ctx, batch, n_chunks, score_of, col)
            col.outcome("cover-large", P, n_chunks, None if facts is None else tuple(facts["chunk_sizes"]))
            if facts is not None and facts["nontrivial"]:
                col.nontriv("cover-large", P, batch, n_chunks)


# ------------------------------------------------------------------ kind: select
def assignments(cand, first=None):
    n = len(cand)
    menu = MENU if n <= 3 else MENU_SMALL
    for combo in itertools.product(range(len(menu)), repeat=n):
        if first is not None and n and combo[0] != first:
            continue
        yield {cand[i]: menu[combo[i]] for i in range(n)}


def run_select_combo(ctx, batch, n_chunks_list, first, tier, col, d):
    cand = ctx.candidates(batch)
    fam = policy_family(ctx, batch, tier)
    alts_of = [allowed_sets(ctx, batch, desc) for desc in fam]
    sampled = False
    seen = set()
    for n_chunks in n_chunks_list:
        for score_of in assignments(cand, first):
            holders, facts = cover_once(ctx, batch, n_chunks, score_of, col)
            if holders is None:
                continue
            files = save_all(holders, d)
            col.transitions += len(files)
            sl = score_list(ctx, score_of)

            def body(ch):
                order = [int(x) for x in ScriptedGenerator(ch).permutation(n_chunks)]
                try:
                    return order, load_combined(files, order), None
                except Exception as exc:  # noqa: BLE001
                    return order, None, exc

            for desc, alts in zip(fam, alts_of):
                if alts is not None and (any(len(a) >= 2 for a in alts) or any(len(a) < len(cand) for a in alts)):
                    col.nontriv("select", ctx.spec, batch, n_chunks, sl, desc)
            for ch, (order, H, exc) in explore(body):
                col.transitions += 1
                if exc is not None:
                    col.violation("C06|combine|raised", f"load/concat of the chunk files in order {order} raised {short_exc(exc)}",
                                  case_of("select", ctx, batch, n_chunks, scores=sl, order=order, policy=["none"]))
                    continue
                snap = (np.array(H.plate_ids, copy=True), np.array(H.scores, copy=True))
                for desc, alts in zip(fam, alts_of):
                    out = select_and_judge(
                        ctx, batch, H, desc, alts, score_of, col,
                        lambda: case_of("select", ctx, batch, n_chunks, scores=sl, order=order, policy=desc))
                    if (desc[0], out) not in seen:
                        seen.add((desc[0], out))
                        col.outcome("select", desc[0], out)
                    if not (np.array_equal(snap[0], H.plate_ids) and np.array_equal(snap[1], H.scores)):
                        H = load_combined(files, order)  # selection mutated the combined holder: start fresh
                        snap = (np.array(H.plate_ids, copy=True), np.array(H.scores, copy=True))
                    # >= 3 chunks: the same files, same order, grouped from the right, are judged the same way
                    if n_chunks >= 3 and desc is fam[0]:
                        col.transitions += 1
                        try:
                            Hn = load_combined_nested(files, order)
                        except Exception as exc:  # noqa: BLE001
                            col.violation("C06|combine|raised", f"right-nested combine of the chunk files in order {order} raised {short_exc(exc)}",
                                          case_of("select", ctx, batch, n_chunks, scores=sl, order=order, policy=["none"]))
                        else:
                            out_n = select_and_judge(
                                ctx, batch, Hn, desc, alts, score_of, col,
                                lambda: case_of("select", ctx, batch, n_chunks, scores=sl, order=order, policy=desc, nested=True))
                            col.outcome("select-nested", desc[0], out_n)
                    if not sampled and n_chunks >= 2 and len(cand) >= 2 and desc[0] == "stub" and out.startswith("plate"):
                        sampled = True
                        col.sample({"kind": "select", "rows": ctx.rows, "batch": batch, "n_chunks": n_chunks,
                                    "scores_by_plate": sl, "file_order": order, "policy": desc, "returned": out})


def run_select_item(item, col, tier):
    ctx = Ctx(item["spec"])
    d = env.scratch_dir("c06")
    try:
        for batch in item["batches"]:
            run_select_combo(ctx, batch, item["n_chunks"], item.get("first"), tier, col, d)
    finally:
        shutil.rmtree(d, ignore_errors=True)


# ------------------------------------------------------------------ kind: real (shipped scorers)
def real_body(ctx, batch, n_chunks, scorer_kind, d, ch, col=None):
    """One execution: shipped scorer (scripted rng) -> save -> load in a chosen order -> concat."""
    rng = ScriptedGenerator(ch)
    scorer = SpyRandomScorer(ctx) if scorer_kind == "random" else SpySizeScorer(ctx)
    dummy = _Dummy() if col is None else col
    holders, err = run_chunks(ctx, batch, n_chunks, scorer, rng, dummy)
    if err is not None:
        return {"err": err, "scorer": scorer}
    files = save_all(holders, d)
    order = [int(x) for x in rng.permutation(n_chunks)]
    try:
        H = load_combined(files, order)
    except Exception as exc:  # noqa: BLE001
        return {"combine_exc": exc, "order": order, "scorer": scorer, "holders": holders}
    return {"scorer": scorer, "holders": holders, "order": order, "H": H}


class _Dummy:
    transitions = 0


def judge_real(ctx, batch, n_chunks, scorer_kind, res, choices, tier, col):
    base = case_of("real", ctx, batch, n_chunks, scorer=scorer_kind, choices=choices)
    col.evaluations += 1
    col.states += 1
    col.transitions += 2 * n_chunks + 1
    if "err" in res:
        ci, exc = res["err"]
        col.violation("C06|score_chunk|raised", f"score_chunk(n_chunks={n_chunks}, chunk_index={ci}, batch={batch}) with {scorer_kind} scorer raised {short_exc(exc)} on {describe(ctx)}", base)
        return
    scorer = res["scorer"]
    bad, facts = judge_cover(ctx, batch, n_chunks, scorer.calls, scorer.returned, res["holders"])
    for sig, msg in bad:
        col.violation(sig, f"{describe(ctx)}, n_chunks={n_chunks}, {scorer_kind} scorer: {msg}", base)
    if "combine_exc" in res:
        col.violation("C06|combine|raised", f"load/concat in order {res['order']} raised {short_exc(res['combine_exc'])}", base)
        return
    score_of = {}
    for ret in scorer.returned:
        score_of.update(ret)
    if scorer_kind == "size":
        for rec, ret in zip(scorer.calls, scorer.returned):
            for pid, R in rec.items():
                if ret.get(pid) != float(len(R)):
                    col.violation("C06|size-scorer|value", f"SizeScorer returned {ret.get(pid)} for a subset of {len(R)} experiments", base)
    for desc in policy_family(ctx, batch, tier, small=True):
        alts = allowed_sets(ctx, batch, desc)
        out = select_and_judge(ctx, batch, res["H"], desc, alts, score_of, col, lambda: dict(base, policy=desc))
        col.outcome("real", scorer_kind, desc[0], out)
        if alts is not None and any(len(a) >= 2 for a in alts):
            col.nontriv("real", ctx.spec, batch, n_chunks, scorer_kind, choices, desc)


def run_real_item(item, col, tier):
    ctx = Ctx(item["spec"])
    d = env.scratch_dir("c06r")
    try:
        for batch in item["batches"]:
            for n_chunks in item["n_chunks"]:
                def body(ch):
                    return real_body(ctx, batch, n_chunks, item["scorer"], d, ch)

                for ch, res in explore(body):
                    judge_real(ctx, batch, n_chunks, item["scorer"], res, ch.choices, tier, col)
    finally:
        shutil.rmtree(d, ignore_errors=True)


# ------------------------------------------------------------------ kind: cli
def _call_main(module, argv):
    import logging

    old = sys.argv
    sys.argv = argv
    try:
        module.main()
    finally:
        sys.argv = old
        lg = logging.getLogger("batchie")
        for h in list(lg.handlers):
            lg.removeHandler(h)


def _cli_fixtures(d):
    from batchie.core import ThetaHolder
    from batchie.distance_calculation import ChunkedDistanceMatrix
    from batchie.models.sparse_combo import SparseDrugComboMCMCSample

    th = ThetaHolder(n_thetas=2)
    for _ in range(2):
        th.add_theta(SparseDrugComboMCMCSample(W=np.zeros((5, 2)), W0=np.zeros((5,)), V2=np.zeros((6, 2)),
                                               V1=np.zeros((6, 2)), V0=np.zeros((6,)), alpha=5.0, precision=100.0))
    th.save_h5(os.path.join(d, "thetas.h5"))
    dm = ChunkedDistanceMatrix(size=2)
    dm.add_value(1, 0, 1.0)
    dm.save(os.path.join(d, "dist.h5"))


def _read_scores(fn):
    import h5py

    with h5py.File(fn, "r") as f:
        return [int(x) for x in f["plate_ids"][:]], [float(x) for x in f["scores"][:]]


def cli_case(ctx, batch, n_chunks, scorer_name, d, col, orders_policies, layout="flat"):
    """Drive both CLI mains for one (screen, batch, n_chunks, scorer).  ``orders_policies``:
    list of (order, policy desc).  Violations are reported; returns nothing."""
    from batchie.cli import calculate_scores, select_next_plate as select_cli

    data = os.path.join(d, "data.h5")
    base = {"kind": "cli", "spec": ctx.spec, "batch": batch, "n_chunks": n_chunks, "scorer": scorer_name, "layout": layout}
    files, ids_all, score_of = [], Counter(), {}
    for ci in range(n_chunks):
        if layout == "dirs":
            # one directory per chunk job, the same file name in each (how a workflow engine lays out task outputs)
            os.makedirs(os.path.join(d, f"chunk_{ci}"), exist_ok=True)
            out = os.path.join(d, f"chunk_{ci}", "scores.h5")
        else:
            out = os.path.join(d, f"scores{ci}.h5")
        if os.path.exists(out):
            os.unlink(out)
        argv = ["calculate_scores", "--data", data, "--thetas", os.path.join(d, "thetas.h5"),
                "--distance-matrix", os.path.join(d, "dist.h5"), "--n-chunks", str(n_chunks),
                "--chunk-index", str(ci), "--scorer", scorer_name, "--output", out, "--seed", "3"]
        if batch:
            argv += ["--batch-plate-ids"] + [str(b) for b in batch]
        col.transitions += 1
        try:
            _call_main(calculate_scores, argv)
            ids, vals = _read_scores(out)
        except (Exception, SystemExit) as exc:  # noqa: BLE001
            col.violation("C06|cli|calculate_scores-failed", f"calculate_scores {' '.join(argv[5:])} failed: {short_exc(exc)}", jsonable(base))
            return
        files.append(out)
        for i, v in zip(ids, vals):
            ids_all[i] += 1
            score_of[i] = v
    col.evaluations += 1
    col.states += 1
    cand = ctx.candidates(batch)
    if sorted(ids_all.elements()) != cand:
        sig = "C06|cli|cover"
        col.violation(sig, f"calculate_scores over {n_chunks} chunk(s), batch {batch}: chunk files hold plate ids {sorted(ids_all.elements())}, candidates are {cand} ({describe(ctx)})", jsonable(base))
    if scorer_name == "SizeScorer":
        bset = set(batch or [])
        ball = set().union(*[ctx.plate_rows[b] for b in bset]) if bset else set()
        bun = set().union(*[ctx.plate_rows[b] for b in bset if b not in ctx.observed_ids], set())
        for pid in cand:
            if pid not in score_of:
                continue
            own = ctx.plate_rows[pid]
            if batch:
                ok = any(len({c[i] for i in own | bun}) <= score_of[pid] <= len({c[i] for i in own | ball})
                         for c in (ctx.cond_ord, ctx.cond_un))
            else:
                ok = len({ctx.cond_un[i] for i in own}) <= score_of[pid] <= len(own)
            if not ok:
                col.violation("C06|cli|size-of-conditioned-plate", f"SizeScorer through the CLI gave plate id {pid} the size {score_of[pid]} with batch {batch}: not the size of a one-per-condition union ({describe(ctx)})", jsonable(base))
    for order, desc in orders_policies:
        case = dict(base, order=order, policy=desc)
        out = os.path.join(d, "selected_plate")
        if os.path.exists(out):
            os.unlink(out)
        argv = ["select_next_plate", "--data", data, "--scores"] + [files[i] for i in order] + ["--output", out, "--seed", "5"]
        if desc[0] == "kps":
            argv += ["--policy", "KPerSamplePlatePolicy", "--policy-param", f"k={desc[1]}"]
        if batch:
            argv += ["--batch-plate-id"] + [str(b) for b in batch]
        alts = allowed_sets(ctx, batch, desc)
        col.transitions += 1
        col.evaluations += 1
        try:
            _call_main(select_cli, argv)
            with open(out) as f:
                text = f.read().strip()
        except (Exception, SystemExit) as exc:  # noqa: BLE001
            if alts is None:
                col.refused += 1
                col.outcome("cli", desc[0], "refused")
                continue
            col.violation("C06|cli|select_next_plate-failed", f"select_next_plate CLI failed: {short_exc(exc)} (batch {batch}, policy {desc}, {describe(ctx)})", jsonable(case))
            continue
        if alts is None:
            col.refused += 1
            continue
        try:
            val = int(text)
        except ValueError:
            col.violation("C06|cli|output-format", f"selected_plate file contains {text!r}", jsonable(case))
            continue
        none = val == -1
        bad = judge_select(ctx, batch, score_of, alts, val, none)
        for sig, msg in bad:
            col.violation(sig.replace("C06|select|", "C06|cli-select|"), f"CLI select_next_plate, files in order {order}, batch {batch}, policy {desc}, {describe(ctx)}: {msg}", jsonable(case))
        col.outcome("cli", desc[0], "none" if none else ("plate" if scorer_name == "RandomScorer" else f"plate{val}"))
        if any(len(a) >= 2 for a in alts):
            col.nontriv("cli", ctx.spec, batch, n_chunks, scorer_name, order, desc)


CLI_SIZES = {1: [2], 2: [1, 2], 3: [1, 2, 1]}


def cli_orders_policies(n_chunks, scorer_name):
    perms = [list(p) for p in itertools.permutations(range(n_chunks))]
    out = []
    if scorer_name == "SizeScorer":
        sel = perms if n_chunks <= 3 else [perms[0], perms[-1], perms[len(perms) // 2]]
        out += [(o, ["none"]) for o in sel]
        out += [(perms[-1], ["kps", 1]), (perms[0], ["kps", 2])]
    else:
        out += [(perms[-1], ["none"])]
    return out


def run_cli_item(item, col):
    d = env.scratch_dir("c06cli")
    try:
        _cli_fixtures(d)
        for P in item["plates"]:
            sizes = CLI_SIZES[P]
            for obs in itertools.product((0, 1), repeat=P):
                ctx = Ctx({"sizes": sizes, "variant": "alt", "obs": list(obs)})
                ctx.screen.save_h5(os.path.join(d, "data.h5"))
                for batch in all_batches(ctx.all_ids)[1:]:
                    for n_chunks in range(1, P + 2):
                        if P == 3 and not item.get("full") and n_chunks not in (2, 4):
                            continue
                        for scorer_name in ("SizeScorer", "RandomScorer"):
                            if scorer_name == "RandomScorer" and (
                                n_chunks not in (2, P + 1) or len(batch) > 1 or (P == 3 and not item.get("full"))
                            ):
                                continue
                            ops = cli_orders_policies(n_chunks, scorer_name)
                            if P == 3 and not item.get("full") and n_chunks != 2:
                                ops = [op for op in ops if op[1][0] == "none"]
                            cli_case(ctx, batch, n_chunks, scorer_name, d, col, ops)
                # the same screen with plates named "1", "2", ... (a name that spells another plate's id) and one directory per chunk job
                if P >= 2:
                    ctx_n = Ctx({"sizes": sizes, "variant": "alt", "obs": list(obs), "names": "numeric"})
                    ctx_n.screen.save_h5(os.path.join(d, "data.h5"))
                    for batch in all_batches(ctx_n.all_ids):
                        if len(batch or []) > 1 and P == 3 and not item.get("full"):
                            continue
                        cli_case(ctx_n, batch, 2, "SizeScorer", d, col, cli_orders_policies(2, "SizeScorer")[:3], layout="dirs")
                    ctx.screen.save_h5(os.path.join(d, "data.h5"))
        # more candidates than the small enumeration has: chunk counts that do not divide the number of candidates, first
        # pick of a batch and later picks (the count of candidates changes with the batch)
        for P in item.get("wide", []):
            sizes = [1 + (j % 2) for j in range(P)]
            for obs in ([0] * P, [1] + [0] * (P - 1)):
                ctx = Ctx({"sizes": sizes, "variant": "alt", "obs": list(obs)})
                ctx.screen.save_h5(os.path.join(d, "data.h5"))
                un = [i for i in ctx.all_ids if i not in ctx.observed_ids]
                for batch in ([], [un[1]], [un[0], un[-1]]):
                    for n_chunks in (3, 4, 6, 7):
                        perms = [list(range(n_chunks)), list(range(n_chunks))[::-1]]
                        cli_case(ctx, batch, n_chunks, "SizeScorer", d, col, [(perms[0], ["none"]), (perms[1], ["none"])])
    finally:
        shutil.rmtree(d, ignore_errors=True)


# ------------------------------------------------------------------ plan / dispatch
SELECT_SIZES = {1: [2], 2: [1, 2], 3: [1, 2, 1], 4: [1, 2, 1, 1]}


def _grouped(kind, spec_base, P, extra, heavy_from, split_first, chunk_counts=(1, 2, 3, 4)):
    """Items per observation pattern: light batches (few candidates) together, heavy ones split."""
    items = []
    for obs in itertools.product((0, 1), repeat=P):
        spec = dict(spec_base, obs=list(obs))
        ids = list(range(P))  # planning only: candidate COUNT; the run uses the screen's own ids
        light = []
        for batch in all_batches(ids):
            nc = sum(1 for j in ids if not obs[j] and j not in set(batch or []))
            if nc < heavy_from:
                light.append(batch)
                continue
            for n_chunks in chunk_counts:
                if split_first and nc >= 3 and n_chunks >= 3:
                    for f in range(len(MENU if nc <= 3 else MENU_SMALL)):
                        items.append(dict(extra, kind=kind, spec=spec, batches=[batch], n_chunks=[n_chunks], first=f))
                else:
                    items.append(dict(extra, kind=kind, spec=spec, batches=[batch], n_chunks=[n_chunks]))
        if light:
            items.append(dict(extra, kind=kind, spec=spec, batches=light, n_chunks=list(chunk_counts)))
    return items


def plan(tier, seed):
    items = []
    quick = tier == "quick"
    # cover
    max_p = 4 if quick else 5
    for P in range(1, max_p + 1):
        if quick:
            variants = ["mix0", "mix2", "alt", "sgl"] if P <= 3 else ["mix0", "alt", "sgl"]
        else:
            variants = ["mix0", "mix2", "mix4", "alt", "blk", "sgl"] if P <= 4 else ["mix0", "mix2", "alt", "sgl"]
        lay = [list(s) for s in itertools.product((1, 2), repeat=P)]
        for v in variants:
            if P <= 3:
                items.append({"kind": "cover", "variant": v, "layouts": lay})
            elif P == 4:
                for s in lay:
                    items.append({"kind": "cover", "variant": v, "layouts": [s]})
            else:
                for s in lay:
                    for o0 in (0, 1):
                        items.append({"kind": "cover", "variant": v, "layouts": [s], "obs_first": o0})
    # select
    for P in range(1, (3 if quick else 4) + 1):
        if quick:
            variants = ["alt", "mix2"] if P <= 2 else ["alt"]   # mix2: multi-sample plates, k-per-sample refuses
        else:
            variants = ["alt"] if P == 4 else ["alt", "blk", "mix2"]
        for v in variants:
            items += _grouped("select", {"sizes": SELECT_SIZES[P], "variant": v}, P, {}, 2, True)
    # shipped scorers
    for P in range(1, (3 if quick else 4) + 1):
        for sc in ("random", "size"):
            if sc == "random" and P > 3:
                continue
            cc = (1, 2, 3) if (quick and sc == "random" and P == 3) else (1, 2, 3, 4)
            items += _grouped("real", {"sizes": SELECT_SIZES[P], "variant": "alt"}, P, {"scorer": sc},
                              3 if sc == "random" else 99, False, cc)
    # sparse probes: hundreds of plates (plate ids beyond one byte), few per chunk
    items.append({"kind": "cover-large", "plates": 300, "observed": 20, "n_chunks": [1, 2, 3, 7]})
    items.append({"kind": "cover-large", "plates": 700, "observed": 1, "n_chunks": [3, 50]})
    # CLI
    items.append({"kind": "cli", "plates": [1, 2, 3], "full": not quick})
    items.append({"kind": "cli", "plates": [], "wide": [5, 6, 7, 10]})
    return items


def run_item(item, col, tier):
    kind = item["kind"]
    if kind == "cover":
        run_cover_item(item, col)
    elif kind == "cover-large":
        run_cover_large_item(item, col)
    elif kind == "select":
        run_select_item(item, col, tier)
    elif kind == "real":
        run_real_item(item, col, tier)
    elif kind == "cli":
        run_cli_item(item, col)
    else:
        raise KeyError(kind)
    col.count("items:" + kind)


# ------------------------------------------------------------------ replay
def replay(case, col):
    kind = case["kind"]
    ctx = Ctx(case["spec"])
    batch = case["batch"]
    n_chunks = int(case["n_chunks"])
    print("screen rows (sample, plate, treatments, observation, observed):")
    for r in ctx.rows:
        print("   ", r)
    print(f"plate ids: {dict((plate_name(j, ctx.spec.get('names')), ctx.pid[j]) for j in range(ctx.P))}  batch={batch}  n_chunks={n_chunks}  candidates={ctx.candidates(batch)}")
    if kind in ("cover", "select"):
        sl = floats(case["scores"])
        score_of = {ctx.pid[j]: float(sl[j]) for j in range(ctx.P)}
        scorer = RecordingScorer(ctx, score_of)
        holders, err = run_chunks(ctx, batch, n_chunks, scorer, np.random.default_rng(0), col)
        for ci, rec in enumerate(scorer.calls):
            print(f"  chunk {ci}: handed to the scorer {rec}")
        col.evaluations += 1
        if err is not None:
            col.violation("C06|score_chunk|raised", f"score_chunk chunk_index={err[0]} raised {short_exc(err[1])}", case)
            return
        bad, _ = judge_cover(ctx, batch, n_chunks, scorer.calls, scorer.returned, holders)
        for sig, msg in bad:
            col.violation(sig, msg, case)
        if kind == "cover":
            return
        d = env.scratch_dir("c06replay")
        try:
            files = save_all(holders, d)
            order = [int(x) for x in case["order"]]
            try:
                H = load_combined_nested(files, order) if case.get("nested") else load_combined(files, order)
            except Exception as exc:  # noqa: BLE001
                col.violation("C06|combine|raised", f"load/concat in order {order} raised {short_exc(exc)}", case)
                return
            print(f"  combined in order {order}: ids {np.asarray(H.plate_ids).tolist()} scores {np.asarray(H.scores).tolist()}")
            desc = case["policy"]
            out = select_and_judge(ctx, batch, H, desc, allowed_sets(ctx, batch, desc), score_of, col, lambda: case)
            print(f"  policy {desc}: select_next_plate -> {out}")
        finally:
            shutil.rmtree(d, ignore_errors=True)
    elif kind == "real":
        d = env.scratch_dir("c06replay")
        try:
            ch = Chooser(case["choices"])
            res = real_body(ctx, batch, n_chunks, case["scorer"], d, ch)
            judge_real(ctx, batch, n_chunks, case["scorer"], res, ch.choices, "quick", col)
        finally:
            shutil.rmtree(d, ignore_errors=True)
    elif kind == "cli":
        d = env.scratch_dir("c06replay")
        try:
            _cli_fixtures(d)
            ctx.screen.save_h5(os.path.join(d, "data.h5"))
            if "order" in case:
                ops = [([int(x) for x in case["order"]], case["policy"])]
            else:
                ops = []
            cli_case(ctx, batch, n_chunks, case["scorer"], d, col, ops, layout=case.get("layout", "flat"))
        finally:
            shutil.rmtree(d, ignore_errors=True)
    else:
        raise KeyError(kind)
