"""C09  Predictions are pure, row-wise, treatment-order-symmetric and control-neutral.

Bounded-exhaustive input enumeration (E1) on the real prediction code of both shipped
MCMC sample types: every parameter pattern of a finite menu x every small screen / subset
/ rebuilt screen of a finite family, each judged by oracles read off the statement."""
import itertools
import json
import math
import struct

import numpy as np

from .. import env

env.setup()

from ..core import short_exc  # noqa: E402
from ..screens import make_screen, snapshot  # noqa: E402

from batchie.core import ThetaHolder  # noqa: E402
from batchie.models import main as M  # noqa: E402
from batchie.models.sparse_combo import SparseDrugComboMCMCSample  # noqa: E402
from batchie.models.sparse_combo_interaction import SparseDrugComboInteractionMCMCSample  # noqa: E402

PROP = "C09"
EPILOGUE_ITEMS = 2
LEVEL = "model_checking"
ENGINE = "E1-input-enumeration"
TECHNIQUE = "bounded-exhaustive enumeration of (parameter pattern, screen) pairs on the real prediction code, loop reference + metamorphic oracles"
LEVEL_TEXT = (
    "every (posterior-sample pattern, screen object) pair of the stated finite families is executed on the "
    "implementation; nothing is sampled; values outside the menus and larger screens are not covered"
)
RULE = (
    "parameter patterns {all-zero, graded-distinct A (moderate), graded-distinct B (large, saturates the clip), every "
    "one-hot entry on the zero base, every single-entry bump of graded A} for both sample types and every embedding "
    "size D  x  screen objects {every arity-2 Screen of 1 or 2 rows over sample x (control|treatment)^2 in every row "
    "order; the full screen of all row types (+ control-by-dose cells); every ScreenSubset of it of size 1, 2, n-1, "
    "even/odd/prefix/suffix; the same selections rebuilt as Screens (both row orders) with the parent's id mappings; "
    "to_screen() promotions that keep the ids; sub-subsets; plates; the column-swapped full screen; arity-1 Screens of "
    "1 or 2 rows}; plus the stacked/averaged helpers over every ordering of up to 3 distinct samples in a real "
    "ThetaHolder. A case is non-trivial (counted once per sample type, D, parameter pattern, row type, screen kind) when "
    "the row has >= 1 control cell and the parameter rows that the control sentinel -1 would index (last treatment) "
    "are non-zero"
)
UNIVERSE = {"quick": (2, 3, (1, 2)), "thorough": (3, 4, (1, 3))}
BOUNDS = {
    "quick": {"samples": 2, "treatments": 3, "embedding_sizes": [1, 2], "rows_per_enumerated_screen": 2,
              "subset_sizes": "1, 2, n-1, even, odd, prefix, suffix", "holder_sizes": "1..4", "tolerance": 1e-12},
    "thorough": {"samples": 3, "treatments": 4, "embedding_sizes": [1, 3], "rows_per_enumerated_screen": 2,
                 "subset_sizes": "1, 2, n-1, even, odd, prefix, suffix", "holder_sizes": "1..4", "tolerance": 1e-12},
}
ASSUMPTIONS = [
    "parameter values come from finite menus (zero, two graded-distinct fillings, one-hot, single-entry bumps); "
    "precision > 0; single-effect entries of the control treatment are 1.0 (as batchie builds them)",
    "screens are given explicit ids by passing the treatment/sample mappings of a superset screen built by batchie; "
    "the harness checks that the ids are the intended ones (id encoding itself is C01's subject)",
    "ScreenSubset.to_screen() renumbers ids when a name disappears; such promotions are skipped (counted), only "
    "id-preserving promotions are compared",
    "equalities between predictions use |a-b| <= 1e-12 (1+|b|): vectorised exp/expit and x+a+b vs x+b+a are not bitwise stable",
    "interaction sample type: link is exp(mean) * clipped product of single effects (its documented formula), so only "
    "range [0.01, 0.99] and agreement with a loop evaluation of that formula are demanded; it refuses arity 1 (counted as refused)",
    "loop reference of the modelled mean: alpha + W0[s] + sum V0[t] + W[s].(sum V1[t]) + W[s].(V2[t0]*V2[t1]) over the "
    "non-control treatments (interaction term only when both are non-control); interaction type: W[s].(V2[t0]*V2[t1])",
    "aliasing of outputs is only checked against the sample's parameter arrays",
]

TOL = 1e-12
SDC, INT = "sdc", "int"
KINDS_WITH_ROWS = ("rows", "full")


# ---------------------------------------------------------------- parameters
def layout(typ, ns, nt, D):
    if typ == SDC:
        return [("W", (ns, D)), ("W0", (ns,)), ("V2", (nt, D)), ("V1", (nt, D)), ("V0", (nt,)),
                ("alpha", ()), ("precision", ())]
    return [("W", (ns, D)), ("V2", (nt, D)), ("precision", ()), ("L", (ns, nt))]


def entries(typ, ns, nt, D):
    out = []
    for name, shape in layout(typ, ns, nt, D):
        for idx in itertools.product(*[range(k) for k in shape]):
            out.append((name, list(idx)))
    return out


def _g(k):
    return ((k * 37 + 11) % 101) / 101.0


def theta_patterns(typ, ns, nt, D):
    pats = [["zero"], ["gradedA"], ["gradedB"]]
    if typ == SDC:
        # means far outside what exp() can hold (|mean| ~ 750): the logistic link saturates, clipped to 0.99 / 0.01
        pats += [["far", 750.0], ["far", -750.0]]
    for name, idx in entries(typ, ns, nt, D):
        pats.append(["onehot", name, idx])
    for name, idx in entries(typ, ns, nt, D):
        pats.append(["bump", name, idx])
    return pats


def all_thetas(ns, nt, Ds):
    out = []
    for typ in (SDC, INT):
        for D in Ds:
            for pat in theta_patterns(typ, ns, nt, D):
                out.append([typ, D, pat])
    return out


class Th:
    """A posterior sample built from a spec, with a plain-python copy of its parameters."""

    def __init__(self, tkey, ns, nt):
        typ, D, pat = tkey
        self.key = tkey
        self.typ, self.D, self.pat = typ, D, pat
        self._ref_mean, self._ref_lse = {}, {}
        base = pat[0]
        vals = {}
        k = 0
        for name, shape in layout(typ, ns, nt, D):
            a = np.zeros(shape, dtype=float)
            flat = a.reshape(-1)
            for j in range(flat.size):
                if base in ("gradedA", "bump", "far"):
                    g = _g(k)
                    flat[j] = (0.04 + 1.1 * g) if name == "L" else 2.0 * (g - 0.47)
                elif base == "gradedB":
                    g = _g(k + 5)
                    flat[j] = (0.02 + 1.15 * g) if name == "L" else 9.0 * (g - 0.47)
                else:
                    flat[j] = 1.0 if name == "L" else 0.0
                k += 1
            vals[name] = a
        # precisions from both far ends as well (a hand-built or reloaded sample is not bound by the sampler's clipping)
        vals["precision"] = np.array({"gradedA": 2.0, "bump": 2.0, "gradedB": 3e6, "zero": 1e-9}.get(base, 1.0))
        if base == "far":
            vals["alpha"] = np.array(float(pat[1]))
        if base in ("onehot", "bump"):
            name, idx = pat[1], tuple(pat[2])
            if name == "precision":
                vals[name][idx] = 3.0 if base == "onehot" else 5.0
            elif name == "L":
                vals[name][idx] = 0.5 if base == "onehot" else vals[name][idx] * 0.5 + 0.3
            else:
                vals[name][idx] = 1.5 if base == "onehot" else vals[name][idx] + 1.25
        self.P = {n: (float(v) if v.shape == () else v.tolist()) for n, v in vals.items()}
        # a precision need not be a python float: an integer-typed value (hand-built sample, attribute read back from a file)
        # is a legal precision too - the patterns that set the precision entry use int 3 / numpy int64 5
        prec = float(vals["precision"])
        if base in ("onehot", "bump") and pat[1] == "precision":
            prec = int(prec) if base == "onehot" else np.int64(int(prec))
        if typ == SDC:
            self.obj = SparseDrugComboMCMCSample(
                W=vals["W"], W0=vals["W0"], V2=vals["V2"], V1=vals["V1"], V0=vals["V0"],
                alpha=float(vals["alpha"]), precision=prec)
            self.arrays = [vals[n] for n in ("W", "W0", "V2", "V1", "V0")]
        else:
            look = {}
            for s in range(ns):
                look[(s, -1)] = 1.0
                for t in range(nt):
                    look[(s, t)] = float(vals["L"][s, t])
            self.obj = SparseDrugComboInteractionMCMCSample(
                W=vals["W"], V2=vals["V2"], precision=prec, single_effect_lookup=look)
            self.arrays = [vals[n] for n in ("W", "V2")]
        last = [vals[n][nt - 1] for n in (("V2", "V1", "V0") if typ == SDC else ("V2",))]
        self.control_row_nonzero = any(np.any(np.asarray(x) != 0) for x in last)

    def ref_mean(self, r):
        if r not in self._ref_mean:
            self._ref_mean[r] = ref_mean(self, r[0], r[1:])
        return self._ref_mean[r]

    def ref_log_se(self, r):
        if r not in self._ref_lse:
            se = 1.0
            for t in r[1:]:
                se *= 1.0 if t == -1 else self.P["L"][r[0]][t]
            self._ref_lse[r] = math.log(_clip(se))
        return self._ref_lse[r]

    def snap(self):
        o = self.obj
        parts = [(a.shape, a.dtype.char, a.tobytes()) for a in self.arrays]
        # the dataclass fields must still be the very same arrays with the same content
        names = ("W", "W0", "V2", "V1", "V0") if self.typ == SDC else ("W", "V2")
        parts.append(tuple(getattr(o, n) is a for n, a in zip(names, self.arrays)))
        parts.append(struct.pack("<d", float(o.precision)))
        if self.typ == SDC:
            parts.append(struct.pack("<d", float(o.alpha)))
        else:
            parts.append(tuple(sorted((int(a), int(b), float(v).hex()) for (a, b), v in o.single_effect_lookup.items())))
        return tuple(parts)


# ---------------------------------------------------------------- loop reference
def _clip(x):
    return min(max(x, 0.01), 0.99)


def ref_mean(th, s, ts):
    P, D = th.P, th.D
    nc = [t for t in ts if t != -1]
    if th.typ == SDC:
        mu = P["alpha"] + P["W0"][s]
        for t in nc:
            mu += P["V0"][t]
        for d in range(D):
            mu += P["W"][s][d] * sum(P["V1"][t][d] for t in nc)
        if len(ts) == 2 and len(nc) == 2:
            mu += sum(P["W"][s][d] * P["V2"][nc[0]][d] * P["V2"][nc[1]][d] for d in range(D))
        return mu
    if len(nc) == 2:
        return sum(P["W"][s][d] * P["V2"][nc[0]][d] * P["V2"][nc[1]][d] for d in range(D))
    return 0.0


def relevant(typ, name, idx, s, ts):
    """May parameter entry (name, idx) influence the mean/viability of row (s, ts)?  Statement: only
    the row's sample and its non-control treatments matter."""
    nc = [t for t in ts if t != -1]
    if name == "alpha":
        return True
    if name == "precision":
        return False
    if name in ("W", "W0"):
        return idx[0] == s
    if name == "L":
        return idx[0] == s and idx[1] in nc
    return idx[0] in nc


def close(a, b):
    a = np.asarray(a, dtype=float)
    b = np.asarray(b, dtype=float)
    if a.shape != b.shape:
        return False
    return bool(np.all(np.abs(a - b) <= TOL * (1.0 + np.abs(b))))


# ---------------------------------------------------------------- screens
def norm(t):
    return -1 if t == -2 else t


def cell(t):
    if t == -1:
        return ("", 0.0)
    if t == -2:  # control by dose
        return ("t1", 0.0)
    return (f"t{t}", 1.0)


def rowtypes2(ns, nt):
    T = [-1] + list(range(nt))
    return [(s, a, b) for s in range(ns) for a in T for b in T]


def rowtypes1(ns, nt):
    T = [-1] + list(range(nt))
    return [(s, a) for s in range(ns) for a in T]


def full_rows(ns, nt):
    return [list(r) for r in rowtypes2(ns, nt)] + [[0, -2, 0], [ns - 1, 1, -2], [ns - 1, -2, -2], [0, -2, -1]]


class So:
    """A screen object under test + what the harness knows about it."""

    def __init__(self, spec, obj, rows, arity, whole_idx=None, parent=None):
        self.spec, self.obj, self.arity = spec, obj, arity
        self.rows = [tuple(norm(x) if i else x for i, x in enumerate(r)) for r in rows]
        self.whole_idx = whole_idx
        self.parent = parent
        self.kind = spec["k"]

    def snap(self):
        if self.parent is not None:
            return (snapshot(self.parent), np.asarray(self.obj.selection_vector).tobytes())
        return snapshot(self.obj)


class Ctx:
    def __init__(self, ns, nt):
        self.ns, self.nt = ns, nt
        rows = []
        for s in range(ns):
            for t in range(nt):
                rows.append([s, t, -1])
        rows.append([0, -1, -2])
        self.universe = self._screen(rows, 2, mapped=False)
        self.tm = self.universe.treatment_mapping
        self.sm = self.universe.sample_mapping
        self._check_ids(self.universe, rows)
        self._full = None
        self._base = {}
        self._thetas = {}
        self.pred = {}
        self.created = []  # (So, snapshot at creation) of the screens shared between pairs

    # -- builders
    def _screen(self, rows, arity, mapped=True, plates=None, swap=False):
        recs = []
        for i, r in enumerate(rows):
            ts = list(r[1:1 + arity])
            if swap:
                ts = ts[::-1]
            plate = plates[i] if plates else "p0"
            recs.append((f"s{r[0]}", plate, [cell(t) for t in ts], round(0.11 + 0.013 * i, 6), plate == "p0"))
        kw = {}
        if mapped:
            kw = dict(treatment_mapping=self.tm, sample_mapping=self.sm)
        return make_screen(recs, control="", arity=arity, **kw)

    @staticmethod
    def _ids_ok(obj, rows):
        want_s = [r[0] for r in rows]
        want_t = [[norm(t) for t in r[1:]] for r in rows]
        return (np.asarray(obj.sample_ids).tolist() == want_s
                and np.asarray(obj.treatment_ids).tolist() == want_t)

    def _check_ids(self, obj, rows):
        if not self._ids_ok(obj, rows):
            raise AssertionError(
                f"harness precondition: screen ids are not the intended ones: rows {rows}, "
                f"sample_ids {np.asarray(obj.sample_ids).tolist()}, treatment_ids {np.asarray(obj.treatment_ids).tolist()}")

    def full(self):
        if self._full is None:
            rows = full_rows(self.ns, self.nt)
            sc = self._screen(rows, 2, plates=[f"p{i % 3}" for i in range(len(rows))])
            self._check_ids(sc, rows)
            self._full = So({"k": "full"}, sc, rows, 2, whole_idx=list(range(len(rows))))
            self.created.append((self._full, self._full.snap()))
        return self._full

    def base(self, arity, rt):
        key = (arity, tuple(rt))
        if key not in self._base:
            spec = {"k": "rows", "a": arity, "rows": [list(rt)]}
            self._base[key] = self.build(spec)
            self.created.append((self._base[key], self._base[key].snap()))
        return self._base[key]

    def build(self, spec):
        k = spec["k"]
        if k == "tile":
            # a large screen: the row types of the universe repeated until spec["n"] rows (sparse probe, helpers only)
            rts = [list(r) for r in rowtypes2(self.ns, self.nt)]
            rows = [rts[i % len(rts)] for i in range(spec["n"])]
            sc = self._screen(rows, 2)
            return So(spec, sc, rows, 2)
        if k == "rows":
            sc = self._screen(spec["rows"], spec["a"])
            self._check_ids(sc, spec["rows"])
            return So(spec, sc, spec["rows"], spec["a"])
        F = self.full()
        frows = full_rows(self.ns, self.nt)
        n = len(frows)
        if k == "full":
            return F
        if k == "swapfull":
            rows = [[r[0], r[2], r[1]] for r in frows]
            sc = self._screen(frows, 2, plates=[f"p{i % 3}" for i in range(n)], swap=True)
            self._check_ids(sc, rows)
            return So(spec, sc, rows, 2)
        if k == "merged":
            # a plate that absorbed another one through Plate.merge (their rows interleave in the screen); own fresh screen
            sc = self._screen(frows, 2, plates=[f"p{i % 3}" for i in range(n)])
            ia = [i for i in range(n) if i % 3 == spec["p"]]
            ib = [i for i in range(n) if i % 3 == spec["q"]]
            pa, pb = sc.get_plate(int(sc.plate_ids[ia[0]])), sc.get_plate(int(sc.plate_ids[ib[0]]))
            pa.merge(pb)
            idx = sorted(ia + ib)
            rows = [frows[i] for i in idx]
            return So(spec, pa, rows, 2, whole_idx=idx, parent=sc)
        if k == "plate":
            idx = [i for i in range(n) if i % 3 == spec["p"]]
            pid = int(F.obj.plate_ids[idx[0]])
            pl = F.obj.get_plate(pid)
            rows = [frows[i] for i in idx]
            self._check_ids(pl, rows)
            return So(spec, pl, rows, 2, whole_idx=idx, parent=F.obj)
        sel = spec["sel"]
        if k in ("sub", "subsub", "toscreen"):
            idx = sorted(sel)
            vec = np.zeros(n, dtype=bool)
            vec[idx] = True
            sub = F.obj.subset(vec)
            if k == "subsub":
                pos = sorted(spec["sel2"])
                v2 = np.zeros(len(idx), dtype=bool)
                v2[pos] = True
                sub = sub.subset(v2)
                idx = [idx[j] for j in pos]
            rows = [frows[i] for i in idx]
            if k == "toscreen":
                sc = sub.to_screen()
                if not self._ids_ok(sc, rows):
                    return None  # ids renumbered: not comparable (C01/C03 territory)
                return So(spec, sc, rows, 2, whole_idx=idx)
            self._check_ids(sub, rows)
            return So(spec, sub, rows, 2, whole_idx=idx, parent=F.obj)
        if k == "reb":
            rows = [frows[i] for i in sel]
            sc = self._screen(rows, 2, plates=[f"p{i % 3}" for i in sel])
            self._check_ids(sc, rows)
            return So(spec, sc, rows, 2, whole_idx=list(sel))
        raise KeyError(k)

    def theta(self, tkey):
        key = json.dumps(tkey)
        if key not in self._thetas:
            self._thetas[key] = Th(tkey, self.ns, self.nt)
        return self._thetas[key]


# ---------------------------------------------------------------- one (theta, screen) pair
def predict3(th, so, col):
    """Three real prediction calls.  Returns None when the sample type refuses the arity."""
    try:
        m = th.obj.predict_conditional_mean(so.obj)
        v = th.obj.predict_viability(so.obj)
    except (ValueError, NotImplementedError):
        if th.typ == INT and so.arity != 2:
            col.evaluations += 1
            col.transitions += 1
            col.refused += 1
            return None
        raise
    var = th.obj.predict_conditional_variance(so.obj)
    col.evaluations += 3
    col.transitions += 3
    return m, v, var


def cached_pred(ctx, th, so, col, tag):
    key = (json.dumps(th.key), tag)
    if key not in ctx.pred:
        ctx.pred[key] = predict3(th, so, col)
    return ctx.pred[key]


def check_pair(ctx, tkey, so, col, ga=None, snap_screen=False):
    th = ctx.theta(tkey)
    typ = th.typ
    case = {"u": [ctx.ns, ctx.nt], "theta": tkey, "screen": so.spec}
    tag = f"{typ} D={th.D} {th.pat} on {so.spec}"

    failed = set()

    def bad(check, method, msg):
        failed.add(check)
        col.violation(f"C09|{typ}|{check}|{method}", f"{tag}: {msg}", case)

    s0 = so.snap() if snap_screen else None
    t0 = th.snap()
    res = predict3(th, so, col)
    if th.snap() != t0:
        bad("mutated-sample", "predict", "a prediction call changed the posterior sample's parameters")
    if snap_screen and so.snap() != s0:
        bad("mutated-screen", "predict", "a prediction call changed the screen")
    col.states += 1
    if res is None:
        col.outcome(typ, "refused-arity", so.arity)
        return failed
    n = len(so.rows)
    names = ("mean", "viability", "variance")
    for name, out in zip(names, res):
        if not isinstance(out, np.ndarray) or out.shape != (n,):
            bad("shape", name, f"result is not one value per experiment: {type(out).__name__} "
                               f"shape {getattr(out, 'shape', None)} for {n} rows")
            return failed
        for a in th.arrays:
            if np.shares_memory(out, a):
                bad("aliasing", name, "the returned array shares memory with a parameter array of the sample")
    m, v, var = res

    # variance: positive reciprocal precision for every experiment
    want_var = 1.0 / th.P["precision"]
    if not (close(var, np.full(n, want_var)) and np.all(var > 0)):
        bad("variance", "variance", f"variance {var.tolist()} is not 1/precision = {want_var} for every row")

    # modelled mean against the loop evaluation (a control contributes nothing)
    rm = np.array([th.ref_mean(r) for r in so.rows])
    if not close(m, rm):
        bad("formula", "mean", f"mean {m.tolist()} differs from the loop evaluation {rm.tolist()} for rows {so.rows}")

    # link
    if typ == SDC:
        em = np.exp(-np.abs(m))
        want_v = np.clip(np.where(m >= 0, 1.0 / (1.0 + em), em / (1.0 + em)), 0.01, 0.99)
        if not close(v, want_v):
            bad("link", "viability", f"viability {v.tolist()} is not clip(logistic(mean), 0.01, 0.99) = {want_v.tolist()}")
    else:
        want_v = np.array([_clip(math.exp(float(x) + th.ref_log_se(r))) for r, x in zip(so.rows, m)])
        if not (np.all(v >= 0.01) and np.all(v <= 0.99)):
            bad("range", "viability", f"viability {v.tolist()} leaves [0.01, 0.99]")
        if not close(v, want_v):
            bad("link", "viability", f"viability {v.tolist()} differs from exp(mean)*clip(prod single effects) = {want_v.tolist()}")

    # row-wise: subset == whole[rows]
    if so.kind not in ("full", "rows", "swapfull"):
        whole = cached_pred(ctx, th, ctx.full(), col, "full")
        for name, out, w in zip(names, res, whole):
            if not close(out, w[so.whole_idx]):
                bad("subset", name, f"prediction on the sub-collection {so.whole_idx} = {out.tolist()} differs from "
                                    f"the entries of the prediction on the whole screen {w[so.whole_idx].tolist()}")
    if so.kind == "swapfull":
        whole = cached_pred(ctx, th, ctx.full(), col, "full")
        for name, out, w in zip(names, res, whole):
            if not close(out, w):
                bad("swap", name, "prediction changed when the two treatment columns of the whole screen were swapped")
    if so.kind in ("rows", "full"):
        for i, r in enumerate(so.rows):
            if not (so.kind == "rows" and n == 1):
                b = cached_pred(ctx, th, ctx.base(so.arity, r), col, ("base", so.arity, r))
                for name, out, w in zip(names, res, b):
                    if not close(out[i], w[0]):
                        bad("rowwise", name, f"row {i} {r} predicts {float(out[i])!r} inside rows {so.rows} but "
                                             f"{float(w[0])!r} as a one-row screen")
            if so.arity == 2:
                if r[1] != r[2]:
                    b = cached_pred(ctx, th, ctx.base(2, (r[0], r[2], r[1])), col, ("base", 2, (r[0], r[2], r[1])))
                    for name, out, w in zip(names, res, b):
                        if not close(out[i], w[0]):
                            bad("swap", name, f"row {r} predicts {float(out[i])!r}, the same experiment with the "
                                              f"treatment columns swapped predicts {float(w[0])!r}")
                if typ == SDC and (r[1] == -1 or r[2] == -1):
                    single = (r[0], r[2] if r[1] == -1 else r[1])
                    b = cached_pred(ctx, th, ctx.base(1, single), col, ("base", 1, single))
                    for name, out, w in zip(names, res, b):
                        if not close(out[i], w[0]):
                            bad("single-agent", name, f"row {r} (pair with control) predicts {float(out[i])!r} but "
                                                      f"the single agent {single} predicts {float(w[0])!r}")

    # dependence only on the row's own sample / non-control treatments
    if th.pat[0] == "gradedA" and ga is not None:
        ga[(typ, th.D)] = (m, v)
    if th.pat[0] == "bump":
        ref = ga.get((typ, th.D)) if ga is not None else None
        if ref is None:
            r3 = predict3(ctx.theta([typ, th.D, ["gradedA"]]), so, col)
            ref = (r3[0], r3[1])
        for i, r in enumerate(so.rows):
            if not relevant(typ, th.pat[1], th.pat[2], r[0], r[1:]):
                for name, out, w in zip(names, (m, v), ref):
                    if not close(out[i], w[i]):
                        bad("foreign-parameter", name,
                            f"row {r}: changing parameter {th.pat[1]}{th.pat[2]} (not of this row's sample or "
                            f"non-control treatments) moved the prediction from {float(w[i])!r} to {float(out[i])!r}")

    # evidence bookkeeping
    if so.kind in KINDS_WITH_ROWS:
        for i, r in enumerate(so.rows):
            col.outcome(typ, th.D, th.pat, r, round(float(m[i]), 9), round(float(v[i]), 9))
            if th.control_row_nonzero and -1 in r[1:]:
                col.nontriv(typ, th.D, th.pat, r, so.kind, so.arity)
    elif th.control_row_nonzero and any(-1 in r[1:] for r in so.rows):
        col.nontriv(typ, th.D, th.pat, so.kind, n)
    return failed


# ---------------------------------------------------------------- helpers (stacked / averaged)
def helper_sequences():
    names = [["gradedA"], ["gradedB"], ["zero"]]
    seqs = []
    for k in (1, 2, 3):
        for p in itertools.permutations(range(3), k):
            seqs.append(([names[i] for i in p], k))
    seqs.append(([names[0], names[1], names[0], names[2]], 4))
    seqs.append(([names[1], names[0]], 3))  # incomplete holder: declared 3, holds 2
    return seqs


def compositions(k):
    """all ways to cut k samples into >= 2 consecutive non-empty chains"""
    out = []
    for cuts in range(1, k):
        for c in itertools.combinations(range(1, k), cuts):
            b = (0,) + c + (k,)
            out.append([b[i + 1] - b[i] for i in range(len(b) - 1)])
    return out


def helper_chain_sequences():
    """(seq, chains, how): every complete holder of helper_sequences() with >= 2 samples, assembled from per-chain holders
    for every composition of its length (concat), and by repeated combine for the most unequal compositions"""
    out = []
    for seq, declared in helper_sequences():
        k = len(seq)
        if declared != k or k < 2:
            continue
        comps = compositions(k)
        for ch in comps:
            out.append((seq, ch, "concat"))
        for ch in (comps[0], comps[k - 2]):  # [1, k-1] and [k-1, 1]
            if (seq, ch, "combine") not in out:
                out.append((seq, ch, "combine"))
    return out


def helper_screens(ctx):
    n = len(full_rows(ctx.ns, ctx.nt))
    return [
        {"k": "full"},
        {"k": "sub", "sel": list(range(0, n, 2))},
        {"k": "rows", "a": 2, "rows": [[0, 0, -1]]},
        {"k": "rows", "a": 2, "rows": [[ctx.ns - 1, -1, ctx.nt - 1], [0, 1, 0]]},
        {"k": "rows", "a": 1, "rows": [[0, ctx.nt - 1], [ctx.ns - 1, -1]]},
    ]


def check_helper(ctx, typ, D, seq, declared, so, col, snap_screen=True, chains=None, how="concat"):
    case = {"u": [ctx.ns, ctx.nt], "helper": {"type": typ, "D": D, "seq": seq, "declared": declared}, "screen": so.spec}
    tag = f"{typ} D={D} holder {seq} (declared {declared}) on {so.spec}"
    if chains:
        case["helper"].update({"chains": chains, "how": how})
        tag = f"{typ} D={D} holder {seq} put together by {how} from complete per-chain holders of lengths {chains} on {so.spec}"

    def bad(check, method, msg):
        col.violation(f"C09|{typ}|{check}|{method}", f"{tag}: {msg}", case)

    # distinct objects per position (a holder may contain equal samples)
    ths = [Th([typ, D, pat], ctx.ns, ctx.nt) for pat in seq]
    if chains:
        # the holder a user gets from per-chain collections: ThetaHolder.concat / combine of complete chains of the given
        # lengths (chain-major order = seq order); it is judged exactly like the holder filled by add_theta
        parts, pos = [], 0
        for n_c in chains:
            part = ThetaHolder(n_thetas=n_c)
            for t in ths[pos:pos + n_c]:
                part.add_theta(t.obj)
            parts.append(part)
            pos += n_c
        if how == "concat":
            holder = ThetaHolder.concat(parts)
        else:
            holder = parts[0]
            for part in parts[1:]:
                holder = holder.combine(part)
        col.transitions += len(parts) - 1
    else:
        holder = ThetaHolder(n_thetas=declared)
        for t in ths:
            holder.add_theta(t.obj)
    if typ == INT and so.arity != 2:
        col.refused += 1
        col.outcome(typ, "helper-refused-arity")
        return
    indiv = []
    s_pre = so.snap() if snap_screen else None
    for t in ths:
        indiv.append((t.obj.predict_conditional_mean(so.obj), t.obj.predict_viability(so.obj),
                      t.obj.predict_conditional_variance(so.obj)))
        col.evaluations += 3
        col.transitions += 3
    s0 = so.snap() if snap_screen else None
    if s0 != s_pre:
        bad("mutated-screen", "predict", "a prediction call changed the screen")
    t0 = [t.snap() for t in ths]
    n, k = len(so.rows), len(ths)
    calls = [("mean_all", M.predict_mean_all, 0, False), ("viability_all", M.predict_viability_all, 1, False),
             ("variance_all", M.predict_variance_all, 2, False), ("mean_avg", M.predict_mean_avg, 0, True),
             ("viability_avg", M.predict_viability_avg, 1, True)]
    col.states += 1
    for name, fn, which, avg in calls:
        col.evaluations += 1
        col.transitions += 1
        try:
            out = fn(screen=so.obj, thetas=holder)
        except Exception as exc:  # noqa: BLE001
            if declared != k and not chains:
                col.refused += 1  # incomplete collection: the statement demands no result
                col.outcome(typ, "helper-refused", name)
                continue
            raise
        if declared != k and not chains:
            col.outcome(typ, "helper-incomplete-returned", name)
            # a holder that is not full may be refused; if the helper answers it answers for the samples HELD: one row per
            # sample (or their mean), never a row for a sample that is not there
            rows_ = np.array([iv[which] for iv in indiv])
            want_ = np.array([math.fsum(rows_[:, j]) / k for j in range(n)]) if avg else rows_
            if not isinstance(out, np.ndarray) or out.shape != want_.shape or not close(out, want_):
                bad("helper-incomplete", name, f"holder declared {declared} holds {k} samples: the helper returned shape {getattr(out, 'shape', None)} "
                                               f"{np.asarray(out).tolist()}, one row per sample held would be {want_.tolist()}")
            continue
        rows = np.array([iv[which] for iv in indiv])
        if avg:
            want = np.array([math.fsum(rows[:, j]) / k for j in range(n)])
            if not isinstance(out, np.ndarray) or out.shape != (n,) or not close(out, want):
                bad("helper-avg", name, f"averaged prediction {np.asarray(out).tolist()} is not the mean "
                                        f"{want.tolist()} of the {k} per-sample predictions")
        else:
            if not isinstance(out, np.ndarray) or out.shape != (k, n):
                bad("helper-all", name, f"stacked prediction has shape {getattr(out, 'shape', None)}, expected {(k, n)}")
            elif not close(out, rows):
                wrong = [i for i in range(k) if not close(out[i], rows[i])]
                bad("helper-all", name, f"row(s) {wrong} of the stacked prediction are not the prediction of the "
                                        f"sample at that position of the holder")
        col.outcome(typ, D, seq, name, so.spec, np.round(np.asarray(out, dtype=float), 9).tobytes())
        if k >= 2:
            col.nontriv("helper", typ, D, seq, name, so.kind, tuple(chains or ()), how if chains else "")
        # history: the caller scribbles on the array it was given and asks again with the same screen / holder objects;
        # the second answer is judged like the first (a result kept between calls would hand the scribbled array back)
        if isinstance(out, np.ndarray) and out.size and out.flags.writeable:
            out[...] = -7.25
            col.evaluations += 1
            col.transitions += 1
            out2 = fn(screen=so.obj, thetas=holder)
            want2 = np.array([math.fsum(rows[:, j]) / k for j in range(n)]) if avg else rows
            if not isinstance(out2, np.ndarray) or out2.shape != want2.shape or not close(out2, want2):
                bad("helper-second-call", name, f"asked a second time (after the caller overwrote the first result in place) the helper "
                                                f"returns {np.asarray(out2).tolist()}, expected {want2.tolist()}")
    if [t.snap() for t in ths] != t0:
        bad("mutated-sample", "helper", "a helper changed a posterior sample")
    if len(holder.thetas) != k or any(a is not t.obj for a, t in zip(holder.thetas, ths)):
        bad("mutated-holder", "helper", "a helper changed the holder's list of samples")
    if snap_screen and so.snap() != s0:
        bad("mutated-screen", "helper", "a helper changed the screen")


# ---------------------------------------------------------------- plan / run / replay
def _chunks(seq, k):
    k = max(1, min(k, len(seq)))
    size = -(-len(seq) // k)
    return [seq[i:i + size] for i in range(0, len(seq), size)]


def full_specs(ns, nt):
    n = len(full_rows(ns, nt))
    named = {
        "even": list(range(0, n, 2)), "odd": list(range(1, n, 2)),
        "prefix": list(range(n // 2)), "suffix": list(range(n // 2, n)),
    }
    sels = [[i] for i in range(n)]
    sels += [list(c) for c in itertools.combinations(range(n), 2)]
    sels += [[j for j in range(n) if j != i] for i in range(n)]
    sels += list(named.values())
    specs = [{"k": "full"}, {"k": "swapfull"}] + [{"k": "plate", "p": p} for p in range(3)]
    specs += [{"k": "merged", "p": a, "q": b} for a in range(3) for b in range(3) if a != b]
    for sel in sels:
        specs.append({"k": "sub", "sel": sel})
        specs.append({"k": "reb", "sel": sel})
        if len(sel) == n // 2 or len(sel) == n - n // 2:
            # reversed row order (every order of 2-row screens is already in the "rows" family)
            specs.append({"k": "reb", "sel": sel[::-1]})
        if len(sel) >= n // 2:
            specs.append({"k": "toscreen", "sel": sel})
    # sub-subsets of the named selections and of two n-1 selections
    for sel in list(named.values()) + [[j for j in range(n) if j != 0], [j for j in range(n) if j != n - 1]]:
        m = len(sel)
        second = [[j] for j in range(m)] + [[j for j in range(m) if j != i] for i in range(m)]
        second += [list(range(0, m, 2)), list(range(1, m, 2))]
        for s2 in second:
            specs.append({"k": "subsub", "sel": sel, "sel2": s2})
    return specs


def plan(tier, seed):
    ns, nt, Ds = UNIVERSE[tier]
    items = []
    R = len(rowtypes2(ns, nt))
    for first in range(R):
        items.append({"g": "pairs", "first": [first]})
    fs = full_specs(ns, nt)
    k = 48 if tier == "quick" else 400
    for i in range(k):  # round-robin: every item gets the same mix of cheap and expensive objects
        items.append({"g": "full", "specs": fs[i::k]})
    items.append({"g": "arity1"})
    for typ in (SDC, INT):
        for D in Ds:
            items.append({"g": "helpers", "type": typ, "D": D})
    return items


def item_specs(item, ctx):
    ns, nt = ctx.ns, ctx.nt
    if item["g"] == "pairs":
        rts = rowtypes2(ns, nt)
        out = []
        for i in item["first"]:
            out.append({"k": "rows", "a": 2, "rows": [list(rts[i])]})
            for r2 in rts:
                out.append({"k": "rows", "a": 2, "rows": [list(rts[i]), list(r2)]})
        return out
    if item["g"] == "full":
        return item["specs"]
    if item["g"] == "arity1":
        rts = rowtypes1(ns, nt)
        out = [{"k": "rows", "a": 1, "rows": [list(r)]} for r in rts]
        out += [{"k": "rows", "a": 1, "rows": [list(r1), list(r2)]} for r1 in rts for r2 in rts]
        return out
    raise KeyError(item["g"])


def locate_screen_mutation(ns, nt, spec, tkeys, col):
    """A screen changed while many samples predicted on it: find one (sample, screen) pair that does it,
    each on a freshly built screen (so the recorded case replays on its own)."""
    for tkey in tkeys:
        ctx = Ctx(ns, nt)
        so = ctx.build(spec)
        if "mutated-screen" in check_pair(ctx, tkey, so, col, snap_screen=True):
            return
    col.violation("C09|any|mutated-screen|cumulative",
                  f"screen {spec} changed while predictions of all parameter patterns were made on it",
                  {"u": [ns, nt], "theta": tkeys[0], "screen": spec})


def shared_screen_changed(ctx, ns, nt, tkeys, col):
    for s, snap0 in ctx.created:
        if s.snap() != snap0:
            locate_screen_mutation(ns, nt, s.spec, tkeys, col)
            return True
    return False


def run_item(item, col, tier):
    ns, nt, Ds = UNIVERSE[tier]
    ctx = Ctx(ns, nt)
    if item["g"] == "helpers":
        for sspec in helper_screens(ctx):
            try:
                so = ctx.build(sspec)
            except AssertionError:
                if any(x.snap() != snap0 for x, snap0 in ctx.created) and col.n_violations:
                    col.count("item-aborted-after-screen-mutation")  # already reported by check_helper
                    return
                raise
            for seq, declared in helper_sequences():
                check_helper(ctx, item["type"], item["D"], seq, declared, so, col)
            for seq, chains, how in helper_chain_sequences():
                check_helper(ctx, item["type"], item["D"], seq, len(seq), so, col, chains=chains, how=how)
        # sparse probe far above the enumerated sizes: 4096 rows x 20 and x 16 posterior samples, 3000 rows x 50 (any
        # workload-dependent path of the helpers - blocking, chunked averaging - is taken at least once)
        names = [["gradedA"], ["gradedB"], ["zero"]]
        for n_rows, k in ((4096, 20), (4096, 16), (3000, 50)):
            so = ctx.build({"k": "tile", "n": n_rows})
            check_helper(ctx, item["type"], item["D"], [names[(i * i + i // 3) % 3] for i in range(k)], k, so, col, snap_screen=False)
        col.sample({"group": "helpers", "type": item["type"], "D": item["D"], "sequences": len(helper_sequences())})
        return
    tkeys = all_thetas(ns, nt, Ds)
    specs = item_specs(item, ctx)
    first = True
    for sspec in specs:
        try:
            so = ctx.build(sspec)
        except AssertionError:
            # ids of a derived object are off: either a shared screen was changed by a prediction (a violation,
            # reported with its own replayable case) or the harness is wrong (re-raised)
            if shared_screen_changed(ctx, ns, nt, tkeys, col):
                col.count("item-aborted-after-screen-mutation")
                return
            raise
        if so is None:
            col.count("toscreen-renumbered-skipped")
            continue
        col.count("screen:" + so.kind)
        if first:
            col.sample({"universe": [ns, nt], "screen": sspec, "rows (sample, treatment ids; -1 control)": so.rows,
                        "parameter_patterns": len(tkeys)})
            first = False
        snap0 = so.snap()
        ga = {}
        for tkey in tkeys:
            check_pair(ctx, tkey, so, col, ga)
        if so.snap() != snap0:
            if shared_screen_changed(ctx, ns, nt, tkeys, col):
                col.count("item-aborted-after-screen-mutation")
                return
            locate_screen_mutation(ns, nt, sspec, tkeys, col)
    shared_screen_changed(ctx, ns, nt, tkeys, col)


def replay(case, col):
    ns, nt = case["u"]
    ctx = Ctx(ns, nt)
    so = ctx.build(case["screen"])
    if so is None:
        print("replay: promotion renumbered the ids; nothing to compare")
        return
    print(f"universe: {ns} samples x {nt} treatments; screen {case['screen']}")
    print(f"rows (sample id, treatment ids; -1 = control): {so.rows}")
    if "helper" in case:
        h = case["helper"]
        check_helper(ctx, h["type"], h["D"], h["seq"], h["declared"], so, col, chains=h.get("chains"), how=h.get("how", "concat"))
        return
    tkey = case["theta"]
    th = ctx.theta(tkey)
    print(f"sample type {th.typ}, D={th.D}, pattern {th.pat}; parameters: {json.dumps(th.P)}")
    try:
        print("mean     ", th.obj.predict_conditional_mean(so.obj).tolist())
        print("viability", th.obj.predict_viability(so.obj).tolist())
        print("variance ", th.obj.predict_conditional_variance(so.obj).tolist())
    except Exception as exc:  # noqa: BLE001
        print("prediction raised:", short_exc(exc))
    ctx = Ctx(ns, nt)
    so = ctx.build(case["screen"])
    check_pair(ctx, tkey, so, col, snap_screen=True)
