"""C18  Randomised steps are deterministic in (inputs, generator/seed) and neither read
nor perturb the process-global random state.

E1 (operations x inputs x seeds) x perturbation schedules of the global generators, plus
a tripwire on every global random primitive (call sites inside batchie are violations)."""
import os
import random as pyrandom
import shutil
import sys

import numpy as np

from .. import env

env.setup()

from ..cli import run_cli  # noqa: E402
from ..core import digest, short_exc  # noqa: E402
from ..logctx import package_logger_at_debug  # noqa: E402
from ..screens import make_screen, snapshot  # noqa: E402

from batchie import retrospective as R  # noqa: E402
from batchie import sampling  # noqa: E402
from batchie.core import ThetaHolder  # noqa: E402
from batchie.data import Screen, ExperimentSpace  # noqa: E402
from batchie.distance_calculation import ChunkedDistanceMatrix  # noqa: E402
from batchie.models.main import ModelEvaluation  # noqa: E402
from batchie.models.sparse_combo import SparseDrugCombo, SparseDrugComboMCMCSample  # noqa: E402
from batchie.models.sparse_combo_interaction import SparseDrugComboInteraction  # noqa: E402
from batchie.policies.k_per_sample import KPerSamplePlatePolicy  # noqa: E402
from batchie.scoring import gaussian_dbal  # noqa: E402
from batchie.scoring.main import ChunkedScoresHolder, score_chunk, select_next_plate  # noqa: E402
from batchie.scoring.rand import RandomScorer  # noqa: E402

PROP = "C18"
LEVEL = "model_checking"
ENGINE = "E1-input-enumeration+E2-choice-tree"
TECHNIQUE = "exhaustive (operation x input x seed x global-state perturbation schedule) differential runs plus a global-RNG tripwire that covers every interleaving"
LEVEL_TEXT = (
    "Every randomised operation and every CLI step given --seed is executed under each perturbation schedule of the "
    "process-global generators (different global seeds, k extra global draws injected before the call); all outputs "
    "must be identical, the global numpy / python random states must be untouched afterwards, and a tripwire on every "
    "global random primitive (np.random.<legacy fn>, unseeded default_rng(), random.*, np.random.seed) must not be hit "
    "from batchie code - the latter decides independence from *any* interleaving, not just the enumerated ones."
)
RULE = (
    "operation objects reused along every call history of length <= 3 over 3 (seed, input) letters (last call compared with a fresh object); "
    "operations (4 generators, 6 smoothers, sparse cover, 2 hold-outs, RandomScorer via score_chunk, DBAL triple sub-sampling, "
    "policy selection, sampling.sample with both MCMC models, 5 CLI mains with --seed) x inputs x seeds x schedules "
    "(global seed, number of injected global draws); non-trivial = the operation consumed randomness (its output "
    "changes with the seed of its own generator); distinct = (operation, input, seed, output digest)"
)
SCHEDULES = [(1, 0), (2, 0), (1, 1), (9, 7)]
BOUNDS = {
    "quick": {"seeds": [0, 1, 12], "schedules": SCHEDULES, "logging": "default (silenced) for every schedule; the first schedule once more with the package logger at DEBUG", "generator_provenance": "the first schedule once more with every seeded generator replaced by one in the same state that was not built from the seed", "inputs_per_operation": 2, "large_plate_input": "generators, smoothers, hold-outs and prepare_retrospective_simulation also on a 22-well screen with plates of 8, 8 and 6 wells", "cross_process": "12 library operations x 2 inputs x 2 seeds in 2 interpreters with different PYTHONHASHSEED"},
    "thorough": {"seeds": [0, 1, 2, 12, 2**32 - 1], "schedules": SCHEDULES + [(123456, 3), (0, 100)], "logging": "as quick", "inputs_per_operation": 3},
}
ASSUMPTIONS = [
    "numpy Generators seeded identically produce identical streams (trusted)",
    "a tripwire hit is attributed to the innermost batchie frame on the stack; calls from the harness or from libraries "
    "outside a batchie frame are ignored",
]

_NP_LEGACY = [
    "normal", "gamma", "choice", "permutation", "shuffle", "rand", "randn", "random", "random_sample", "ranf", "sample",
    "randint", "random_integers", "uniform", "standard_normal", "standard_gamma", "beta", "binomial", "exponential",
    "poisson", "multivariate_normal", "dirichlet", "chisquare", "lognormal", "laplace", "bytes", "seed", "set_state",
]
_PY_RANDOM = ["random", "randint", "randrange", "choice", "choices", "shuffle", "sample", "uniform", "gauss", "normalvariate",
              "seed", "getrandbits", "betavariate", "expovariate", "gammavariate", "triangular"]


class _SpyGenerator:
    """Stands in for a Generator that batchie created without a seed."""

    def __init__(self, real, site, trip):
        object.__setattr__(self, "_real", real)
        object.__setattr__(self, "_site", site)
        object.__setattr__(self, "_trip", trip)

    def __getattr__(self, name):
        attr = getattr(self._real, name)
        if callable(attr) and not name.startswith("_") and name not in ("spawn",):
            self._trip.hits.append((self._site, f"unseeded np.random.default_rng() [drawn from: {name}]"))
        return attr


class Tripwire:
    def __init__(self, clone=False):
        self.hits = []
        self._saved = []
        # clone: every SEEDED default_rng(...) hands out a generator of the same kind in the same STATE that was not built from
        # that seed (state restored from a checkpoint / sent to a worker): "identically seeded" means the same stream, whatever
        # the provenance of the object
        self.clone = clone

    def _site(self):
        return self._site_from(sys._getframe(2))

    @staticmethod
    def _site_from(f):
        while f is not None:
            fn = f.f_code.co_filename
            if env.in_repo(fn):
                return f"{os.path.relpath(fn, env.REPO)}:{f.f_code.co_name}"
            f = f.f_back
        return None

    def _wrap(self, owner, name, label, only_if=None):
        real = getattr(owner, name)
        trip = self

        def wrapper(*a, **k):
            if only_if is None or only_if(a, k):
                site = trip._site()
                if site is not None:
                    trip.hits.append((site, label))
            return real(*a, **k)

        self._saved.append((owner, name, real))
        setattr(owner, name, wrapper)

    def __enter__(self):
        for n in _NP_LEGACY:
            if hasattr(np.random, n):
                self._wrap(np.random, n, f"np.random.{n}")
        # an unseeded default_rng() is harmless until somebody draws from it: hand batchie a
        # spy that reports the first draw (deterministic detection, no reliance on two
        # entropy-seeded runs happening to differ)
        real_default_rng = np.random.default_rng
        trip = self

        def default_rng_wrapper(*a, **k):
            g = real_default_rng(*a, **k)
            unseeded = (len(a) == 0 or a[0] is None) and k.get("seed") is None
            if unseeded:
                site = trip._site_from(sys._getframe(1))
                if site is not None:
                    return _SpyGenerator(g, site, trip)
            elif trip.clone:
                g2 = np.random.Generator(type(g.bit_generator)())
                g2.bit_generator.state = g.bit_generator.state
                return g2
            return g

        self._saved.append((np.random, "default_rng", real_default_rng))
        np.random.default_rng = default_rng_wrapper
        for n in _PY_RANDOM:
            if hasattr(pyrandom, n):
                self._wrap(pyrandom, n, f"random.{n}")
        return self

    def __exit__(self, *exc):
        for owner, name, real in reversed(self._saved):
            setattr(owner, name, real)
        self._saved = []


# ------------------------------------------------------------------ inputs
def _rows(variant):
    ctl = ""
    if variant == 0:
        rows = [
            ("s0", "obs", (("a", 1.0), ("b", 1.0)), 0.35, True),
            ("s1", "obs", (("a", 1.0), (ctl, 0.0)), 0.45, True),
            ("s0", "p1", (("a", 1.0), ("c", 1.0)), 0.55, False),
            ("s0", "p1", (("b", 1.0), ("c", 1.0)), 0.65, False),
            ("s0", "p2", (("b", 2.0), ("a", 1.0)), 0.75, False),
            ("s1", "p3", (("a", 1.0), ("b", 1.0)), 0.85, False),
            ("s1", "p3", (("b", 1.0), ("c", 1.0)), 0.25, False),
            ("s1", "p4", (("c", 1.0), ("a", 2.0)), 0.15, False),
        ]
    elif variant == 1:
        rows = [
            ("x", "p0", (("a", 1.0), ("b", 1.0)), 0.3, False),
            ("x", "p0", (("a", 1.0), ("c", 1.0)), 0.4, False),
            ("x", "p1", (("b", 1.0), ("c", 1.0)), 0.5, False),
            ("x", "p1", (("c", 1.0), ("d", 1.0)), 0.6, False),
            ("x", "p2", (("a", 1.0), ("d", 1.0)), 0.7, False),
            ("y", "p3", (("a", 1.0), ("b", 1.0)), 0.8, False),
            ("y", "p4", (("b", 1.0), ("d", 1.0)), 0.9, False),
        ]
    elif variant == 4:
        # every treatment of the last sample is already covered when the initial cover reaches it (its "pick anything" branch)
        rows = [
            ("s0", "p0", (("a", 1.0), ("b", 1.0)), 0.31, False),
            ("s1", "p0", (("c", 1.0), ("d", 1.0)), 0.32, False),
            ("s2", "p1", (("a", 1.0), ("c", 1.0)), 0.33, False),
            ("s2", "p1", (("b", 1.0), ("d", 1.0)), 0.34, False),
            ("s2", "p2", (("d", 1.0), ("a", 1.0)), 0.36, False),
            ("s3", "p2", (("b", 1.0), ("c", 1.0)), 0.37, False),
            ("s3", "p2", (("c", 1.0), ("b", 1.0)), 0.38, False),
        ]
    elif variant == 6:
        # degenerate: one sample, one treatment (many operations refuse it: that is an answer too, and must leave nothing behind)
        rows = [("s0", "p0", (("a", 1.0), ("a", 1.0)), 0.3, False), ("s0", "p0", (("a", 1.0), (ctl, 0.0)), 0.4, False)]
    elif variant == 5:
        # large plates (8, 8 and 6 wells, one of them observed): operations that handle MANY wells of one plate at once
        drugs = ["a", "b", "c", "d", "e"]
        rows = []
        for i in range(22):
            plate = "q0" if i < 8 else ("q1" if i < 16 else "q2")
            rows.append((f"s{i % 3}", plate, ((drugs[i % 5], 1.0 + i % 2), (drugs[(i + 1 + i // 5) % 5], 1.0)), 0.05 + 0.04 * i, plate == "q2"))
    elif variant == 3:
        rows = [
            ("s0", "p1", (("a", 1.0), ("b", 1.0)), 0.35, False),
            ("s0", "p1", (("a", 1.0), ("c", 1.0)), 0.55, False),
            ("s0", "p2", (("b", 1.0), ("c", 1.0)), 0.65, False),
            ("s0", "p2", (("c", 1.0), ("d", 1.0)), 0.66, False),
            ("s1", "p3", (("a", 1.0), ("d", 1.0)), 0.75, False),
            ("s1", "p3", (("b", 1.0), ("d", 1.0)), 0.45, False),
            ("s1", "p4", (("a", 1.0), ("b", 1.0)), 0.15, False),
            ("s0", "p5", (("a", 1.0), (ctl, 0.0)), 0.25, False),
            ("s0", "p5", ((ctl, 0.0), ("b", 1.0)), 0.26, False),
            ("s1", "p5", (("d", 1.0), (ctl, 0.0)), 0.27, False),
            ("s1", "p5", (("a", 1.0), (ctl, 0.0)), 0.28, False),
            ("zz", "p6", (("a", 1.0), ("b", 1.0)), 0.29, False),
            ("zz", "p6", (("b", 1.0), (ctl, 0.0)), 0.30, False),
        ]
    else:
        rows = [
            ("s0", "obs", (("a", 1.0), ("b", 1.0)), 0.35, True),
            ("s0", "p1", (("a", 1.0), ("c", 1.0)), 0.55, False),
            ("s0", "p1", (("b", 1.0), ("c", 1.0)), 0.65, False),
            ("s0", "p1", (("b", 2.0), ("c", 1.0)), 0.66, False),
            ("s0", "p2", (("b", 2.0), ("a", 1.0)), 0.75, False),
            ("s0", "p2", (("a", 1.0), (ctl, 0.0)), 0.45, False),
            ("s0", "p2", (("c", 1.0), ("a", 1.0)), 0.15, False),
        ]
    return rows


def input_screen(variant, all_observed=False):
    rows = _rows(variant)
    if all_observed:
        rows = [(r[0], r[1], r[2], r[3], True) for r in rows]
    return make_screen(rows, control="")


def _snap(screen):
    return tuple(sorted(snapshot(screen).items()))


def _thetas(n, ns, nt, D=2):
    th = ThetaHolder(n_thetas=n)
    for i in range(n):
        g = lambda shape, off: (np.arange(int(np.prod(shape)), dtype=float).reshape(shape) * 0.05 * (i + 1) + off)  # noqa: E731,B023
        th.add_theta(SparseDrugComboMCMCSample(W=g((ns, D), 0.1), W0=g((ns,), -0.2), V2=g((nt, D), 0.03), V1=g((nt, D), -0.1),
                                               V0=g((nt,), 0.2), alpha=0.1 * i, precision=1.0 + i))
    return th


def _dist(n):
    dm = ChunkedDistanceMatrix(size=n)
    for i in range(n):
        for j in range(i):
            dm.add_value(i, j, float(i + j + 1))
    return dm


def _theta_bytes(holder):
    out = []
    for th in holder.thetas:
        d = dict(th.private_parameters_dict())
        out.append(tuple((k, np.asarray(v, dtype=float).tobytes()) for k, v in sorted(d.items())))
    return tuple(out)


# ------------------------------------------------------------------ operations
def op_generator(kind, params):
    def run(seed, variant, tmp):
        screen = input_screen(variant)
        rng = np.random.default_rng(seed)
        gen = {"pairwise": R.PairwisePlateGenerator, "permutation": R.PlatePermutationPlateGenerator,
               "segregate": R.SampleSegregatingPermutationPlateGenerator}[kind](**params)
        return _snap(gen.generate_plates(screen, rng))
    return run


def op_generator_twice(kind, params):
    """generate -> reveal the first generated plate -> generate again for the rest (the names the generator issues the
    second time collide with the revealed plate's name).  Whatever the library does here - on this tree it refuses - it
    must do the same every time for the same generator state."""
    def run(seed, variant, tmp):
        screen = input_screen(variant)
        rng = np.random.default_rng(seed)
        mk = lambda: {"pairwise": R.PairwisePlateGenerator, "segregate": R.SampleSegregatingPermutationPlateGenerator}[kind](**params)  # noqa: E731
        first = mk().generate_plates(screen, rng)
        un = sorted(int(p.plate_id) for p in first.plates if not p.is_observed)
        revealed = R.reveal_plates(first, [un[0]])
        try:
            return _snap(mk().generate_plates(revealed, rng))
        except ValueError as exc:
            return ("refused", type(exc).__name__)
    return run


def op_smoother(cls, params):
    def run(seed, variant, tmp):
        screen = input_screen(variant)
        rng = np.random.default_rng(seed)
        return _snap(getattr(R, cls)(**params).smooth_plates(screen, rng))
    return run


def op_sparse_cover(seed, variant, tmp):
    screen = input_screen(variant, all_observed=True)
    rng = np.random.default_rng(seed)
    return _snap(R.SparseCoverPlateGenerator(reveal_single_treatment_experiments=False).generate_and_unmask_initial_plate(screen, rng))


def op_sparse_cover_late(seed, variant, tmp):
    screen = input_screen(4, all_observed=True)
    rng = np.random.default_rng(seed)
    return _snap(R.SparseCoverPlateGenerator(reveal_single_treatment_experiments=bool(variant % 2)).generate_and_unmask_initial_plate(screen, rng))


def op_holdout(which):
    def run(seed, variant, tmp):
        screen = input_screen(variant)
        rng = np.random.default_rng(seed)
        f = getattr(R, which)
        a, b = f(screen, 0.5, rng)
        return (_snap(a), _snap(b))
    return run


def op_mvn_precision(seed, variant, tmp):
    """The multivariate-normal helper every Gibbs block draws through, with the generator it is given.  variant 0: a
    well-conditioned precision; 1: an exactly singular one; 2: one whose prior term was absorbed by float32 rounding (singular
    only in float32).  A refusal (LinAlgError) is an answer like any other: the same for the same inputs."""
    from batchie.fast_mvn import sample_mvn_from_precision

    if variant == 0:
        Q = np.array([[2.0, 0.3, 0.1], [0.3, 1.5, 0.2], [0.1, 0.2, 1.1]])
        part = np.array([0.5, -0.25, 1.0])
    elif variant == 1:
        Q = np.array([[1.0, 1.0], [1.0, 1.0]])
        part = np.array([1.0, 1.0])
    else:
        X = np.full((1, 2), 2.0 ** 20, dtype=np.float32)
        Q = X.T @ X
        Q[np.diag_indices(2)] += np.float32(100.0)
        part = (X.T @ np.array([1.0], dtype=np.float32)).astype(np.float32)
    out = []
    rng = np.random.default_rng(seed)
    for kw in ({"mu_part": part}, {"mu": part}, {}):
        try:
            out.append(np.asarray(sample_mvn_from_precision(Q, rng=rng, **kw), dtype=float).tobytes())
        except np.linalg.LinAlgError as exc:
            out.append("LinAlgError:" + str(exc))
    return tuple(out) + (rng.bit_generator.state["state"]["state"],)


def op_random_scorer(seed, variant, tmp):
    screen = input_screen(variant)
    rng = np.random.default_rng(seed)
    ns, nt = ExperimentSpace.from_screen(screen).n_unique_samples, ExperimentSpace.from_screen(screen).n_unique_treatments
    h = score_chunk(RandomScorer(), _thetas(3, ns, nt), screen, _dist(3), rng=rng, n_chunks=1, chunk_index=0)
    return (h.plate_ids.tobytes(), h.scores.tobytes())


def op_dbal_subsample(seed, variant, tmp):
    rng = np.random.default_rng(seed)
    n = 5 + variant
    preds = (np.arange(2 * n * 3, dtype=float).reshape(2, n, 3) % 7) * 0.3
    var = 0.5 + (np.arange(2 * n * 3, dtype=float).reshape(2, n, 3) % 3)
    D = _dist(n).to_dense()
    s = gaussian_dbal.dbal_fast_gauss_scoring_vectorized(preds, var, D, rng=rng, max_combos=4)
    return np.asarray(s, dtype=float).tobytes()


def op_select_policy(seed, variant, tmp):
    screen = input_screen(1)
    rng = np.random.default_rng(seed)
    un = [int(p.plate_id) for p in screen.plates if not p.is_observed]
    h = ChunkedScoresHolder(len(un))
    for i, p in enumerate(un):
        h.add_score(p, float((i * 7 + variant) % 3))
    plate = select_next_plate(h, screen, KPerSamplePlatePolicy(k=1 + variant % 2), batch_plate_ids=[], rng=rng)
    return None if plate is None else int(plate.plate_id)


def op_select_defaults(seed, variant, tmp):
    """select_next_plate called the shortest way (no batch list, no policy): same inputs, same generator -> same plate, however
    often it has been called before in this process"""
    screen = input_screen(1)
    un = [int(p.plate_id) for p in screen.plates if not p.is_observed]
    h = ChunkedScoresHolder(len(un))
    for i, p in enumerate(un):
        h.add_score(p, float((i * 5 + variant) % 4))
    out = []
    for _ in range(2):
        plate = select_next_plate(h, screen, None, rng=np.random.default_rng(seed))
        out.append(None if plate is None else int(plate.plate_id))
    return tuple(out)


def cli_prepare_zero_plates(seed, variant, tmp):
    """prepare_retrospective_simulation on a screen most of whose plates hold only zeros (a first plate drawn among them is
    refused by reveal_plates): whatever the command does then, it does the same for the same --seed"""
    rows = []
    for p in range(6):
        for w in range(2):
            zero = p not in (1 + variant % 2, 4)
            rows.append((f"s{p % 2}", f"g{p}", (("a", 1.0 + w), ("b", 1.0 + (p % 3))), 0.0 if zero else 0.2 + 0.1 * p + 0.05 * w, True))
    a, tr, te = (os.path.join(tmp, x) for x in ("inz.h5", "trz.h5", "tez.h5"))
    make_screen(rows, control="").save_h5(a)
    for f in (tr, te):
        if os.path.exists(f):
            os.remove(f)
    try:
        run_cli("prepare_retrospective_simulation", ["--data", a, "--training-output", tr, "--test-output", te, "--holdout-fraction", "0.5", "--seed", seed])
    except ValueError as exc:
        return ("refused", str(exc)[:60])
    return (_snap(Screen.load_h5(tr)), _snap(Screen.load_h5(te)))


def op_sample_model(which, burnin=1):
    def run(seed, variant, tmp):
        screen = input_screen(variant, all_observed=True)
        es = ExperimentSpace.from_screen(screen)
        cls = SparseDrugCombo if which == "combo" else SparseDrugComboInteraction
        model = cls(experiment_space=es, n_embedding_dimensions=2)
        model.add_observations(screen.subset_observed())
        res = sampling.sample(model, ThetaHolder(n_thetas=2), seed=seed, n_chains=2, chain_index=variant % 2, n_burnin=burnin, thin=2)
        return _theta_bytes(res)
    return run


def op_model_direct(which, order):
    """Model training driven directly (no sampling.sample): the generator is handed over with set_rng, the model is reset and
    stepped - in both orders of set_rng / reset_model."""
    def run(seed, variant, tmp):
        screen = input_screen(variant, all_observed=True)
        es = ExperimentSpace.from_screen(screen)
        cls = SparseDrugCombo if which == "combo" else SparseDrugComboInteraction
        model = cls(experiment_space=es, n_embedding_dimensions=2)
        model.add_observations(screen.subset_observed())
        g = np.random.default_rng(seed)
        if order == "other-rng-first":
            # history: the model is first handed ANOTHER generator (whose state follows the process-global state the
            # schedule set up - read, not drawn from), nothing is drawn, then it is handed g: from then on g is "the given
            # generator" and the result may depend on nothing else
            other = np.random.default_rng([int(x) for x in np.random.get_state()[1][:4]])
            model.set_rng(other)
            model.set_rng(g)
            model.reset_model()
        elif order == "rng-then-reset":
            model.set_rng(g)
            model.reset_model()
        else:
            model.reset_model()
            model.set_rng(g)
        out = []
        for _ in range(3):
            model.step()
            th = model.get_model_state()
            out.append(tuple((k_, np.asarray(v_, dtype=float).tobytes()) for k_, v_ in sorted(dict(th.private_parameters_dict()).items())))
        return tuple(out)
    return run


def op_sample_vi_stub(seed, variant, tmp):
    """sampling.sample's variational branch with a stub VIModel that draws from the generator it is handed."""
    from batchie.core import BayesianModel, VIModel

    class StubVI(BayesianModel, VIModel):
        def __init__(self):
            self._rng = None
            self.n_reset = 0

        def set_rng(self, rng):
            self._rng = rng

        @property
        def rng(self):
            return self._rng

        def _add_observations(self, data):
            pass

        def n_obs(self):
            return 0

        def reset_model(self):
            self.n_reset += 1

        def sample(self, num_samples):
            return [SparseDrugComboMCMCSample(W=self._rng.normal(size=(2, 2)), W0=np.zeros(2), V2=np.zeros((2, 2)), V1=np.zeros((2, 2)),
                                              V0=np.zeros(2), alpha=float(self._rng.random()), precision=1.0) for _ in range(num_samples)]

    res = sampling.sample(StubVI(), ThetaHolder(n_thetas=2 + variant), seed=seed)
    return _theta_bytes(res)


def cli_prepare(with_initial):
    def run(seed, variant, tmp):
        screen = input_screen(variant, all_observed=True)
        a, tr, te = (os.path.join(tmp, x) for x in ("in.h5", "tr.h5", "te.h5"))
        screen.save_h5(a)
        argv = ["--data", a, "--training-output", tr, "--test-output", te, "--holdout-fraction", "0.5", "--seed", seed,
                "--plate-generator", "SampleSegregatingPermutationPlateGenerator", "--plate-generator-param", "max_plate_size=2",
                "--plate-smoother", "FixedSizeSmoother", "--plate-smoother-param", "plate_size=1"]
        if with_initial:
            argv += ["--initial-plate-generator", "SparseCoverPlateGenerator", "--initial-plate-generator-param",
                     "reveal_single_treatment_experiments=false"]
        run_cli("prepare_retrospective_simulation", argv)
        return (_snap(Screen.load_h5(tr)), _snap(Screen.load_h5(te)))
    return run


def cli_train(model, burnin=1):
    def run(seed, variant, tmp):
        screen = input_screen(variant)
        if model == "SparseDrugComboInteraction":
            screen = input_screen(variant, all_observed=True)
        a, out = os.path.join(tmp, "in.h5"), os.path.join(tmp, "thetas.h5")
        screen.save_h5(a)
        run_cli("train_model", ["--data", a, "--output", out, "--model", model, "--model-param", "n_embedding_dimensions=2",
                                "--n-samples", 2, "--n-burnin", burnin, "--thin", 1, "--n-chains", 2, "--chain-index", variant % 2, "--seed", seed])
        return _theta_bytes(ThetaHolder.load_h5(out))
    return run


def _save_score_inputs(screen, tmp, n):
    es = ExperimentSpace.from_screen(screen)
    a, t, d = (os.path.join(tmp, x) for x in ("in.h5", "thetas.h5", "dist.h5"))
    screen.save_h5(a)
    _thetas(n, es.n_unique_samples, es.n_unique_treatments).save_h5(t)
    _dist(n).save(d)
    return a, t, d


def cli_scores(scorer, n, n_chunks=1, chunk_index=0):
    def run(seed, variant, tmp):
        screen = input_screen(variant)
        a, t, d = _save_score_inputs(screen, tmp, n)
        out = os.path.join(tmp, "scores.h5")
        run_cli("calculate_scores", ["--data", a, "--thetas", t, "--distance-matrix", d, "--scorer", scorer, "--output", out,
                                     "--n-chunks", n_chunks, "--chunk-index", chunk_index, "--seed", seed])
        h = ChunkedScoresHolder.load_h5(out)
        return (h.plate_ids.tobytes(), h.scores.tobytes())
    return run


def cli_select(seed, variant, tmp):
    screen = input_screen(1)
    a, s, out = (os.path.join(tmp, x) for x in ("in.h5", "scores.h5", "sel"))
    screen.save_h5(a)
    un = [int(p.plate_id) for p in screen.plates if not p.is_observed]
    h = ChunkedScoresHolder(len(un))
    for i, p in enumerate(un):
        h.add_score(p, float((i * 5 + variant) % 3))
    h.save_h5(s)
    run_cli("select_next_plate", ["--data", a, "--scores", s, "--output", out, "--policy", "KPerSamplePlatePolicy", "--policy-param", "k=1",
                                  "--seed", seed])
    return open(out).read().strip()


def cli_evaluate(seed, variant, tmp):
    screen = input_screen(variant, all_observed=True)
    es = ExperimentSpace.from_screen(screen)
    a, t, out = (os.path.join(tmp, x) for x in ("in.h5", "thetas.h5", "me.h5"))
    screen.save_h5(a)
    _thetas(3, es.n_unique_samples, es.n_unique_treatments).save_h5(t)
    run_cli("evaluate_model", ["--screen", a, "--thetas", t, "--output", out, "--seed", seed])
    me = ModelEvaluation.load_h5(out)
    return (me.predictions.tobytes(), me.chain_ids.tobytes())


def operations(tier):
    ops = {}
    for a, s in ((0, 1), (2, 1), (0, 2)):
        ops[f"gen:pairwise({s},{a})"] = op_generator("pairwise", {"subset_size": s, "anchor_size": a})
    ops["gen:permutation"] = op_generator("permutation", {})
    ops["gen:segregate(2)"] = op_generator("segregate", {"max_plate_size": 2})
    ops["gen:segregate(2):again-after-reveal"] = op_generator_twice("segregate", {"max_plate_size": 2})
    ops["gen:pairwise(1,0):again-after-reveal"] = op_generator_twice("pairwise", {"subset_size": 1, "anchor_size": 0})
    ops["smooth:merge_min(2)"] = op_smoother("MergeMinPlateSmoother", {"min_size": 2})
    ops["smooth:merge_top_bottom(1)"] = op_smoother("MergeTopBottomPlateSmoother", {"n_iterations": 1})
    ops["smooth:fixed(1)"] = op_smoother("FixedSizeSmoother", {"plate_size": 1})
    ops["smooth:optimal"] = op_smoother("OptimalSizeSmoother", {})
    ops["smooth:n_per_sample(1)"] = op_smoother("NPlatePerCellLineSmoother", {"min_n_cell_line_plates": 1})
    ops["smooth:ensemble(2,1,1)"] = op_smoother("BatchieEnsemblePlateSmoother", {"min_size": 2, "n_iterations": 1, "min_n_cell_line_plates": 1})
    ops["sparse_cover"] = op_sparse_cover
    ops["sparse_cover:late-sample-covered"] = op_sparse_cover_late
    ops["holdout:plate"] = op_holdout("create_plate_balanced_holdout_set_among_masked_plates")
    ops["holdout:random"] = op_holdout("create_random_holdout")
    ops["mvn:precision"] = op_mvn_precision
    ops["score:random"] = op_random_scorer
    ops["score:dbal-subsample"] = op_dbal_subsample
    ops["select:k-per-sample"] = op_select_policy
    ops["select:defaults-twice"] = op_select_defaults
    ops["cli:prepare_retrospective_simulation:zero-plates"] = cli_prepare_zero_plates
    ops["sample:SparseDrugCombo"] = op_sample_model("combo")
    ops["sample:SparseDrugComboInteraction"] = op_sample_model("interaction")
    # edge of the schedule: no burn-in at all (the seeded stream must reach the model just the same)
    ops["sample:SparseDrugCombo:burnin0"] = op_sample_model("combo", burnin=0)
    ops["sample:SparseDrugComboInteraction:burnin0"] = op_sample_model("interaction", burnin=0)
    for which in ("combo", "interaction"):
        for order in ("rng-then-reset", "reset-then-rng", "other-rng-first"):
            ops[f"model:{which}:{order}"] = op_model_direct(which, order)
    ops["sample:variational-stub"] = op_sample_vi_stub
    ops["cli:prepare_retrospective_simulation"] = cli_prepare(False)
    ops["cli:prepare_retrospective_simulation+initial"] = cli_prepare(True)
    ops["cli:train_model:SparseDrugCombo"] = cli_train("SparseDrugCombo")
    ops["cli:train_model:SparseDrugComboInteraction"] = cli_train("SparseDrugComboInteraction")
    ops["cli:train_model:SparseDrugCombo:burnin0"] = cli_train("SparseDrugCombo", burnin=0)
    ops["cli:calculate_scores:RandomScorer"] = cli_scores("RandomScorer", 3)
    ops["cli:calculate_scores:GaussianDBALScorer"] = cli_scores("GaussianDBALScorer", 33)
    ops["cli:calculate_scores:RandomScorer:chunk1of2"] = cli_scores("RandomScorer", 3, 2, 1)
    ops["cli:calculate_scores:RandomScorer:chunk2of3"] = cli_scores("RandomScorer", 3, 3, 2)
    ops["cli:select_next_plate"] = cli_select
    ops["cli:evaluate_model"] = cli_evaluate
    return ops


# ------------------------------------------------------------------ reuse histories
# Operation objects (generators, smoothers, scorers, the policy) are plain parameter
# holders: calling one again - after any earlier calls with other seeds / inputs - with
# identical inputs and an identically seeded generator must give the output a fresh
# object gives.  Histories: every sequence of <= 3 calls over a 4-letter alphabet (one letter is a degenerate screen most operations refuse) of
# (seed, input) pairs; the last call is compared with a fresh object.
REUSE_ALPHABET = [(0, 0), (1, 0), (0, 1), (0, 6)]  # (seed, input); input 6 is the degenerate screen most operations refuse


def _call_generator(obj, seed, variant):
    return _snap(obj.generate_plates(input_screen(variant), np.random.default_rng(seed)))


def _call_smoother(obj, seed, variant):
    return _snap(obj.smooth_plates(input_screen(variant), np.random.default_rng(seed)))


def _call_cover(obj, seed, variant):
    return _snap(obj.generate_and_unmask_initial_plate(input_screen(variant, all_observed=True), np.random.default_rng(seed)))


def _call_scorer(obj, seed, variant):
    screen = input_screen(variant)
    es = ExperimentSpace.from_screen(screen)
    h_ = score_chunk(obj, _thetas(5, es.n_unique_samples, es.n_unique_treatments), screen, _dist(5), rng=np.random.default_rng(seed),
                     n_chunks=1, chunk_index=0)
    return (h_.plate_ids.tobytes(), h_.scores.tobytes())


def _call_policy(obj, seed, variant):
    screen = input_screen(1)
    un = [int(p.plate_id) for p in screen.plates if not p.is_observed]
    h_ = ChunkedScoresHolder(len(un))
    for i, p in enumerate(un):
        h_.add_score(p, float((i * 7 + variant) % 3))
    # input 0: empty batch; 1: one plate of the first sample; any other input: one plate of the first and one of the last sample
    # (two samples part way through for k >= 2)
    batch = {0: [], 1: [un[0]]}.get(variant, [un[0], un[-1]])
    plate = select_next_plate(h_, screen, obj, batch_plate_ids=batch, rng=np.random.default_rng(seed))
    return None if plate is None else int(plate.plate_id)


def reuse_operations():
    from batchie.scoring.gaussian_dbal import GaussianDBALScorer
    from batchie.scoring.size import SizeScorer

    return {
        "reuse:GaussianDBALScorer(max_triples=4)": (lambda: GaussianDBALScorer(max_triples=4), _call_scorer),
        "reuse:GaussianDBALScorer(max_triples=4,max_chunk=1)": (lambda: GaussianDBALScorer(max_triples=4, max_chunk=1), _call_scorer),
        "reuse:RandomScorer": (RandomScorer, _call_scorer),
        "reuse:SizeScorer": (SizeScorer, _call_scorer),
        "reuse:PairwisePlateGenerator(1,0)": (lambda: R.PairwisePlateGenerator(subset_size=1, anchor_size=0), _call_generator),
        "reuse:PairwisePlateGenerator(2,0)": (lambda: R.PairwisePlateGenerator(subset_size=2, anchor_size=0), _call_generator),
        "reuse:PairwisePlateGenerator(2,1)": (lambda: R.PairwisePlateGenerator(subset_size=2, anchor_size=1), _call_generator),
        "reuse:PlatePermutationPlateGenerator": (lambda: R.PlatePermutationPlateGenerator(), _call_generator),
        "reuse:SampleSegregatingPermutationPlateGenerator(2)": (lambda: R.SampleSegregatingPermutationPlateGenerator(max_plate_size=2), _call_generator),
        "reuse:FixedSizeSmoother(1)": (lambda: R.FixedSizeSmoother(plate_size=1), _call_smoother),
        "reuse:OptimalSizeSmoother": (lambda: R.OptimalSizeSmoother(), _call_smoother),
        "reuse:MergeMinPlateSmoother(2)": (lambda: R.MergeMinPlateSmoother(min_size=2), _call_smoother),
        "reuse:MergeTopBottomPlateSmoother(1)": (lambda: R.MergeTopBottomPlateSmoother(n_iterations=1), _call_smoother),
        "reuse:NPlatePerCellLineSmoother(1)": (lambda: R.NPlatePerCellLineSmoother(min_n_cell_line_plates=1), _call_smoother),
        "reuse:BatchieEnsemblePlateSmoother(2,1,1)": (lambda: R.BatchieEnsemblePlateSmoother(min_size=2, n_iterations=1, min_n_cell_line_plates=1), _call_smoother),
        "reuse:SparseCoverPlateGenerator": (lambda: R.SparseCoverPlateGenerator(reveal_single_treatment_experiments=False), _call_cover),
        "reuse:KPerSamplePlatePolicy(1)": (lambda: KPerSamplePlatePolicy(k=1), _call_policy),
        "reuse:KPerSamplePlatePolicy(2)": (lambda: KPerSamplePlatePolicy(k=2), _call_policy),
        "reuse:KPerSamplePlatePolicy(3)": (lambda: KPerSamplePlatePolicy(k=3), _call_policy),
    }


def run_reuse(item, col, tier):
    import itertools

    make, call0 = reuse_operations()[item["op"]]

    def call(obj, seed, variant):
        # a refusal is an outcome like any other (and the object is used again afterwards)
        try:
            return call0(obj, seed, variant)
        except Exception as exc:  # noqa: BLE001
            from ..core import exception_origin_in_repo
            if not exception_origin_in_repo(exc):
                raise
            return "raised:" + type(exc).__name__

    fresh = {}
    for a_ in REUSE_ALPHABET:
        with Tripwire() as tw:
            fresh[a_] = digest(call(make(), a_[0], a_[1]))
        for site, label in sorted(set(tw.hits)):
            col.violation(f"C18|callsite|{site}|{label}", f"{item['op']}: batchie code at {site} calls the process-global {label}",
                          {"reuse": item["op"], "history": [list(a_)]})
        col.evaluations += 1
    col.outcome(item["op"], tuple(sorted(fresh.items())))
    depth = 3 if tier == "thorough" or not item["op"].startswith("reuse:Batchie") else 2
    for n in range(2, depth + 1):
        for hist in itertools.product(REUSE_ALPHABET, repeat=n):
            obj = make()
            out = None
            for (seed, variant) in hist:
                out = digest(call(obj, seed, variant))
                col.evaluations += 1
                col.transitions += 1
            col.states += 1
            if len(set(hist)) > 1:
                col.nontriv(item["op"], hist)
            if out != fresh[hist[-1]]:
                col.violation(f"C18|history-dependent|{item['op']}",
                              f"{item['op']}: after the calls {list(hist[:-1])} (seed, input) on the same object, the call {hist[-1]} gives a different "
                              f"output than the same call on a fresh object", {"reuse": item["op"], "history": [list(h_) for h_ in hist]})
    col.sample({"reuse": item["op"], "alphabet(seed,input)": REUSE_ALPHABET, "history_depth": depth})


# ------------------------------------------------------------------ other interpreter processes
CROSS_OPS = ["gen:pairwise(1,0)", "gen:pairwise(1,2)", "gen:pairwise(2,0)", "gen:permutation", "gen:segregate(2)", "smooth:fixed(1)",
             "smooth:optimal", "smooth:ensemble(2,1,1)", "sparse_cover", "holdout:plate", "holdout:random", "select:k-per-sample"]


def child_main():
    """Run in a fresh interpreter (other PYTHONHASHSEED): print {op|variant|seed: digest}."""
    import json as _json

    ops = operations("quick")
    tmp = env.scratch_dir("c18x")
    out = {}
    try:
        for name in CROSS_OPS:
            for variant in (0, 3):
                for seed in (0, 12):
                    try:
                        out[f"{name}|{variant}|{seed}"] = digest(ops[name](seed, variant, tmp))
                    except Exception as exc:  # noqa: BLE001
                        out[f"{name}|{variant}|{seed}"] = "raised:" + type(exc).__name__
    finally:
        shutil.rmtree(tmp, ignore_errors=True)
    print("C18CHILD" + _json.dumps(out, sort_keys=True))


def run_cross_process(item, col, tier):
    """Identical inputs and identically seeded generators in separate interpreter processes whose string hashing
    differs (PYTHONHASHSEED): the iteration order of a set / dict of strings must not reach the output."""
    import json as _json
    import subprocess

    results = {}
    for hs in item["hashseeds"]:
        e = dict(os.environ, PYTHONHASHSEED=str(hs), PYTHONDONTWRITEBYTECODE="1")
        r = subprocess.run([sys.executable, "-c", "import sys; sys.path.insert(0, %r); from mc.props import c18; c18.child_main()" % env.VERIF],
                           env=e, capture_output=True, text=True, timeout=1200)
        line = next((ln for ln in r.stdout.splitlines() if ln.startswith("C18CHILD")), None)
        if line is None:
            raise RuntimeError(f"child interpreter failed: {r.stderr[-400:]}")
        results[hs] = _json.loads(line[len("C18CHILD"):])
        col.evaluations += len(results[hs])
        col.transitions += len(results[hs])
    ref_hs = item["hashseeds"][0]
    for key, d0 in results[ref_hs].items():
        col.states += 1
        col.outcome("cross", key, d0)
        for hs in item["hashseeds"][1:]:
            if results[hs].get(key) != d0:
                name, variant, seed = key.split("|")
                col.violation(f"C18|differs-across-processes|{name}",
                              f"{name} (input {variant}, seed {seed}) gives different output in two interpreter processes that differ only in "
                              f"PYTHONHASHSEED ({ref_hs} vs {hs})", {"cross": True, "hashseeds": [ref_hs, hs]})
        col.nontriv("cross", key)
    col.sample({"cross_process": {"hashseeds": item["hashseeds"], "operations": CROSS_OPS, "inputs": [0, 3], "seeds": [0, 12]}})


# operations whose output legitimately does not depend on the seed (no randomness consumed)
def plan(tier, seed):
    b = BOUNDS[tier]
    items = []
    for name in operations(tier):
        for variant in range(b["inputs_per_operation"]):
            items.append({"op": name, "variant": variant})
    for name in operations(tier):
        if name.startswith(("holdout:", "gen:", "smooth:", "cli:prepare_retrospective_simulation")) and "zero-plates" not in name and "again" not in name:
            items.append({"op": name, "variant": 5})
    items.append({"op": "mvn:precision", "variant": 2})
    for name in reuse_operations():
        items.append({"op": name, "reuse": True})
    items.append({"op": "cross-process", "cross": True, "hashseeds": [1, 3, 5] if tier == "quick" else [1, 2, 3, 4, 5, 6]})
    return items


def one_run(fn, seed, variant, gseed, k, tmp, debug=False, clone=False):
    """Returns (output, hits, state_changed, exception)."""
    if debug:
        with package_logger_at_debug():
            return one_run(fn, seed, variant, gseed, k, tmp, clone=clone)
    np.random.seed(gseed)
    pyrandom.seed(gseed)
    for _ in range(k):
        np.random.random()
        pyrandom.random()
    st_np = np.random.get_state()
    st_py = pyrandom.getstate()
    exc = None
    out = None
    with Tripwire(clone=clone) as tw:
        try:
            out = fn(seed, variant, tmp)
        except Exception as e:  # noqa: BLE001
            exc = e
    after = np.random.get_state()
    changed = not (st_np[0] == after[0] and np.array_equal(st_np[1], after[1]) and st_np[2:] == after[2:]) or pyrandom.getstate() != st_py
    return out, tw.hits, changed, exc


def run_item(item, col, tier):
    if item.get("cross"):
        run_cross_process(item, col, tier)
        return
    if item.get("reuse"):
        run_reuse(item, col, tier)
        return
    b = BOUNDS[tier]
    fn = operations(tier)[item["op"]]
    tmp = env.scratch_dir("c18")
    try:
        per_seed = {}
        for seed in b["seeds"]:
            outs = []
            refused = False
            # the last run repeats the first schedule with the package logger at DEBUG (what --verbose sets): logging
            # configuration is not an input of the operation
            # ... and once more with generators that are in the seeded state without having been built from the seed ("cloned")
            for gseed, k, dbg in [(g_, k_, False) for g_, k_ in b["schedules"]] + [(b["schedules"][0][0], b["schedules"][0][1], True), (b["schedules"][0][0], b["schedules"][0][1], "cloned")]:
                cloned = dbg == "cloned"
                dbg = dbg is True
                out, hits, changed, exc = one_run(fn, seed, item["variant"], gseed, k, tmp, debug=dbg, clone=cloned)
                col.evaluations += 1
                col.transitions += 1
                case = {"op": item["op"], "variant": item["variant"], "seed": seed, "schedule": [gseed, k], "debug_logging": dbg, "cloned_generators": cloned}
                for site, label in sorted(set(hits)):
                    col.violation(f"C18|callsite|{site}|{label}",
                                  f"{item['op']}: batchie code at {site} calls the process-global {label}", case)
                if changed:
                    col.violation(f"C18|global-state|{item['op']}", f"{item['op']} (seed {seed}) perturbed the process-global random state", case)
                if exc is not None:
                    from ..core import exception_origin_in_repo
                    if not exception_origin_in_repo(exc):
                        raise exc
                    refused = True
                    col.refused += 1
                    col.outcome("refused", item["op"], type(exc).__name__)
                    continue
                outs.append(((gseed, k) if not (dbg or cloned) else (gseed, k, "logger at DEBUG" if dbg else "generators in the seeded state, not built from the seed"), digest(out)))
            if refused or not outs:
                continue
            if item["op"].startswith("cli:"):
                # the runs above share one working directory, so from the second seed on the output paths already hold the
                # files of an earlier run; the same call into an EMPTY directory must give the same output
                fresh = env.scratch_dir("c18f")
                try:
                    out, hits, changed, exc = one_run(fn, seed, item["variant"], b["schedules"][0][0], b["schedules"][0][1], fresh)
                finally:
                    shutil.rmtree(fresh, ignore_errors=True)
                col.evaluations += 1
                col.transitions += 1
                if exc is None:
                    outs.append((("fresh output directory",), digest(out)))
            ref = outs[0][1]
            for sched, d in outs[1:]:
                if d != ref:
                    col.violation(
                        f"C18|differs|{item['op']}",
                        f"{item['op']} (input {item['variant']}, seed {seed}) gives different output under global schedule {sched} than under {outs[0][0]}"
                        if sched != ("fresh output directory",) else
                        f"{item['op']} (input {item['variant']}, seed {seed}) gives different output in an empty directory than in one that holds the output files of an earlier run with another seed",
                        {"op": item["op"], "variant": item["variant"], "seed": seed, "schedule": list(sched), "against": list(outs[0][0])} if sched != ("fresh output directory",)
                        else {"__item__": item},
                    )
            per_seed[seed] = ref
            col.states += 1
            col.outcome(item["op"], item["variant"], seed, ref)
        if len(set(per_seed.values())) > 1:
            for seed, d in per_seed.items():
                col.nontriv(item["op"], item["variant"], seed, d)
            col.count("ops_consuming_randomness")
        else:
            col.count("ops_seed_independent")
        col.sample({"op": item["op"], "input": item["variant"], "seeds": b["seeds"], "schedules": b["schedules"],
                    "distinct_outputs_over_seeds": len(set(per_seed.values()))})
    finally:
        shutil.rmtree(tmp, ignore_errors=True)


def replay(case, col):
    if case.get("cross"):
        run_cross_process({"hashseeds": case["hashseeds"]}, col, "quick")
        return
    if "reuse" in case:
        make, call = reuse_operations()[case["reuse"]]
        hist = [tuple(h_) for h_ in case["history"]]
        obj = make()
        out = None
        for seed, variant in hist:
            out = digest(call(obj, seed, variant))
        ref = digest(call(make(), hist[-1][0], hist[-1][1]))
        col.evaluations += 1
        if out != ref:
            col.violation(f"C18|history-dependent|{case['reuse']}", f"after {hist[:-1]} the call {hist[-1]} differs from a fresh object's", case)
        return
    fn = operations("thorough")[case["op"]]
    tmp = env.scratch_dir("c18r")
    try:
        g, k = case["schedule"][0], case["schedule"][1]
        third = case["schedule"][2] if len(case["schedule"]) > 2 else ""
        cloned = bool(case.get("cloned_generators")) or "not built from the seed" in str(third)
        dbg = (len(case["schedule"]) > 2 and not cloned) or bool(case.get("debug_logging"))
        out, hits, changed, exc = one_run(fn, case["seed"], case["variant"], g, k, tmp, debug=dbg, clone=cloned)
        col.evaluations += 1
        if exc is not None:
            print("operation raised:", short_exc(exc))
        for site, label in sorted(set(hits)):
            col.violation(f"C18|callsite|{site}|{label}", f"batchie code at {site} calls the process-global {label}", case)
        if changed:
            col.violation(f"C18|global-state|{case['op']}", "process-global random state perturbed", case)
        if "against" in case:
            g2, k2 = case["against"]
            out2, _, _, _ = one_run(fn, case["seed"], case["variant"], g2, k2, tmp)
            if digest(out) != digest(out2):
                col.violation(f"C18|differs|{case['op']}", f"outputs differ between global schedules {case['schedule']} and {case['against']}", case)
    finally:
        shutil.rmtree(tmp, ignore_errors=True)
