"""Shared enumeration for C11 (conservation / hold-out partition) and C13 (shape
guarantees): every shipped generator, smoother, hold-out and the sparse cover, on every
small plate layout, over the FULL answer tree of the scripted random source."""
import itertools
import os
import math
from collections import Counter
from fractions import Fraction

import numpy as np

from .. import env

env.setup()

from ..core import short_exc  # noqa: E402
from ..explore import Chooser, ScriptedGenerator, explore  # noqa: E402
from ..screens import make_screen, rows_of, describe  # noqa: E402

from batchie import retrospective as R  # noqa: E402
from batchie.data import filter_dataset_to_treatments_that_appear_in_at_least_one_combo  # noqa: E402

CTL = ""
POOL = [
    (("a", 1.0), ("b", 1.0)),
    (("a", 1.0), ("c", 1.0)),
    (("b", 1.0), ("c", 1.0)),
    (("a", 1.0), (CTL, 0.0)),
    (("a", 1.0), ("b", 1.0)),  # duplicate condition, different observation
    (("b", 2.0), ("a", 1.0)),
    (("d", 1.0), (CTL, 0.0)),  # single agent that never occurs in a combination
    ((CTL, 0.0), ("b", 1.0)),  # control in the first column
    ((CTL, 0.0), (CTL, 0.0)),  # vehicle-only well
    (("a", 0.0), ("c", 0.0)),  # controls written as real drug names at dose 0
    (("d", 1.0), ("b", 0.0)),  # single agent whose control slot is a real drug name at dose 0
]
POOL_COMBO_ONLY = [p for p in POOL if all(t[0] != CTL for t in p)]
# three treatment columns (the same triples are measured on several samples because build_rows cycles through the pool)
POOL_TRIPLE = [
    (("a", 1.0), ("b", 1.0), ("c", 1.0)),
    (("a", 1.0), ("b", 1.0), ("d", 1.0)),
    (("b", 1.0), ("c", 1.0), ("d", 1.0)),
    (("a", 1.0), ("c", 1.0), (CTL, 0.0)),
    (("a", 1.0), ("b", 1.0), ("c", 1.0)),  # duplicate condition
    (("c", 2.0), ("a", 1.0), ("b", 1.0)),
]

LEAF_CAP = 20000


# ------------------------------------------------------------------ layouts
def _size_tuples(max_plates, max_size, max_total):
    out = []
    for k in range(1, max_plates + 1):
        for t in itertools.combinations_with_replacement(range(1, max_size + 1), k):
            if sum(t) <= max_total:
                out.append(t)
    return out


def layouts(max_samples, max_plates, max_size, max_total):
    """All assignments of a multiset of plate sizes to each of 1..max_samples samples,
    total unobserved rows <= max_total.  Sample order matters (ids follow names)."""
    per = _size_tuples(max_plates, max_size, max_total)
    out = []
    for s in range(1, max_samples + 1):
        for combo in itertools.product(per, repeat=s):
            if sum(sum(t) for t in combo) <= max_total:
                out.append([list(t) for t in combo])
    return out


LOOKALIKE = ["P1", "P1 ", " P1", "p1", "P1\t", "P1  "]  # plate labels equal up to blanks / case are different plates


LONG_OBS = ["PILOT_2021_03_15_RUN_A01", "PILOT_2021_03_15_RUN_A02"]  # observed plates with bar-code style labels (longer than any generated label)


def build_rows(layout, n_obs, pool="mixed", all_observed=False, mix=None, lookalike=False, order=None, longobs=False):
    """layout: list (per sample) of unobserved plate sizes; n_obs rows go to an
    observed plate 'obs' (cycling over the samples)."""
    P = POOL_COMBO_ONLY if pool == "combo" else (POOL[6:] + POOL[:6] if pool == "mixed5" else (POOL_TRIPLE if pool == "triple" else POOL))
    rows = []
    g = 0
    pid = 0
    for s, sizes in enumerate(layout):
        j = 0
        for size in sizes:
            for _ in range(size):
                tr = P[(j + 2 * s) % len(P)] if pool != "triple" else P[j % len(P)]  # triple: every sample gets the same triples
                rows.append((f"s{s}", LOOKALIKE[pid % len(LOOKALIKE)] if lookalike else f"p{pid}", tr, round(0.05 + 0.1 * g, 4), all_observed))
                g += 1
                j += 1
            pid += 1
    for k in range(n_obs):
        s = k % len(layout)
        tr = P[(k + 1) % len(P)]
        rows.append((f"s{s}", "  P1" if lookalike else (LONG_OBS[k % 2] if longobs else "obs"), tr, round(0.05 + 0.1 * g, 4), True))
        g += 1
    if mix:
        # one more unobserved plate whose wells belong to several samples, in the given order (e.g. s0, s1, s0)
        for k, s in enumerate(mix):
            rows.append((f"s{s}", "pmix", P[(k + 3) % len(P)], round(0.05 + 0.1 * g, 4), all_observed))
            g += 1
    if order == "reversed":
        rows = rows[::-1]
    elif order == "roundrobin":
        # rows of the samples (and thereby of the plates) interleaved: s0, s1, s2, s0, s1, ...
        per = {}
        for r in rows:
            per.setdefault(r[0], []).append(r)
        rows = [rs[k] for k in range(max(len(v) for v in per.values())) for rs in per.values() if k < len(rs)]
    return rows


# ------------------------------------------------------------------ operations
def _gen_ops():
    ops = []
    for anchor in (0, 1, 2):
        for subset in (1, 2):
            ops.append(("pairwise", {"subset_size": subset, "anchor_size": anchor}))
    ops.append(("permutation", {"force": None}))
    ops.append(("permutation", {"force": ["p0"]}))
    ops.append(("permutation", {"force": ["p1", "p0", "p1"]}))  # a name listed twice, an order that is not sorted
    for m in (1, 2, 3):
        ops.append(("segregate", {"max_plate_size": m}))
    return ops


def _smooth_ops(tier):
    ops = []
    for m in (1, 2, 3, 4):
        ops.append(("merge_min", {"min_size": m}))
    for it in (0, 1, 2):
        ops.append(("merge_top_bottom", {"n_iterations": it}))
    for k in (1, 2, 3):
        ops.append(("fixed", {"plate_size": k}))
    ops.append(("optimal", {}))
    for n in (1, 2, 3):
        ops.append(("n_per_sample", {"min_n_cell_line_plates": n}))
    grid = [(2, 1, 1), (3, 1, 2), (1, 0, 1)] if tier == "quick" else list(
        itertools.product((1, 2, 3), (0, 1), (1, 2))
    )
    for ms, it, n in grid:
        ops.append(("ensemble", {"min_size": ms, "n_iterations": it, "min_n_cell_line_plates": n}))
    return ops


FRACTIONS = [0.0, 0.25, 0.5, 0.75, 1.0, 0.1, 1.0 / 3.0]


def make_op(kind, params):
    if kind == "pairwise":
        return R.PairwisePlateGenerator(**params)
    if kind == "permutation":
        return R.PlatePermutationPlateGenerator(force_include_plate_names=params["force"])
    if kind == "segregate":
        return R.SampleSegregatingPermutationPlateGenerator(**params)
    if kind == "merge_min":
        return R.MergeMinPlateSmoother(**params)
    if kind == "merge_top_bottom":
        return R.MergeTopBottomPlateSmoother(**params)
    if kind == "fixed":
        return R.FixedSizeSmoother(**params)
    if kind == "optimal":
        return R.OptimalSizeSmoother()
    if kind == "n_per_sample":
        return R.NPlatePerCellLineSmoother(**params)
    if kind == "ensemble":
        return R.BatchieEnsemblePlateSmoother(**params)
    raise KeyError(kind)


GENERATORS = {"pairwise", "permutation", "segregate"}
SMOOTHERS = {"merge_min", "merge_top_bottom", "fixed", "optimal", "n_per_sample", "ensemble"}


def plan(tier, prop):
    items = []
    if tier == "quick":
        lay_sm = layouts(3, 3, 3, 5)
        lay_gen = layouts(3, 2, 3, 5)
        perm_rows = 4
    else:
        lay_sm = layouts(3, 3, 3, 6)
        lay_gen = layouts(3, 2, 4, 6)
        perm_rows = 5
    # smoothers on every layout, with and without an observed plate
    for li, lay in enumerate(lay_sm):
        for n_obs in (0, 2) if tier == "thorough" else ((0,) if li % 2 else (2,)):
            for kind, params in _smooth_ops(tier):
                items.append({"op": kind, "params": params, "layout": lay, "n_obs": n_obs, "pool": "mixed"})
    # generators
    for li, lay in enumerate(lay_gen):
        total = sum(sum(t) for t in lay)
        for n_obs in (0, 1):
            for kind, params in _gen_ops():
                if kind == "permutation" and total > perm_rows:
                    continue
                if kind == "pairwise" and total > 4 and tier == "quick":
                    continue
                pools = ("mixed", "mixed5", "combo") if kind == "pairwise" else (("mixed", "mixed5") if kind == "segregate" else ("mixed",))
                if kind in ("pairwise", "segregate") and total <= 4 and n_obs == 0:
                    pools = pools + ("triple",)  # three treatment columns
                for pool in pools:
                    items.append({"op": kind, "params": params, "layout": lay, "n_obs": n_obs, "pool": pool})
    # hold-outs
    for li, lay in enumerate(lay_gen):
        for n_obs in (0, 2):
            for f in FRACTIONS:
                for kind in ("holdout_plate", "holdout_random"):
                    if kind == "holdout_random" and sum(sum(t) for t in lay) + n_obs > (4 if tier == "quick" else 6):
                        continue
                    items.append({"op": kind, "params": {"fraction": f}, "layout": lay, "n_obs": n_obs, "pool": "mixed"})
    # plate labels that differ only by blanks / case (each is a plate of its own): hold-outs and the generators that keep labels
    for lay in lay_gen:
        if 2 <= sum(len(t) for t in lay) <= 5 and sum(sum(t) for t in lay) <= 4:
            for f in (0.5, 1.0):
                items.append({"op": "holdout_plate", "params": {"fraction": f}, "layout": lay, "n_obs": 2, "pool": "mixed", "lookalike": True})
            items.append({"op": "permutation", "params": {"force": None}, "layout": lay, "n_obs": 0, "pool": "mixed", "lookalike": True})
            items.append({"op": "merge_min", "params": {"min_size": 2}, "layout": lay, "n_obs": 0, "pool": "mixed", "lookalike": True})
    # row order: the same screens with their rows interleaved across samples / reversed (not grouped by sample or plate)
    for lay in lay_gen:
        total = sum(sum(t) for t in lay)
        if len(lay) >= 2 and 3 <= total <= (4 if tier == "quick" else 5):
            for order in ("roundrobin", "reversed"):
                for kind, params in (("segregate", {"max_plate_size": 1}), ("segregate", {"max_plate_size": 2}), ("pairwise", {"subset_size": 1, "anchor_size": 0}),
                                     ("permutation", {"force": None}), ("merge_min", {"min_size": 2}), ("fixed", {"plate_size": 2}), ("fixed", {"plate_size": 1}),
                                     ("n_per_sample", {"min_n_cell_line_plates": 2}), ("optimal", {}), ("ensemble", {"min_size": 2, "n_iterations": 1, "min_n_cell_line_plates": 1})):
                    if kind == "permutation" and total > perm_rows:
                        continue
                    items.append({"op": kind, "params": params, "layout": lay, "n_obs": 1 if order == "reversed" else 0, "pool": "mixed", "order": order})
    # observed plates with long labels (two of them sharing a 22-character prefix) next to generated / merged labels
    for lay in lay_gen:
        total = sum(sum(t) for t in lay)
        if 2 <= total <= 4 and len(lay) <= 2:
            for kind, params in (("segregate", {"max_plate_size": 2}), ("pairwise", {"subset_size": 1, "anchor_size": 0}), ("permutation", {"force": None}),
                                 ("merge_min", {"min_size": 2}), ("fixed", {"plate_size": 1}), ("ensemble", {"min_size": 2, "n_iterations": 1, "min_n_cell_line_plates": 1})):
                if kind == "permutation" and total + 2 > perm_rows:
                    continue
                items.append({"op": kind, "params": params, "layout": lay, "n_obs": 2, "pool": "mixed", "longobs": True, "bound": 1})
            items.append({"op": "holdout_plate", "params": {"fraction": 0.5}, "layout": lay, "n_obs": 2, "pool": "mixed", "longobs": True})
    # histories: results recorded in place before the operation; a generator run again after one of its plates was revealed
    for lay in lay_gen:
        total = sum(sum(t) for t in lay)
        if total <= 4 and sum(len(t) for t in lay) >= 2:
            for kind, params in (("segregate", {"max_plate_size": 2}), ("pairwise", {"subset_size": 1, "anchor_size": 0}), ("permutation", {"force": None}),
                                 ("merge_min", {"min_size": 2}), ("fixed", {"plate_size": 1}), ("n_per_sample", {"min_n_cell_line_plates": 1}),
                                 ("merge_top_bottom", {"n_iterations": 1})):
                items.append({"op": kind, "params": params, "layout": lay, "n_obs": 0, "pool": "mixed", "inplace_reveal": True, "bound": 1})
            items.append({"op": "holdout_plate", "params": {"fraction": 0.5}, "layout": lay, "n_obs": 0, "pool": "mixed", "inplace_reveal": True, "bound": 1})
            for kind, params in (("segregate", {"max_plate_size": 1}), ("segregate", {"max_plate_size": 2}), ("pairwise", {"subset_size": 1, "anchor_size": 0})):
                for pool in ("mixed", "triple"):
                    items.append({"op": kind, "params": params, "layout": lay, "n_obs": 0, "pool": pool, "regen": True, "bound": 1})
    # screens whose observation mask is an integer array
    for lay in lay_gen:
        if sum(sum(t) for t in lay) <= 3:
            for dt in ("int64", "uint8"):
                for kind, params in (("segregate", {"max_plate_size": 2}), ("pairwise", {"subset_size": 1, "anchor_size": 0}), ("merge_min", {"min_size": 2}),
                                     ("merge_top_bottom", {"n_iterations": 1}), ("fixed", {"plate_size": 1}), ("n_per_sample", {"min_n_cell_line_plates": 1})):
                    items.append({"op": kind, "params": params, "layout": lay, "n_obs": 2, "pool": "mixed", "mask_dtype": dt})
                items.append({"op": "holdout_plate", "params": {"fraction": 0.5}, "layout": lay, "n_obs": 2, "pool": "mixed", "mask_dtype": dt})
    # the hold-out through the command line (fraction parsing / defaults are part of what the user gets)
    if prop == "C11":
        for lay in lay_gen:
            if 2 <= sum(sum(t) for t in lay) <= 4 and sum(len(t) for t in lay) >= 2:
                for f in FRACTIONS:
                    items.append({"op": "cli_holdout", "params": {"fraction": f}, "layout": lay, "n_obs": 0, "pool": "combo", "bound": 2})
                for stale in ("test", "train"):
                    items.append({"op": "cli_holdout", "params": {"fraction": 0.5, "stale": stale}, "layout": lay, "n_obs": 0, "pool": "combo", "bound": 1})
    if prop == "C11":
        # count sweep: one unobserved plate of every size 1..20 (a second one of size 21-n for n <= 10) x every fraction k/20,
        # default random answers (the count does not depend on the draw)
        for n in range(1, 21):
            for k in range(0, 21):
                lay = [[n]] if n > 10 or (n + k) % 2 else [[n], [21 - n]]
                items.append({"op": "holdout_plate", "params": {"fraction": k / 20}, "layout": lay, "n_obs": 2 * (k % 2), "pool": "mixed", "bound": 0})
    # operation objects that were already used once (state kept on the object between calls)
    reuse = []
    for it in items:
        if (it["op"] in SMOOTHERS or it["op"] in GENERATORS) and it["n_obs"] == 0 and it["pool"] == "mixed" \
                and sum(sum(t) for t in it["layout"]) <= (4 if tier == "quick" else 5):
            reuse.append(dict(it, reuse=True))
    items += reuse
    # sparse probes with MANY plates (running plate numbers with two digits, more plates than any enumerated layout);
    # default random answers plus every single deviation from them
    wide = [[[8], [8], [8]], [[1] * 12], [[2, 2, 2, 2], [1, 1, 1, 1, 1, 1, 1]], [[4], [4], [4]]]
    for lay in wide:
        for kind, params in (("segregate", {"max_plate_size": 1}), ("segregate", {"max_plate_size": 2}), ("permutation", {"force": None}),
                             ("pairwise", {"subset_size": 1, "anchor_size": 0}), ("pairwise", {"subset_size": 2, "anchor_size": 1}),
                             ("fixed", {"plate_size": 1}), ("fixed", {"plate_size": 2}), ("merge_min", {"min_size": 2}),
                             ("merge_top_bottom", {"n_iterations": 1}), ("n_per_sample", {"min_n_cell_line_plates": 2}), ("optimal", {})):
            items.append({"op": kind, "params": params, "layout": lay, "n_obs": 0, "pool": "mixed", "bound": 0 if tier == "quick" else 1})
    if prop == "C13":
        # merge smoothers on screens that contain a multi-sample unobserved plate (every arrangement of 2-3 wells over two samples)
        for lay in ([[1, 1], [1]], [[2, 1], [1, 1]], [[1, 1, 1]]):
            for mix in ([0, 1], [1, 0], [0, 1, 0], [1, 0, 1], [0, 0, 1], [0, 1, 1]):
                if max(mix) >= len(lay):
                    continue
                for kind, params in (("merge_min", {"min_size": 2}), ("merge_min", {"min_size": 4}), ("merge_top_bottom", {"n_iterations": 1}),
                                     ("merge_top_bottom", {"n_iterations": 2})):
                    items.append({"op": kind, "params": params, "layout": lay, "n_obs": 0, "pool": "mixed", "mix": mix})
    if prop == "C13":
        items = [it for it in items if not it["op"].startswith("holdout") and it["op"] not in ("permutation", "ensemble")]
        for lay in lay_gen:
            for flag in (False, True):
                items.append({"op": "sparse_cover", "params": {"reveal_single_treatment_experiments": flag},
                              "layout": lay, "n_obs": 0, "pool": "mixed"})
            for pool in ("mixed", "mixed5"):
                for n_obs in (0, 2):
                    items.append({"op": "combo_filter", "params": {}, "layout": lay, "n_obs": n_obs, "pool": pool})
    return items


# ------------------------------------------------------------------ execution
def execute(item, chooser):
    """Run one operation on one input with one answer sequence.
    Returns (input_screen, outputs or None, exception or None)."""
    kind = item["op"]
    rows = build_rows(item["layout"], item["n_obs"], item["pool"], all_observed=(kind == "sparse_cover"), mix=item.get("mix"), lookalike=bool(item.get("lookalike")), order=item.get("order"), longobs=bool(item.get("longobs")))
    kw = {}
    if item.get("mask_dtype"):
        # the observation mask given as 0/1 integers (a pandas column, an HDF5 uint8 dataset) instead of booleans
        kw["observation_mask"] = np.array([1 if r[4] else 0 for r in rows], dtype=item["mask_dtype"])
    screen = make_screen(rows, control=CTL, **kw)
    if item.get("inplace_reveal"):
        # results of the first unobserved plate were recorded IN PLACE on this screen object (Screen.set_observed), after its
        # observed / unobserved views had been looked at once
        screen.subset_unobserved()
        screen.subset_observed()
        un = [p for p in screen.plates if not p.is_observed]
        if un:
            sel = np.asarray(un[0].selection_vector, dtype=bool).copy()
            screen.set_observed(sel, np.asarray(screen.observations, dtype=float)[sel].copy())
    before = rows_of(screen)
    rng = ScriptedGenerator(chooser)
    if item.get("regen"):
        # generate -> reveal the first generated plate -> generate again for the rest: the second call is the one judged
        try:
            first = make_op(kind, item["params"]).generate_plates(screen, ScriptedGenerator(Chooser()))
            un = sorted(int(p.plate_id) for p in first.plates if not p.is_observed)
            screen = R.reveal_plates(first, [un[0]])
        except Exception as exc:  # noqa: BLE001
            return before, None, exc
        before = rows_of(screen)
    try:
        op = make_op(kind, item["params"]) if kind in GENERATORS or kind in SMOOTHERS else None
        if op is not None and item.get("reuse"):
            # the operation object has been used before (same input, default random answers): a second call must
            # give what the statement promises just the same
            warm = make_screen(rows, control=CTL)
            try:
                (op.generate_plates if kind in GENERATORS else op.smooth_plates)(warm, ScriptedGenerator(Chooser()))
            except Exception:  # noqa: BLE001
                pass
        if kind in GENERATORS:
            out = op.generate_plates(screen, rng)
        elif kind in SMOOTHERS:
            out = op.smooth_plates(screen, rng)
        elif kind == "holdout_plate":
            out = R.create_plate_balanced_holdout_set_among_masked_plates(screen, item["params"]["fraction"], rng)
        elif kind == "holdout_random":
            out = R.create_random_holdout(screen, item["params"]["fraction"], rng)
        elif kind == "sparse_cover":
            out = R.SparseCoverPlateGenerator(**item["params"]).generate_and_unmask_initial_plate(screen, rng)
        elif kind == "combo_filter":
            out = filter_dataset_to_treatments_that_appear_in_at_least_one_combo(screen)
        elif kind == "cli_holdout":
            out = _cli_holdout(screen, item["params"]["fraction"], rng, stale=item["params"].get("stale"))
        else:
            raise KeyError(kind)
    except Exception as exc:  # noqa: BLE001  (refusal: "whenever it returns")
        return before, None, exc
    return before, out, None


def _cli_holdout(screen, fraction, rng, stale=None):
    """The hold-out as a user reaches it: prepare_retrospective_simulation --holdout-fraction f (no generator, no smoother:
    mask everything, reveal one plate, split), every random answer scripted."""
    import shutil
    import batchie.cli.prepare_retrospective_simulation as prep
    from batchie.data import Screen
    from ..cli import run_cli
    from .. import env

    tmp = env.scratch_dir("c11cli")
    saved = prep.get_prng_from_seed_argument
    prep.get_prng_from_seed_argument = lambda args: rng
    try:
        a, tr, te = (os.path.join(tmp, x) for x in ("in.h5", "train.h5", "test.h5"))
        screen.save_h5(a)
        if stale is not None:
            # one of the two output paths already holds a file of an EARLIER preparation (other fraction, default answers)
            prep.get_prng_from_seed_argument = lambda args: ScriptedGenerator(Chooser())
            o_tr, o_te = os.path.join(tmp, "old_train.h5"), os.path.join(tmp, "old_test.h5")
            run_cli("prepare_retrospective_simulation", ["--data", a, "--training-output", o_tr, "--test-output", o_te, "--holdout-fraction", repr(1.0 - float(fraction) if fraction not in (0.5,) else 1.0), "--seed", 1])
            os.replace(o_te if stale == "test" else o_tr, te if stale == "test" else tr)
            prep.get_prng_from_seed_argument = lambda args: rng
        run_cli("prepare_retrospective_simulation", ["--data", a, "--training-output", tr, "--test-output", te, "--holdout-fraction", repr(float(fraction)), "--seed", 0])
        return Screen.load_h5(tr), Screen.load_h5(te)
    finally:
        prep.get_prng_from_seed_argument = saved
        shutil.rmtree(tmp, ignore_errors=True)


def _keyed(rows):
    """rows (sample, names, doses, obs, plate, mask) -> Counter of the conserved part."""
    return Counter((r[0], r[1], r[2], r[3]) for r in rows)


def ceil_options(f, size):
    """ceil(f*size) evaluated in floats and exactly (non-dyadic fractions: both accepted)."""
    opts = {math.ceil(size * f)}
    fr = Fraction(f).limit_denominator(1000)
    opts.add(math.ceil(fr * size))
    return opts


# ------------------------------------------------------------------ C11 oracle
def oracle_c11(item, before, out):
    """Returns list of (sig, message)."""
    kind = item["op"]
    bad = []
    if kind == "cli_holdout":
        train, test = out
        tr, te = rows_of(train), rows_of(test)
        f = item["params"]["fraction"]

        def k5(rows):
            return Counter((r[0], r[1], r[2], r[3], r[4]) for r in rows)
        if k5(tr) + k5(te) != k5(before):
            bad.append((f"C11|{kind}|partition", "training + test file is not the input multiset (plate labels included)"))
        if not all(r[5] for r in te):
            bad.append((f"C11|{kind}|test-mask", "the test file contains an unobserved experiment"))
        sizes = Counter(r[4] for r in before)
        taken = Counter(r[4] for r in te)
        revealed = {r[4] for r in tr if r[5]}
        for p_, size in sizes.items():
            want = {0} if p_ in revealed else ceil_options(f, size)
            if taken.get(p_, 0) not in want:
                bad.append((f"C11|{kind}|count", f"--holdout-fraction {f}: plate {p_} ({'revealed' if p_ in revealed else 'unobserved'}, size {size}) gave "
                                                 f"{taken.get(p_, 0)} rows to the test file, expected {sorted(want)}"))
        return bad
    if kind.startswith("holdout"):
        train, test = out
        tr, te = rows_of(train), rows_of(test)
        f = item["params"]["fraction"]
        # partition, plate labels included (mask excluded: the hold-out is re-marked observed)
        def k5(rows):
            return Counter((r[0], r[1], r[2], r[3], r[4]) for r in rows)
        if k5(tr) + k5(te) != k5(before):
            bad.append((f"C11|{kind}|partition", "training + hold-out is not the input multiset (plate labels included)"))
        if not all(r[5] for r in te):
            bad.append((f"C11|{kind}|test-mask", "hold-out contains an unobserved experiment"))
        # training = input rows not in test, in order, same mask
        exp_train = []
        budget = Counter(k5(te))
        # remove test rows from `before` (any occurrence - duplicates have distinct obs)
        for r in before:
            key = (r[0], r[1], r[2], r[3], r[4])
            if budget[key] > 0:
                budget[key] -= 1
            else:
                exp_train.append(r)
        if exp_train != tr:
            bad.append((f"C11|{kind}|train-rows", "training screen is not the remaining input rows in order with their mask"))
        if kind == "holdout_plate":
            in_plates = {}
            for r in before:
                in_plates.setdefault(r[4], []).append(r)
            taken = Counter(r[4] for r in te)
            for p, rs in in_plates.items():
                observed = all(x[5] for x in rs)
                want = {0} if observed else ceil_options(f, len(rs))
                if taken.get(p, 0) not in want:
                    bad.append((f"C11|{kind}|count", f"plate {p} (observed={observed}, size {len(rs)}) gave {taken.get(p, 0)} rows to the hold-out, expected {sorted(want)} at fraction {f}"))
        else:
            if len(te) not in ceil_options(f, len(before)):
                bad.append((f"C11|{kind}|count", f"random hold-out took {len(te)} of {len(before)} rows at fraction {f}"))
        return bad

    after = rows_of(out)
    kin, kout = _keyed(before), _keyed(after)
    if kind in GENERATORS:
        if kin != kout:
            bad.append((f"C11|{kind}|conserve", f"generator output is not the input multiset of experiments: lost {sum((kin - kout).values())}, invented {sum((kout - kin).values())}"))
    else:
        if kout - kin:
            bad.append((f"C11|{kind}|subcollection", f"smoother output contains {sum((kout - kin).values())} experiment(s) that are not input experiments (altered or duplicated)"))
    # observed part passes through unchanged (plate label and mask included)
    obs_in = Counter(r for r in before if r[5])
    obs_out = Counter(r for r in after if r[5])
    if obs_in != obs_out:
        bad.append((f"C11|{kind}|observed-part", "the observed part of the screen did not pass through unchanged and observed"))
    return bad


# ------------------------------------------------------------------ C13 oracle
def _unobs_plates(rows):
    plates = {}
    for r in rows:
        if not r[5]:
            plates.setdefault(r[4], []).append(r)
    return plates


def oracle_c13(item, before, out):
    kind = item["op"]
    bad = []
    p = item["params"]
    if kind == "combo_filter":
        # reference: ids == (name, dose) pairs; control iff name == CTL or dose <= 0
        def is_ctl(n, d):
            return n == CTL or float.fromhex(d) <= 0
        combos = set()
        for r in before:
            ts = list(zip(r[1], r[2]))
            if all(not is_ctl(n, d) for n, d in ts):
                combos.update(ts)
        want = [r[:4] for r in before if all(is_ctl(n, d) or (n, d) in combos for n, d in zip(r[1], r[2]))]
        got = [r[:4] for r in rows_of(out)]
        if want != got:
            bad.append(("C13|combo_filter|set", f"combination filter kept {len(got)} rows, reference keeps {len(want)}"))
        return bad
    after = rows_of(out)
    plates = _unobs_plates(after)
    if kind in ("segregate", "pairwise"):
        for name, rs in plates.items():
            samples = {r[0] for r in rs}
            if len(samples) != 1:
                bad.append((f"C13|{kind}|multi-sample-plate", f"unobserved plate {name!r} contains samples {sorted(samples)}"))
            if kind == "segregate" and len(rs) > p["max_plate_size"]:
                bad.append((f"C13|{kind}|oversize", f"plate {name!r} has {len(rs)} > {p['max_plate_size']} experiments"))
    elif kind == "sparse_cover":
        obs = [r for r in after if r[5]]
        def is_ctl(n, d):
            return n == CTL or float.fromhex(d) <= 0
        all_samples = {r[0] for r in before}
        all_treat = {(n, d) for r in before for n, d in zip(r[1], r[2]) if not is_ctl(n, d)}
        cov_s = {r[0] for r in obs}
        cov_t = {(n, d) for r in obs for n, d in zip(r[1], r[2]) if not is_ctl(n, d)}
        if all_samples - cov_s:
            bad.append(("C13|sparse_cover|sample", f"samples without an observed experiment: {sorted(all_samples - cov_s)}"))
        if all_treat - cov_t:
            bad.append(("C13|sparse_cover|treatment", f"treatments without an observed experiment: {sorted(all_treat - cov_t)}"))
        if len(plates) > 1:
            bad.append(("C13|sparse_cover|plates", f"{len(plates)} unobserved plates after the initial cover"))
        if _keyed(before) != _keyed(after):
            bad.append(("C13|sparse_cover|rows", "initial cover changed the set of experiments"))
        if len({r[4] for r in obs}) > 1:
            bad.append(("C13|sparse_cover|initial-plate", "observed experiments are spread over several plates"))
        if p["reveal_single_treatment_experiments"]:
            hidden = [r for r in after if not r[5] and any(is_ctl(n, d) for n, d in zip(r[1], r[2]))]
            if hidden:
                bad.append(("C13|sparse_cover|single", "single-agent experiment left unobserved although reveal was requested"))
    elif kind in ("fixed", "optimal"):
        sizes = sorted(len(rs) for rs in plates.values())
        in_sizes = sorted(len(rs) for rs in _unobs_plates(before).values())
        if len(set(sizes)) > 1:
            bad.append((f"C13|{kind}|common-size", f"unobserved plate sizes after smoothing: {sizes}"))
        if kind == "fixed" and sizes and set(sizes) != {p["plate_size"]}:
            bad.append((f"C13|{kind}|size", f"plates of size {sorted(set(sizes))}, configured {p['plate_size']}"))
        if kind == "optimal":
            best = max((s * sum(1 for x in in_sizes if x >= s) for s in set(in_sizes)), default=0)
            if sum(sizes) != best:
                bad.append((f"C13|{kind}|not-optimal", f"retained {sum(sizes)} experiments, the best common size retains {best} (input sizes {in_sizes})"))
    elif kind == "n_per_sample":
        cnt = Counter()
        for name, rs in plates.items():
            for s in {r[0] for r in rs}:
                cnt[s] += 1
        for s, c in cnt.items():
            if c < p["min_n_cell_line_plates"]:
                bad.append((f"C13|{kind}|too-few", f"sample {s} keeps {c} unobserved plate(s) < {p['min_n_cell_line_plates']}"))
    elif kind in ("merge_min", "merge_top_bottom"):
        in_pl = _unobs_plates(before)
        # identity of a row = its (distinct) observation value
        where = {}
        for name, rs in plates.items():
            for r in rs:
                where[r[3]] = name
        for name, rs in in_pl.items():
            dest = {where.get(r[3]) for r in rs}
            if len(dest) != 1:
                bad.append((f"C13|{kind}|split", f"input plate {name!r} was split or lost: {sorted(map(str, dest))}"))
        origin = {r[3]: name for name, rs in in_pl.items() for r in rs}
        per_sample_out = {}
        for name, rs in plates.items():
            ss = {r[0] for r in rs}
            merged_from = {origin.get(r[3]) for r in rs}
            if len(ss) != 1 and len(merged_from) > 1:
                # (an input plate that already held several samples and was left alone is not a merge)
                bad.append((f"C13|{kind}|cross-sample", f"plate {name!r} is the union of input plates {sorted(map(str, merged_from))} and mixes samples {sorted(ss)}"))
            for s in ss:
                per_sample_out.setdefault(s, []).append(len(rs))
        if item.get("mix"):
            return bad  # input with a multi-sample plate: only the "same sample" clause is judged
        per_sample_in = {}
        for name, rs in in_pl.items():
            per_sample_in.setdefault(rs[0][0], []).append(len(rs))
        for s, ins in per_sample_in.items():
            outs = sorted(per_sample_out.get(s, []))
            if kind == "merge_min":
                ref = sorted(ins)
                while len(ref) > 1 and ref[0] + ref[1] <= p["min_size"]:
                    m = ref[0] + ref[1]
                    ref = sorted(ref[2:] + [m])
                if outs != ref:
                    bad.append((f"C13|{kind}|greedy", f"sample {s}: plate sizes {outs}, min-merge with limit {p['min_size']} from {sorted(ins)} gives {ref}"))
                if len(outs) > 1 and outs[0] + outs[1] <= p["min_size"]:
                    bad.append((f"C13|{kind}|stopped-early", f"sample {s}: two smallest plates {outs[:2]} still fit in {p['min_size']}"))
            else:
                n = len(ins)
                for _ in range(p["n_iterations"]):
                    n = math.ceil(n / 2)
                if len(outs) != n:
                    bad.append((f"C13|{kind}|halving", f"sample {s}: {len(ins)} plates -> {len(outs)} after {p['n_iterations']} iteration(s), expected {n}"))
    return bad


ORACLES = {"C11": oracle_c11, "C13": oracle_c13}


def nontrivial(item, chooser, before, out):
    """An execution is non-trivial when the operation changed the plate structure or
    took at least one non-default answer."""
    return chooser.deviations > 0 or (out is not None and not isinstance(out, tuple) and rows_of(out) != before)


def run_item(prop, item, col):
    oracle = ORACLES[prop]
    info = {}

    def body(ch):
        return execute(item, ch)

    for ch, (before, out, exc) in explore(body, bound=item.get("bound"), max_leaves=(LEAF_CAP, info)):
        col.evaluations += 1
        col.transitions += 1
        col.count("op:" + item["op"] + ("(reused object)" if item.get("reuse") else ""))
        if exc is not None:
            from ..explore import NondeterminismError

            if isinstance(exc, NondeterminismError):
                raise exc
            col.refused += 1
            col.outcome("refused", item["op"], type(exc).__name__)
            continue
        case = {"item": item, "choices": ch.choices}
        if col.evaluations <= 1:
            col.sample({"op": item["op"], "params": item["params"], "input_rows": build_rows(item["layout"], item["n_obs"], item["pool"], mix=item.get("mix"), lookalike=bool(item.get("lookalike")), order=item.get("order"), longobs=bool(item.get("longobs"))),
                        "choices": ch.choices})
        res = oracle(item, before, out)
        outs = out if isinstance(out, tuple) else (out,)
        okey = tuple(tuple(rows_of(o)) for o in outs)
        col.outcome(item["op"], okey)
        col.states += 1
        if nontrivial(item, ch, before, out):
            col.nontriv(item["op"], item["params"], item["layout"], item["n_obs"], bool(item.get("reuse")), okey)
        for sig, msg in res:
            col.violation(sig + ("|reused-object" if item.get("reuse") else ""), f"{item['op']}{item['params']}{' (object used once before)' if item.get('reuse') else ''} on layout {item['layout']} (+{item['n_obs']} observed rows), answers {ch.choices}: {msg}", case)
    if info.get("cap_hit"):
        col.cap(f"leaf cap {LEAF_CAP} hit for {item['op']} on {item['layout']}")


def replay(prop, case, col):
    item = case["item"]
    ch = Chooser(case["choices"])
    before, out, exc = execute(item, ch)
    col.evaluations += 1
    if exc is not None:
        col.refused += 1
        print(f"replay: operation refused: {short_exc(exc)}")
        return
    print("input rows:")
    for r in build_rows(item["layout"], item["n_obs"], item["pool"], mix=item.get("mix"), lookalike=bool(item.get("lookalike")), order=item.get("order"), longobs=bool(item.get("longobs"))):
        print("   ", r)
    for o in out if isinstance(out, tuple) else (out,):
        print("output rows:")
        for r in describe(o):
            print("   ", r)
    for sig, msg in ORACLES[prop](item, before, out):
        col.violation(sig + ("|reused-object" if item.get("reuse") else ""), msg, case)
