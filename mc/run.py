"""Runner:  python -m mc.run <ID> [--tier quick|thorough] [--replay path] [--jobs N]

Exit 0: property held on everything explored (known findings are printed as
KNOWN-FINDING lines).  Exit 1: at least one unlisted violation (VIOLATION lines).
Exit 3: the harness itself failed (HARNESS-ERROR) - a bug in /verif, never a verdict.
"""
import argparse
import fnmatch
import importlib
import json
import multiprocessing
import os
import random
import subprocess
import contextlib
import io
import sys
import time
import traceback

from . import env

env.setup()

from .core import Collector, exception_origin_in_repo, short_exc, jsonable, digest  # noqa: E402

VERIF = env.VERIF
# evidence under /verif/evidence always describes /repo itself; a run against another tree
# (BATCHIE_REPO=<scratch copy>, used by tools/trymut.py and tools/seedmatrix.py) keeps its
# evidence inside that scratch tree
EVIDENCE_DIR = os.path.join(VERIF, "evidence") if env.REPO == "/repo" else os.path.join(env.REPO, ".verif-evidence")
REPLAY_DIR = os.path.join(VERIF, "replays")
KNOWN_FILE = os.path.join(VERIF, "known_findings.json")
SCHEMA = "/root/.vp/EVIDENCE.schema.json"

_MODULE = None
_TIER = None


def load_module(prop):
    return importlib.import_module(f"mc.props.{prop.lower()}")


def _run_one(args):
    idx, item = args
    col = Collector(_MODULE.PROP)
    t_item = time.time()
    try:
        _MODULE.run_item(item, col, _TIER)
        if os.environ.get("VERIF_ITEM_TIMES"):
            print(f"ITEM-TIME {time.time() - t_item:.1f}s {json.dumps(item, sort_keys=True)[:200]}", file=sys.stderr, flush=True)
    except Exception as exc:  # noqa: BLE001
        from .explore import NondeterminismError

        if not isinstance(exc, NondeterminismError) and exception_origin_in_repo(exc):
            tb = traceback.extract_tb(exc.__traceback__)
            where = next(
                (f"{os.path.relpath(f.filename, env.REPO)}:{f.name}" for f in reversed(tb) if env.in_repo(f.filename)),
                "?",
            )
            col.violation(
                f"{_MODULE.PROP}|uncaught|{type(exc).__name__}|{where}",
                f"batchie raised where the property demands a result: {short_exc(exc)} at {where}",
                {"__item__": item},
            )
        else:
            col.harness_errors.append(
                f"item {idx}: {short_exc(exc)}\n{traceback.format_exc()}"
            )
    return col


def _init_worker():
    # children are forked after the parent imported everything; nothing to do
    pass


def load_known(prop):
    if not os.path.exists(KNOWN_FILE):
        return []
    with open(KNOWN_FILE) as f:
        data = json.load(f)
    return [e for e in data.get("findings", []) if e.get("property") == prop and e.get("status") == "known"]


def match_known(sig, known):
    for e in known:
        pat = e.get("signature", "")
        if sig == pat or fnmatch.fnmatchcase(sig, pat):
            return e
    return None


def write_replay(prop, v):
    d = os.path.join(REPLAY_DIR, prop)
    os.makedirs(d, exist_ok=True)
    name = digest(v["sig"], json.dumps(v["case"], sort_keys=True), size=10) + ".json"
    path = os.path.join(d, name)
    with open(path, "w") as f:
        json.dump({"property": prop, "signature": v["sig"], "what": v["what"], "case": v["case"],
                   "repo": env.REPO}, f, indent=1, sort_keys=True)
    return path


def validate_evidence(path):
    vt = "/opt/veriftools/pyvenv/bin/python"
    if not (os.path.exists(vt) and os.path.exists(SCHEMA)):
        return None
    code = (
        "import json,sys,jsonschema;"
        "jsonschema.validate(json.load(open(sys.argv[1])), json.load(open(sys.argv[2])))"
    )
    try:
        r = subprocess.run([vt, "-c", code, path, SCHEMA], capture_output=True, text=True, timeout=60)
    except Exception:  # noqa: BLE001
        return None
    if r.returncode != 0:
        return r.stderr.strip().splitlines()[-1] if r.stderr.strip() else "schema validation failed"
    return None


def main(argv=None):
    global _MODULE, _TIER
    ap = argparse.ArgumentParser()
    ap.add_argument("prop")
    ap.add_argument("--tier", default=os.environ.get("VERIF_TIER", "quick"), choices=["quick", "thorough"])
    ap.add_argument("--replay", default=None)
    ap.add_argument("--jobs", type=int, default=int(os.environ.get("VERIF_JOBS", "0")))
    ap.add_argument("--max-items", type=int, default=0, help="debug: only the first N work items")
    args = ap.parse_args(argv)
    prop = args.prop.upper()
    try:
        seed = int(os.environ.get("VERIF_SEED", "0"))
    except ValueError:
        seed = 0
    tier = args.tier
    _TIER = tier
    t0 = time.time()
    try:
        mod = load_module(prop)
    except ModuleNotFoundError as exc:
        if exc.name and exc.name.startswith("mc.props"):
            print(f"HARNESS-ERROR no check module for {prop}")
            return 3
        # an import inside batchie failed: the tree under test does not even import
        print(f"HARNESS-ERROR cannot import code under test: {exc}")
        return 3
    _MODULE = mod
    known = load_known(prop)

    if args.replay:
        with open(args.replay) as f:
            rec = json.load(f)
        col = Collector(prop)
        case = rec["case"]
        if isinstance(case, dict) and "__item__" in case:
            r = _run_one((0, case["__item__"]))
            col.merge(r)
        else:
            try:
                mod.replay(case, col)
            except Exception as exc:  # noqa: BLE001
                if exception_origin_in_repo(exc):
                    col.violation(rec.get("signature", "?"), f"batchie raised: {short_exc(exc)}", case)
                else:
                    print("HARNESS-ERROR during replay\n" + traceback.format_exc())
                    return 3
        if col.harness_errors:
            print("HARNESS-ERROR during replay\n" + col.harness_errors[0])
            return 3
        bad = 0
        for v in col.violations:
            k = match_known(v["sig"], known)
            if k:
                print(f"KNOWN-FINDING: property={prop} {k.get('description', v['what'])}")
            else:
                bad += 1
                print(f"VIOLATION property={prop} replay={os.path.abspath(args.replay)}")
                print(f"  signature: {v['sig']}\n  what: {v['what']}")
        if not col.violations:
            print(f"replay: case no longer violates {prop}")
        return 1 if bad else 0

    items = list(mod.plan(tier, seed))
    if args.max_items:
        items = items[: args.max_items]
    order = list(range(len(items)))
    random.Random(seed).shuffle(order)
    if hasattr(mod, "COST"):
        # longest items first (ties stay in the shuffled order): with few, unequal items the last one started decides the wall time
        order.sort(key=lambda i: -float(mod.COST(items[i])))
    work = [(i, items[i]) for i in order]
    jobs = args.jobs or min(16, os.cpu_count() or 1)
    total = Collector(prop)
    if jobs <= 1 or len(work) <= 1:
        for w in work:
            total.merge(_run_one(w))
    else:
        ctx = multiprocessing.get_context("fork")
        with ctx.Pool(min(jobs, len(work)), initializer=_init_worker) as pool:
            for col in pool.imap_unordered(_run_one, work, chunksize=1):
                total.merge(col)
    # Epilogue: a deterministic handful of work items once more, one after the other in THIS process (the pool
    # decides by itself which items share a worker, so state that the code under test keeps between calls - a
    # module-level cache, a mutated default - would otherwise be exercised in an irreproducible way).  The same
    # oracles apply; on code without such state the pass repeats earlier executions and changes nothing.
    if len(work) > 1 and not args.max_items and getattr(mod, "EPILOGUE", True):
        n_ep = min(len(items), int(getattr(mod, "EPILOGUE_ITEMS", 4)))
        idx = sorted({int(i * len(items) / n_ep) for i in range(n_ep)}, reverse=True)
        # ... and with the package logger at DEBUG (what --verbose sets up): the logging level is part of the environment, not
        # an input of any operation, so the same oracles must hold
        from .logctx import package_logger_at_debug
        for i in idx:
            with package_logger_at_debug(), contextlib.redirect_stderr(io.StringIO()):  # (the commands' own log handlers write to stderr)
                ep = _run_one((i, items[i]))
            ep.counters = {}
            ep.samples = []
            total.merge(ep)
        total.count("epilogue_items_rerun_in_one_process", len(idx))
    # optional whole-run post-processing (e.g. cross-item differential oracles)
    if hasattr(mod, "finish"):
        mod.finish(total, tier)
    wall = time.time() - t0

    # ---- classify violations ----
    by_sig = {}
    for v in total.violations:
        # one witness per signature: the smallest case (deterministic, independent of the pool's completion order)
        key = (len(json.dumps(v["case"], sort_keys=True)), json.dumps(v["case"], sort_keys=True))
        if v["sig"] not in by_sig or key < by_sig[v["sig"]][0]:
            by_sig[v["sig"]] = (key, v)
    by_sig = {k: v for k, (_, v) in sorted(by_sig.items())}
    unlisted, listed = [], {}
    for sig, v in by_sig.items():
        k = match_known(sig, known)
        if k:
            listed.setdefault(k.get("signature"), (k, v))
        else:
            unlisted.append(v)

    level = getattr(mod, "LEVEL", "model_checking")
    exhaustive = not total.caps and not total.harness_errors
    coverage = {
        "evaluations": total.evaluations,
        "distinct_nontrivial": len(total.nontrivial),
        "rule": getattr(mod, "RULE", ""),
        "samples": total.samples[:6] or [{"note": "no case recorded"}],
        "states": max(total.states, 0),
        "transitions": max(total.transitions, 0),
        "traces_validated_against_impl": total.traces if total.traces else total.evaluations,
        "exhaustive": bool(exhaustive),
        "bounds": jsonable(getattr(mod, "BOUNDS", {}).get(tier, {})),
        "caps_hit": sorted(total.caps),
        "distinct_outcomes": len(total.outcomes),
        "refused": total.refused,
        "work_items": len(items),
        "counters": dict(sorted(total.counters.items())),
        "known_findings_matched": sorted(k for k in listed),
        "repo": env.REPO,
        "explanation": getattr(mod, "EXPLANATION", getattr(mod, "RULE", "")),
    }
    evidence = {
        "property_id": prop,
        "tier": tier,
        "seed": seed,
        "level": level,
        "coverage": coverage,
        "assumptions": list(getattr(mod, "ASSUMPTIONS", [])),
        "wall_s": round(wall, 3),
        "violations": len(unlisted),
    }
    os.makedirs(EVIDENCE_DIR, exist_ok=True)
    ev_path = os.path.join(EVIDENCE_DIR, f"{prop}.json")
    with open(ev_path, "w") as f:
        json.dump(evidence, f, indent=1, sort_keys=True)
    problem = validate_evidence(ev_path)

    print(
        f"[{prop}] tier={tier} seed={seed} items={len(items)} evaluations={total.evaluations} "
        f"states={total.states} transitions={total.transitions} nontrivial={len(total.nontrivial)} "
        f"outcomes={len(total.outcomes)} refused={total.refused} caps={total.caps} wall={wall:.1f}s"
    )
    if total.counters:
        print("  counters: " + ", ".join(f"{k}={v}" for k, v in sorted(total.counters.items())))
    for sig, (k, v) in listed.items():
        print(f"KNOWN-FINDING: property={prop} {k.get('description', v['what'])}")
    rc = 0
    if total.harness_errors:
        print(f"HARNESS-ERROR {len(total.harness_errors)} work item(s) failed inside the harness; first:")
        print(total.harness_errors[0])
        rc = 3
    if problem:
        print(f"HARNESS-ERROR evidence file does not validate: {problem}")
        rc = 3
    if total.evaluations == 0 or (len(total.outcomes) <= 1 and not getattr(mod, "SINGLE_OUTCOME_OK", False)):
        print(f"HARNESS-ERROR vacuous run: evaluations={total.evaluations} distinct outcomes={len(total.outcomes)}")
        rc = 3
    if unlisted:
        for v in unlisted[:12]:
            path = write_replay(prop, v)
            print(f"VIOLATION property={prop} replay={path}")
            print(f"  signature: {v['sig']}\n  what: {v['what']}")
        if len(unlisted) > 12:
            print(f"  ... and {len(unlisted) - 12} further distinct signatures ({total.n_violations} violating cases in total)")
        rc = 1
    return rc


if __name__ == "__main__":
    sys.exit(main())
