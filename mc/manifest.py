"""Regenerate /verif/MANIFEST.json from the check modules' metadata:  python -m mc.manifest"""
import importlib
import json
import os

from . import env

env.setup()

ALL = [f"C{i:02d}" for i in range(1, 21)]
# modules that are finished, reviewed and silent on the unchanged tree
READY = ALL
NOT_BUILT_REASON = "check not built yet in this round (planned: see DESIGN.md section 5)"

ENGINES = [
    {"name": "E1-input-enumeration", "path": "mc/props", "kind_free_text": "bounded-exhaustive enumeration of inputs/configurations on the real code against a reference model"},
    {"name": "E2-choice-tree", "path": "mc/explore.py", "kind_free_text": "stateless DFS over every answer of a scripted random source / every order (deviation-bounded where stated)"},
    {"name": "E3-state-bfs", "path": "mc/bfs.py", "kind_free_text": "explicit-state BFS over operation histories on real objects with canonical state hashing"},
    {"name": "E4-crash-points", "path": "mc/props/c19.py", "kind_free_text": "crash-point enumeration of the orchestration script with fault-injecting os/subprocess seams and a pipeline stub derived from the .nf DAG"},
]


def main():
    checks, na, serves = [], [], {e["name"]: [] for e in ENGINES}
    for pid in ALL:
        try:
            if pid not in READY:
                raise ModuleNotFoundError(pid)
            mod = importlib.import_module(f"mc.props.{pid.lower()}")
        except ModuleNotFoundError:
            na.append({"property_id": pid, "reason": NOT_BUILT_REASON})
            continue
        entry = {
            "property_id": pid,
            "quick_cmd": f"./check {pid} --tier quick",
            "thorough_cmd": f"./check {pid} --tier thorough",
            "evidence_file": f"/verif/evidence/{pid}.json",
            "replay_cmd_template": f"./check {pid} --replay {{path}}",
            "engine": getattr(mod, "ENGINE", "E2-choice-tree"),
            "level_claimed": {
                "category": getattr(mod, "LEVEL", "model_checking"),
                "text": getattr(mod, "LEVEL_TEXT", getattr(mod, "RULE", "")),
                "design_ref": f"DESIGN.md section 5, {pid}",
            },
            "level_note": getattr(mod, "LEVEL_NOTE", "; ".join(getattr(mod, "ASSUMPTIONS", []))),
            "technique": getattr(mod, "TECHNIQUE", "bounded exhaustive exploration of the implementation (model checking) against a reference model"),
        }
        checks.append(entry)
        for e in str(entry["engine"]).split("+"):
            if e in serves:
                serves[e].append(pid)
    for e in ENGINES:
        e["serves_properties"] = serves[e["name"]]
    manifest = {
        "version": 1,
        "setup_cmd": "mkdir -p /verif/evidence /verif/replays && /venv/bin/python -c 'import sys; sys.path.insert(0, \"/verif\"); import mc.explore'",
        "hooks": {
            "guard": "BATCHIE_VERIF",
            "enable": "no source hooks are needed: every seam (rng parameters, np.random module attributes, os/subprocess functions) is patched from the harness; the runner exports BATCHIE_VERIF=1 for symmetry only",
            "baseline_off_cmd": "cd /repo && /venv/bin/python -m pytest -ra -q -p no:cacheprovider --timeout=900 --continue-on-collection-errors",
            "source_commits": [],
            "add_only": True,
        },
        "engines": ENGINES,
        "checks": checks,
        "not_applicable": na,
        "notes": "All checks execute the code in /repo/src and /repo/nextflow as it is on disk (BATCHIE_REPO overrides the tree). Known findings: /verif/known_findings.json. Seeded property-breaking changes: /verif/seeded/.",
    }
    with open(os.path.join(env.VERIF, "MANIFEST.json"), "w") as f:
        json.dump(manifest, f, indent=1)
    print(f"MANIFEST.json: {len(checks)} checks, {len(na)} not yet claimed")


if __name__ == "__main__":
    main()
