"""Shared bookkeeping: result collector, violation records, canonical digests."""
import hashlib
import json
import math
import traceback

import numpy as np

from . import env

MAX_VIOLATIONS_PER_ITEM = 25
MAX_SAMPLES_PER_ITEM = 3


def jsonable(x):
    """Convert numpy containers to plain JSON values (NaN/inf as strings)."""
    if isinstance(x, dict):
        return {str(k): jsonable(v) for k, v in x.items()}
    if isinstance(x, (list, tuple, set, frozenset)):
        return [jsonable(v) for v in x]
    if isinstance(x, np.ndarray):
        return jsonable(x.tolist())
    if isinstance(x, (np.bool_,)):
        return bool(x)
    if isinstance(x, (np.integer,)):
        return int(x)
    if isinstance(x, (float, np.floating)):
        x = float(x)
        if math.isnan(x):
            return "nan"
        if math.isinf(x):
            return "inf" if x > 0 else "-inf"
        return x
    if isinstance(x, bytes):
        return x.hex()
    if isinstance(x, (str, int, bool)) or x is None:
        return x
    return repr(x)


def unjson_float(x):
    if x == "nan":
        return float("nan")
    if x == "inf":
        return float("inf")
    if x == "-inf":
        return float("-inf")
    return x


def floats(seq):
    """Inverse of jsonable for (nested) float lists."""
    if isinstance(seq, list):
        return [floats(v) for v in seq]
    return unjson_float(seq)


def digest(*parts, size=8):
    h = hashlib.blake2b(digest_size=size)
    for p in parts:
        if isinstance(p, np.ndarray):
            h.update(str(p.dtype).encode())
            h.update(str(p.shape).encode())
            if p.dtype == object or p.dtype.kind in "US":
                h.update(repr(p.tolist()).encode())
            else:
                h.update(np.ascontiguousarray(p).tobytes())
        elif isinstance(p, bytes):
            h.update(p)
        else:
            h.update(repr(p).encode())
        h.update(b"|")
    return h.hexdigest()


class Refused(Exception):
    """The operation under test declined (raised); no verdict for this execution."""


class Collector:
    """Per-work-item accumulator, merged by the runner."""

    def __init__(self, prop):
        self.prop = prop
        self.evaluations = 0
        self.states = 0
        self.transitions = 0
        self.traces = 0
        self.refused = 0
        self.nontrivial = set()
        self.outcomes = set()
        self.violations = []
        self.n_violations = 0
        self.known_hits = {}
        self.samples = []
        self.caps = []
        self.counters = {}
        self.harness_errors = []

    # ---- bookkeeping ----
    def count(self, name, n=1):
        self.counters[name] = self.counters.get(name, 0) + n

    def sample(self, case):
        if len(self.samples) < MAX_SAMPLES_PER_ITEM:
            self.samples.append(jsonable(case))

    def nontriv(self, *key):
        self.nontrivial.add(digest(*key))

    def outcome(self, *key):
        self.outcomes.add(digest(*key, size=6))

    def cap(self, what):
        if what not in self.caps:
            self.caps.append(what)

    def violation(self, sig, what, case):
        """sig: stable signature of *what fails* (used to match known findings);
        case: JSON-able description from which module.replay(case) re-executes it."""
        self.n_violations += 1
        if len(self.violations) < MAX_VIOLATIONS_PER_ITEM:
            self.violations.append(
                {"sig": str(sig), "what": str(what), "case": jsonable(case)}
            )

    def merge(self, o):
        self.evaluations += o.evaluations
        self.states += o.states
        self.transitions += o.transitions
        self.traces += o.traces
        self.refused += o.refused
        self.nontrivial |= o.nontrivial
        self.outcomes |= o.outcomes
        self.n_violations += o.n_violations
        for v in o.violations:
            if len(self.violations) < 400:
                self.violations.append(v)
        for s in o.samples:
            if len(self.samples) < 6:
                self.samples.append(s)
        for c in o.caps:
            self.cap(c)
        for k, v in o.counters.items():
            self.counters[k] = self.counters.get(k, 0) + v
        self.harness_errors.extend(o.harness_errors)


def exception_origin_in_repo(exc):
    """True when the innermost frame of the traceback that is not in numpy/pandas/...
    site-packages lies inside the repository under test."""
    tb = traceback.extract_tb(exc.__traceback__)
    for fr in reversed(tb):
        fn = fr.filename
        if "site-packages" in fn or fn.startswith("<"):
            continue
        if "/lib/python" in fn:
            continue
        return env.in_repo(fn)
    return False


def short_exc(exc):
    return f"{type(exc).__name__}: {str(exc)[:200]}"


def dump(obj):
    return json.dumps(jsonable(obj), sort_keys=True)
