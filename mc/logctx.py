"""Environment dimension 'logging': the harness silences logging globally (mc.env); inside this context the package
logger is at DEBUG with a handler that formats every record, as `--verbose` / batchie.log_config would set it up."""
import contextlib
import logging


class _Sink(logging.Handler):
    def emit(self, record):
        record.getMessage()  # format as a real handler would, keep nothing


@contextlib.contextmanager
def package_logger_at_debug(name="batchie"):
    lg = logging.getLogger(name)
    saved = (lg.level, lg.propagate, logging.root.manager.disable)
    sink = _Sink()
    lg.addHandler(sink)
    lg.setLevel(logging.DEBUG)
    lg.propagate = False
    logging.disable(logging.NOTSET)
    try:
        yield
    finally:
        logging.disable(saved[2])
        lg.removeHandler(sink)
        lg.setLevel(saved[0])
        lg.propagate = saved[1]
