#!/usr/bin/env python3
"""tools/mkresults.py <matrix log> [<matrix log> ...]
Rebuild /verif/seeded/RESULTS.md (and the 'final' field of every seed's meta.json) from the per-seed lines that
tools/seedmatrix.py prints ("<seed> <verdict> <tier> <wall>s [signatures]").  Later logs override earlier ones."""
import ast
import json
import os
import re
import sys
import time

ROOT = "/verif/seeded"
LINE = re.compile(r"^(C\d\d-[a-z]) (KILLED|MISSED|HARNESS-ERROR|PATCH-DOES-NOT-APPLY) (\S+) (\d+)s (\[.*\])\s*$")
res = {}
for path in sys.argv[1:]:
    for ln in open(path):
        m = LINE.match(ln.strip())
        if m:
            res[m.group(1)] = (m.group(2), m.group(3), int(m.group(4)), ast.literal_eval(m.group(5)))
names = sorted(n for n in os.listdir(ROOT) if os.path.isfile(os.path.join(ROOT, n, "meta.json")))
missing = [n for n in names if n not in res]
if missing:
    print("no result line for:", " ".join(missing))
with open(os.path.join(ROOT, "RESULTS.md"), "w") as f:
    f.write("# Independently seeded property-breaking changes: which check catches which\n\n")
    f.write("Each change was written by a sub-agent that saw only the property text and a scratch worktree, confirmed by "
            "`tools/seedcheck.py` (demo passes on the clean tree, fails with the patch; the repository's 151 tests still pass), "
            "and is re-run here against the final checks (`tools/seedmatrix.py`, quick tier, against a scratch copy of the repository "
            "with the patch applied).  `first run` is the verdict of the check as it was when the seed arrived (before any strengthening).\n\n")
    f.write("| seed | property | files touched | first run | final verdict (tier) | signatures |\n|---|---|---|---|---|---|\n")
    k = 0
    for n in names:
        if n not in res:
            continue
        verdict, tier, wall, sigs = res[n]
        mp = os.path.join(ROOT, n, "meta.json")
        meta = json.load(open(mp))
        meta["final"] = {"verdict": verdict, "tier": tier, "signatures": sigs[:6], "wall_s": float(wall), "date": time.strftime("%Y-%m-%d")}
        json.dump(meta, open(mp, "w"), indent=1)
        first = "; ".join(f"{c}: {v['verdict']}" for c, v in meta.get("checks", {}).items())
        f.write(f"| {n} | {meta['property']} | {', '.join(meta.get('files_touched', []))} | {first} | {verdict} ({tier}, {wall}s) | {'; '.join(sigs[:3])} |\n")
        k += verdict == "KILLED"
    f.write(f"\n{k} of {len([n for n in names if n in res])} seeded changes are reported by the check of their property.\n")
print(f"{k} killed of {len([n for n in names if n in res])}")
