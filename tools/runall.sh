#!/bin/sh
# tools/runall.sh [tier] [seed]  - run every check once, print one status line per property
tier=${1:-quick}; seed=${2:-0}
cd /verif
for i in 01 02 03 04 05 06 07 08 09 10 11 12 13 14 15 16 17 18 19 20; do
  s=$(date +%s)
  out=$(VERIF_SEED=$seed ./check C$i --tier $tier 2>&1); rc=$?
  e=$(date +%s)
  echo "C$i rc=$rc wall=$((e-s))s $(echo "$out" | grep -c '^VIOLATION') violations $(echo "$out" | grep -c 'KNOWN-FINDING') known $(echo "$out" | grep -c HARNESS-ERROR) harness-errors | $(echo "$out" | head -1 | cut -c1-160)"
done
