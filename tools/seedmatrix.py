#!/usr/bin/env python3
"""Re-run every kept seeded change under /verif/seeded/<name>/ against the check of its
property (quick tier; thorough as well with --thorough for seeds the quick tier misses)
and write /verif/seeded/RESULTS.md + update each meta.json["final"].

  tools/seedmatrix.py [--only C03-a,C08-b] [--thorough] [--jobs 2]
"""
import argparse
import concurrent.futures as cf
import json
import os
import shutil
import subprocess
import tempfile
import time

ap = argparse.ArgumentParser()
ap.add_argument("--only", default=None)
ap.add_argument("--thorough", action="store_true")
ap.add_argument("--jobs", type=int, default=2)
ap.add_argument("--from-meta", action="store_true", help="run nothing: write RESULTS.md from the 'final' verdicts stored in the meta.json files")
a = ap.parse_args()
ROOT = "/verif/seeded"


def run_seed(name):
    d = os.path.join(ROOT, name)
    meta = json.load(open(os.path.join(d, "meta.json")))
    prop = meta["property"]
    tmp = tempfile.mkdtemp(prefix="seedm-", dir="/dev/shm")
    try:
        subprocess.check_call(["rsync", "-a", "--exclude", ".git", "--exclude", "__pycache__", "/repo/", tmp + "/"])
        r = subprocess.run(["patch", "-p1", "-s", "-d", tmp, "-i", os.path.join(d, "patch.diff")], capture_output=True, text=True)
        if r.returncode != 0:
            return name, prop, "PATCH-DOES-NOT-APPLY", [], 0.0, "-"
        env = dict(os.environ, BATCHIE_REPO=tmp, PYTHONDONTWRITEBYTECODE="1", VERIF_JOBS=str(max(2, 16 // a.jobs)))
        env.pop("PYTHONPATH", None)
        verdict, sigs, wall, tier_used = "MISSED", [], 0.0, "quick"
        for tier in ["quick"] + (["thorough"] if a.thorough else []):
            t0 = time.time()
            r = subprocess.run(["/verif/check", prop, "--tier", tier], env=env, capture_output=True, text=True)
            wall = time.time() - t0
            lines = r.stdout.splitlines()
            sigs = sorted({l.strip()[len("signature: "):] for l in lines if l.strip().startswith("signature:")})
            viol = [l for l in lines if l.startswith("VIOLATION")]
            tier_used = tier
            if viol and r.returncode == 1:
                verdict = "KILLED"
                break
            if r.returncode not in (0, 1):
                verdict = "HARNESS-ERROR"
                break
        meta["final"] = {"verdict": verdict, "tier": tier_used, "signatures": sigs[:6], "wall_s": round(wall, 1),
                         "date": time.strftime("%Y-%m-%d")}
        json.dump(meta, open(os.path.join(d, "meta.json"), "w"), indent=1)
        return name, prop, verdict, sigs, wall, tier_used
    finally:
        shutil.rmtree(tmp, ignore_errors=True)


names = sorted(n for n in os.listdir(ROOT) if os.path.isfile(os.path.join(ROOT, n, "meta.json")))
if a.only:
    names = [n for n in names if n in a.only.split(",")]
rows = []
if a.from_meta:
    for n in names:
        meta = json.load(open(os.path.join(ROOT, n, "meta.json")))
        fin = meta.get("final")
        if not fin:
            print("no final verdict stored for", n)
            continue
        rows.append((n, meta["property"], fin["verdict"], fin.get("signatures", []), fin.get("wall_s", 0.0), fin.get("tier", "quick")))
else:
    with cf.ThreadPoolExecutor(a.jobs) as ex:
        for res in ex.map(run_seed, names):
            print(res[0], res[2], res[5], f"{res[4]:.0f}s", res[3][:2], flush=True)
            rows.append(res)
if not a.only:
    with open(os.path.join(ROOT, "RESULTS.md"), "w") as f:
        f.write("# Independently seeded property-breaking changes: which check catches which\n\n")
        f.write("Each change was written by a sub-agent that saw only the property text and a scratch worktree, confirmed by "
                "`tools/seedcheck.py` (demo passes on the clean tree, fails with the patch; the repository's 151 tests still pass), "
                "and is re-run here against the final checks (`tools/seedmatrix.py`).  `first run` is the verdict of the check as it "
                "was when the seed arrived (before any strengthening).\n\n")
        f.write("| seed | property | files touched | first run | final verdict (tier) | signatures |\n|---|---|---|---|---|---|\n")
        for name, prop, verdict, sigs, wall, tier in rows:
            meta = json.load(open(os.path.join(ROOT, name, "meta.json")))
            first = "; ".join(f"{k}: {v['verdict']}" for k, v in meta.get("checks", {}).items())
            f.write(f"| {name} | {prop} | {', '.join(meta.get('files_touched', []))} | {first} | {verdict} ({tier}, {wall:.0f}s) | {'; '.join(sigs[:3])} |\n")
        k = sum(1 for r in rows if r[2] == "KILLED")
        f.write(f"\n{k} of {len(rows)} seeded changes are reported by the check of their property.\n")
    print(f"{sum(1 for r in rows if r[2] == 'KILLED')}/{len(rows)} killed; table written to {ROOT}/RESULTS.md")
