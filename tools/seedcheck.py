#!/usr/bin/env python3
"""Confirm a seeded property-breaking change and run the checks against it.

  tools/seedcheck.py <seed dir with patch.diff + demo.py [+ notes.md]> --prop C03 --name C03-a [--checks C03,C12] [--keep-to /verif/seeded]

Steps (all on a scratch copy of /repo under /dev/shm, removed afterwards):
  1. clean copy: demo must PASS (exit 0)
  2. apply patch; package imports; the repository's full test suite must still pass
  3. demo must FAIL (exit != 0)
  4. run ./check <ID> --tier quick (and thorough with --thorough) with BATCHIE_REPO=<copy>
Writes <keep-to>/<name>/{patch.diff,demo.py,notes.md,meta.json} when 1-3 hold."""
import argparse
import json
import os
import shutil
import subprocess
import sys
import tempfile
import time

ap = argparse.ArgumentParser()
ap.add_argument("seed")
ap.add_argument("--prop", required=True)
ap.add_argument("--name", required=True)
ap.add_argument("--checks", default=None)
ap.add_argument("--keep-to", default="/verif/seeded")
ap.add_argument("--thorough", action="store_true")
ap.add_argument("--skip-tests", action="store_true")
a = ap.parse_args()

patch = os.path.join(a.seed, "patch.diff")
demo = os.path.join(a.seed, "demo.py")
d = tempfile.mkdtemp(prefix="seed-", dir="/dev/shm")
meta = {"property": a.prop, "name": a.name, "source": "independent sub-agent given only the property text and a scratch worktree",
        "ran": [], "date": time.strftime("%Y-%m-%d")}
ok = True


def run(cmd, **kw):
    r = subprocess.run(cmd, capture_output=True, text=True, **kw)
    return r


try:
    subprocess.check_call(["rsync", "-a", "--exclude", ".git", "--exclude", "__pycache__", "--exclude", "seed_out", "/repo/", d + "/"])
    env = dict(os.environ, PYTHONPATH=os.path.join(d, "src"), PYTHONDONTWRITEBYTECODE="1")
    # demos may locate the tree relative to their own path (<tree>/seed_out/<X>/demo.py): run a copy from there
    local = os.path.join(d, "seed_out", os.path.basename(os.path.normpath(a.seed)))
    os.makedirs(local, exist_ok=True)
    shutil.copy(demo, os.path.join(local, "demo.py"))
    demo_run = os.path.join(local, "demo.py")
    r = run(["/venv/bin/python", demo_run], cwd=d, env=env, timeout=900)
    meta["ran"].append({"step": "demo on clean tree", "exit": r.returncode, "tail": (r.stdout + r.stderr)[-300:]})
    print(f"[1] demo on clean copy: exit {r.returncode} {'OK' if r.returncode == 0 else 'UNEXPECTED'}")
    ok &= r.returncode == 0
    r = run(["patch", "-p1", "-s", "-d", d, "-i", os.path.abspath(patch)])
    if r.returncode != 0:
        print("patch does not apply:", r.stdout, r.stderr)
        sys.exit(2)
    files = [l[6:].strip() for l in open(patch) if l.startswith("+++ b/")]
    meta["files_touched"] = files
    if not a.skip_tests:
        t0 = time.time()
        r = run(["/venv/bin/python", "-m", "pytest", "-q", "-p", "no:cacheprovider", "--timeout=900", "-x"], cwd=d, env=env, timeout=3600)
        last = r.stdout.strip().splitlines()[-1] if r.stdout.strip() else r.stderr[-200:]
        meta["ran"].append({"step": "repository test suite with the change", "exit": r.returncode, "summary": last})
        print(f"[2] repo test suite with the change: exit {r.returncode}: {last} ({time.time() - t0:.0f}s)")
        ok &= r.returncode == 0 and "151 passed" in last
    r = run(["/venv/bin/python", demo_run], cwd=d, env=env, timeout=900)
    meta["ran"].append({"step": "demo with the change", "exit": r.returncode, "tail": (r.stdout + r.stderr)[-400:]})
    print(f"[3] demo with the change: exit {r.returncode} {'OK (fails)' if r.returncode != 0 else 'UNEXPECTED (passes)'}")
    ok &= r.returncode != 0
    meta["confirmed"] = bool(ok)
    cenv = dict(os.environ, BATCHIE_REPO=d, PYTHONDONTWRITEBYTECODE="1")
    cenv.pop("PYTHONPATH", None)
    results = {}
    for c in (a.checks.split(",") if a.checks else [a.prop]):
        for tier in ["quick"] + (["thorough"] if a.thorough else []):
            t0 = time.time()
            r = run(["/verif/check", c, "--tier", tier], env=cenv, timeout=7200)
            lines = r.stdout.strip().splitlines()
            sigs = sorted({l.strip()[len("signature: "):] for l in lines if l.strip().startswith("signature:")})
            viol = [l for l in lines if l.startswith("VIOLATION")]
            verdict = "KILLED" if (viol and r.returncode == 1) else ("HARNESS-ERROR" if r.returncode not in (0, 1) else "MISSED")
            results[f"{c}:{tier}"] = {"exit": r.returncode, "verdict": verdict, "signatures": sigs[:8], "wall_s": round(time.time() - t0, 1)}
            print(f"[4] ./check {c} --tier {tier}: exit={r.returncode} {verdict} {sigs[:3]} ({time.time() - t0:.0f}s)")
            if verdict == "HARNESS-ERROR":
                print("\n".join(lines[-12:]))
            if verdict == "KILLED":
                break
    meta["checks"] = results
    if ok and a.keep_to:
        out = os.path.join(a.keep_to, a.name)
        os.makedirs(out, exist_ok=True)
        shutil.copy(patch, os.path.join(out, "patch.diff"))
        shutil.copy(demo, os.path.join(out, "demo.py"))
        n = os.path.join(a.seed, "notes.md")
        if os.path.exists(n):
            shutil.copy(n, os.path.join(out, "notes.md"))
            meta["needs_to_manifest"] = open(n).read()[:1500]
        with open(os.path.join(out, "meta.json"), "w") as f:
            json.dump(meta, f, indent=1)
        print("kept in", out)
    elif not ok:
        print("NOT CONFIRMED - not kept")
finally:
    shutil.rmtree(d, ignore_errors=True)
