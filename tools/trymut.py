#!/usr/bin/env python3
"""Apply a textual mutation to a scratch copy of the repo and run checks against it.

  tools/trymut.py -c C03 [-c C12] -f src/batchie/retrospective.py --old 'A' --new 'B' [--nth 1] [--tests]
  tools/trymut.py -c C03 --patch some.diff

Exit 0 when every listed check reported VIOLATION (mutant killed)."""
import argparse
import os
import shutil
import subprocess
import sys
import tempfile

ap = argparse.ArgumentParser()
ap.add_argument("-c", "--check", action="append", required=True)
ap.add_argument("-f", "--file")
ap.add_argument("--old")
ap.add_argument("--new")
ap.add_argument("--nth", type=int, default=0, help="1-based occurrence to replace (0 = must be unique)")
ap.add_argument("--patch")
ap.add_argument("--tier", default="quick")
ap.add_argument("--tests", action="store_true", help="also run the repo test-suite files related to the touched module")
ap.add_argument("--fulltests", action="store_true")
ap.add_argument("--keep", action="store_true")
a = ap.parse_args()

d = tempfile.mkdtemp(prefix="mut-", dir="/dev/shm")
try:
    subprocess.check_call(["rsync", "-a", "--exclude", ".git", "--exclude", "__pycache__", "/repo/", d + "/"])
    if a.patch:
        subprocess.check_call(["patch", "-p1", "-s", "-d", d, "-i", os.path.abspath(a.patch)])
    else:
        p = os.path.join(d, a.file)
        s = open(p).read()
        n = s.count(a.old)
        if n == 0:
            sys.exit(f"pattern not found in {a.file}")
        if a.nth == 0:
            if n != 1:
                sys.exit(f"pattern occurs {n} times; use --nth")
            s = s.replace(a.old, a.new)
        else:
            pos = -1
            for _ in range(a.nth):
                pos = s.index(a.old, pos + 1)
            s = s[:pos] + a.new + s[pos + len(a.old):]
        open(p, "w").write(s)
    env = dict(os.environ, BATCHIE_REPO=d, PYTHONDONTWRITEBYTECODE="1")
    killed = True
    if a.tests or a.fulltests:
        tenv = dict(env, PYTHONPATH=os.path.join(d, "src"))
        target = [] if a.fulltests else []
        cmd = ["/venv/bin/python", "-m", "pytest", "-q", "-x", "-p", "no:cacheprovider", "--timeout=900"]
        if not a.fulltests and a.file:
            base = os.path.splitext(a.file)[0] + "_test.py"
            if os.path.exists(os.path.join(d, base)):
                cmd.append(base)
        r = subprocess.run(cmd, cwd=d, env=tenv, capture_output=True, text=True)
        print("repo tests:", r.stdout.strip().splitlines()[-1] if r.stdout.strip() else r.stderr[-300:])
    for c in a.check:
        r = subprocess.run(["/verif/check", c, "--tier", a.tier], env=env, capture_output=True, text=True)
        lines = r.stdout.strip().splitlines()
        viol = [l for l in lines if l.startswith("VIOLATION")]
        sigs = [l.strip() for l in lines if l.strip().startswith("signature:")]
        print(f"{c}: exit={r.returncode} violations={len(viol)} " + ("KILLED" if viol and r.returncode == 1 else "MISSED"))
        for l in lines[:2]:
            print("   ", l[:220])
        for sline, in zip(sigs[:4]):
            print("   ", sline[:200])
        if r.returncode not in (0, 1):
            print("   ", "\n    ".join(lines[-15:]))
            print(r.stderr[-1500:])
        if not (viol and r.returncode == 1):
            killed = False
    sys.exit(0 if killed else 1)
finally:
    if not a.keep:
        shutil.rmtree(d, ignore_errors=True)
    else:
        print("kept", d)
