#!/usr/bin/env python3
"""Generate the seeding prompts of a round:  tools/mkprompts.py <round> <outdir> [IDs...]
Each prompt holds ONLY the property record, the path of the sub-agent's private worktree (/tmp/seed<round>-<ID>) and a
short list of the mechanisms earlier rounds used for that property (first lines of their notes) - nothing from the checks."""
import json
import os
import re
import sys

rnd, outdir = sys.argv[1], sys.argv[2]
HINTS = {
    "4": "Triggers that earlier rounds under-used and that you should prefer now: an interaction between TWO public operations that are each correct alone; behaviour that depends on the dtype / byte order / read-only flag / subclass of an argument; a value at the edge of a documented range (exactly 0, exactly 1, a bound itself); a call made a second time with different arguments on the same object; a command line entry point used with a non-default option combination; an input whose entries are all equal or all distinct; a clause of the statement that the earlier seeds did not touch at all.",
    "5": "Triggers that earlier rounds under-used and that you should prefer now: degenerate but legal inputs (zero rows, one row, one plate, one sample, a single posterior sample, an empty batch, an empty selection, n_chunks = 1 or far more chunks than items); ties and ordering (equal scores, equal sizes, equal names up to case or whitespace, already sorted versus reverse sorted input); numerical edges (exact 0 / 1 / bounds, subnormal and huge values, float32 versus float64 round trips, integer overflow of an index or a product); error paths (something the statement says must be REFUSED is now accepted, or the other way round); an option of a command line entry point that no earlier seed used; a library call sequence a downstream user would plausibly write (construct, mutate through a documented setter, call again); a clause of the statement that the earlier seeds did not touch at all.",
    "6": "Triggers that earlier rounds under-used and that you should prefer now: the file system and process environment of a command line entry point (an output file that already exists, a relative path or another working directory, input files given twice or in another order, an option's default versus the same value given explicitly); copies of objects (copy.copy / copy.deepcopy / pickle of a screen, a view, a model, a posterior sample, a holder) used in place of the original; integer and float types at an interface (int32 versus int64 ids, numpy scalars versus python numbers, 0-d arrays, negative zero, bool masks given as 0/1 integers); iteration order of dicts and sets; a threshold well above what a unit test would try (hundreds of plates, thousands of rows, 256 / 65536 boundaries) where a 'bounded memory' or 'compact dtype' rewrite changes behaviour; clauses of the statement about what must be REFUSED; a clause of the statement that the earlier seeds did not touch at all.",
    "7": "Triggers that earlier rounds under-used and that you should prefer now: arrays RETURNED to the caller that alias internal state (the caller edits what it was given and a later call is wrong), or arguments kept by reference and edited by the caller afterwards; screens of arity 1 or arity 3 where the earlier seeds used pairs; a default parameter value or keyword that silently changes meaning; an exception that is swallowed (bare except, fallback branch) so that something which must be refused is quietly 'repaired'; three public operations in a row where any two are fine; behaviour that differs between the library call and the command line entry point for the same request; a clause of the statement that the earlier seeds did not touch at all. Avoid pure size thresholds (256 / 4096 / 65536 boundaries) and pre-existing output files: the previous round used those heavily.",
    "8": "Triggers that earlier rounds under-used and that you should prefer now: a COMBINATION of two input features that are each common but rarely occur together (a control in the first column and a duplicated condition; an observed plate and a one-well plate; a batch and a chunk count that does not divide the candidates; the last sample in sort order and an empty plate; doses that differ only in sign or in the 7th digit); helpers that the anchored code calls (the casting of command line parameters to their annotated types in batchie.introspection, batchie.common, log configuration, the h5 helper functions) rather than the anchored functions themselves; the first or the last element of a loop treated differently; a comparison that changes from strict to non-strict (or the other way) where ties are possible; a clause of the statement that the earlier seeds did not touch at all. Avoid what the previous rounds used heavily: module-level or per-object caches, thresholds at 256 / 4096 / 65536, pre-existing output files, arrays aliased with the caller, mutable default arguments.",
    "9": "Triggers that earlier rounds under-used and that you should prefer now: a REFACTORING a maintainer would plausibly make (vectorising a loop, replacing a dict by array indexing, pandas merge / groupby replacing hand-written code, another sort kind or stability, np.unique swapped for a first-occurrence pass or the other way round, a boolean mask replaced by integer positions) whose semantics differ on NaN, ties, duplicates, empty groups, or on the -1 control sentinel used as an index; falsy-but-valid values (id 0, dose 0.0, seed 0, chunk index 0, an empty-string name, fraction 0.0, an empty but present array) tested with `if x` / `x or default`; integer versus true division, rounding mode (round-half-even versus ceil / floor), float32 accumulation; the ORDER of two steps swapped (validate-then-mutate, mask-then-transform, sort-then-split); exception safety (an object that is used again after one of its methods raised); a clause of the statement that the earlier seeds did not touch at all. Avoid what the previous rounds used heavily: behaviour that depends on the logging level, module-level or per-object caches, thresholds at 256 / 4096 / 65536, pre-existing output files, arrays aliased with the caller, mutable default arguments, names that differ only in surrounding blanks.",
    "10": "Triggers that earlier rounds under-used and that you should prefer now: SYMMETRY BLIND SPOTS - a change that is invisible on symmetric, square, sorted, equal-sized, single-sample, all-observed or all-distinct inputs and shows only on the asymmetric counterpart (non-square matrices, plates of unequal size, unsorted ids, a sample with a single plate next to one with many, one observed plate among unobserved ones, the LAST chunk / chain / plate being shorter than the others); UNIT CONFUSIONS (variance versus standard deviation versus precision, log versus logit, a sigmoid applied twice or not at all, mean versus sum, n versus n-1, percent versus fraction, a clip bound applied on the wrong scale); an axis or broadcast slip ((n,1) against (n,), sum over the wrong axis) that happens to give the same numbers for the shapes the tests use; command-line parameter CASTING (booleans given as the strings 'False' / '0', integers given as '3.0', a list option given once versus repeated, an option that accepts both a count and a fraction); the output file of one command consumed by the next command in a non-default way (files listed in another order, a file from an earlier iteration, a chunk listed twice); a clause of the statement that the earlier seeds did not touch at all. Avoid what the previous rounds used heavily: logging level, caches, thresholds at 256 / 4096 / 65536, pre-existing output files, aliasing, mutable defaults, blank-padded names, exception safety after a refused call, `if x` on a falsy-but-valid value.",
    "11": "Triggers that earlier rounds under-used and that you should prefer now: CLASSIC PYTHON / NUMPY SLIPS inside otherwise sensible edits - `zip` silently truncating the longer of two sequences; `break` where `continue` was meant (or an early `return` inside a loop) so that everything after the first special element is skipped; a loop variable shadowed by an inner loop or comprehension; a slice `[:-k]` or `[-k:]` with k == 0; `range(len(x) - 1)`; `max(...)` / `min(...)` / `argmax` over an empty or all-equal collection; chained comparisons and operator precedence (`a & b == c`, `not x in y`, `-x ** 2`); `==` between an array and a scalar used as a truth value; `np.where` / boolean mask applied to the wrong one of two parallel arrays; in-place `+=` / `sort()` / `.resize` on an array that is also an INPUT of the function; `np.unique` / `set` changing the order that a later step relies on; integer ids compared as strings (`'10' < '9'`); a dictionary keyed by float or by numpy scalars of different dtypes. The edit should still read like a tidy refactoring or micro-optimisation. Also welcome: a clause of the statement that the earlier seeds did not touch at all. Avoid what the previous rounds used heavily: logging level, caches, thresholds at 256 / 4096 / 65536, pre-existing output files, aliasing with the caller, mutable defaults, blank-padded or non-ASCII names, exception safety after a refused call, `if x` on a falsy-but-valid value, de-duplication of files by base name, regular expressions, float32 casts.",
}
HINT = HINTS.get(rnd, HINTS["11"])
only = set(sys.argv[3:])
props = [json.loads(l) for l in open("/verif/properties.jsonl")]
os.makedirs(outdir, exist_ok=True)
base = open("/verif/seeded/prompts-round3/C05.txt").read()
# generic part of the round-3 prompt after the "Already used" list
tail = base[base.index("Environment facts:"):]
for p in props:
    pid = p["id"]
    if only and pid not in only:
        continue
    wt = f"/tmp/seed{rnd}-{pid}"
    a = p["anchors"]
    mech = "; ".join(f"{m['name']} ({m['where']})" for m in a.get("mechanism", []))
    anchors = "files " + ", ".join(a.get("files", [])) + "; mechanisms: " + mech
    used = []
    for d in sorted(os.listdir("/verif/seeded")):
        if d.startswith(pid + "-") and os.path.exists(f"/verif/seeded/{d}/notes.md"):
            meta = json.load(open(f"/verif/seeded/{d}/meta.json"))
            txt = re.sub(r"\s+", " ", open(f"/verif/seeded/{d}/notes.md").read())[:420]
            used.append(f"  - ({', '.join(meta.get('files_touched', []))}) {txt}")
    head = f"""You are helping to evaluate a verification effort for the Python library tansey-lab/batchie (BATCHIE: Bayesian active learning for combination drug screens). Your job is to play the role of a developer who accidentally breaks ONE semantic property of the library with a realistic, subtle change that nevertheless passes the library's whole existing test suite.

Your private scratch git worktree of the repository is at:  {wt}
Work ONLY inside that directory. Never touch /repo or /verif and never read anything under /verif.

The property you must break (this is everything you are told about it):

  id: {pid}
  title: {p['title']}
  statement: {p['statement']}
  quantified over: {p['quantifier']['text']}
  code it is anchored in: {anchors}


Already used in earlier rounds for this property - do NOT reuse these mechanisms, code sites or triggers; find genuinely different ways to break the property (another function among the anchors or one of their callers / callees, another clause of the statement, another kind of trigger). {HINT} The change must contradict the STATEMENT as written (quote the clause in notes.md), not merely differ from the anchored implementation:
""" + "\n".join(used) + "\n\n"
    t = tail.replace("/tmp/seed3-C05", wt)
    open(os.path.join(outdir, f"{pid}.txt"), "w").write(head + t)
print("written", outdir)
